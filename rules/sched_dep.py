"""Dependency / bound obligations shared by C02 (forward, lower bounds, max) and C09 (backward, upper bounds, min)."""
from __future__ import annotations

import ast

from sa import facts
from sa.cfg import cfg_of
from sa.flow import flow_of, Expander
from sa.model import walk_no_nested, src, unmangle
from sa.pat import match, same
from . import sched
from .sched import PassShape


def _is_now(e):
    return bool(match("datetime.now()", e) or match("datetime.today()", e))


def _is_epoch_default(e, task, fwd=True):
    """task.min_start or datetime(1970, 1, 1)   |   task.min_start if task.min_start is not None else <const date>"""
    m = match(f"{task}.min_start or $d", e)
    if m and isinstance(m['d'], ast.Call) and getattr(m['d'].func, 'id', '') == 'datetime' and \
            all(isinstance(a, ast.Constant) for a in m['d'].args):
        return True
    m = match(f"{task}.min_start if {task}.min_start is not None else $d", e) or \
        match(f"{task}.min_start if {task}.min_start else $d", e)
    if m and isinstance(m['d'], ast.Call) and getattr(m['d'].func, 'id', '') == 'datetime':
        return True
    return False


def prerequisite_collection(ctx, o, ps: PassShape):
    """the bound term ranges over the dependencies of the task itself AND of all its ancestors, unfiltered"""
    S = ps.S
    pt = ps.prereq_term()
    if pt is None:
        reads = _dependency_date_reads(ps)
        if reads:
            o.undecided(ps.f, reads[0], reads[0], f"the pass reads `{src(reads[0])}` of tasks other than the children, but no "
                                                  f"`{ps.lat}([x.{ps.end_attr} for x in <dependencies> ...] + [bound])` term was recognised")
            return None
        o.refute(ps.f, ps.f.node, 'prerequisite bound',
                 f"no `{ps.lat}([x.{ps.end_attr} for x in <dependencies> ...] + [bound])` term found in the pass (the {ps.end_attr} of no "
                 f"task but the children is ever read): the {ps.rel} of the task do not bound it")
        return None
    if pt['kind'] == 'flipped':
        o.refute(ps.f, pt['stmt'], pt['stmt'].value, f"dependency {ps.end_attr}s are combined with the wrong lattice operation "
                                                      f"(expected {ps.lat})")
        return None
    elt, tgt, it, ifs = pt['parts']
    okf = True
    for c in ifs:
        # `not x.end is None` (a guard clause `if x.end is None: continue` turned into a filter) says the same as `x.end is not None`
        if not match(f"{tgt.id}.{ps.end_attr} is not None", c) and \
                facts.cond_is(c, True, f"{tgt.id}.{ps.end_attr} is None", want=False) is None:
            okf = False
            o.refute(ps.f, pt['stmt'], c, f"dependencies are filtered by `{src(c)}` before bounding the task (only `is not None` is allowed)")
    cn = ps.cfg.node_of(pt['stmt'])
    srcs = ps.collection_sources(it, cn)
    pt['sources'] = srcs
    pt['iter'] = it
    pt['has_bound'] = any(isinstance(a, ast.Name) and a.id == ps.bound for a in pt['args'])
    for u in srcs['unknown']:
        # the collection passed through a dictionary keyed by task id: `found[pred.id] = pred ... list(found.values())`
        m = match("list($d.values())", u) or match("$d.values()", u) or match("[$v for $v in $d.values()]", u)
        if m and isinstance(m['d'], ast.Name):
            dn = m['d'].id
            for n in walk_no_nested(ps.f.node):
                key = val = None
                if isinstance(n, ast.Assign) and len(n.targets) == 1 and isinstance(n.targets[0], ast.Subscript) and \
                        isinstance(n.targets[0].value, ast.Name) and n.targets[0].value.id == dn:
                    key, val = n.targets[0].slice, n.value
                elif isinstance(n, ast.Call) and isinstance(n.func, ast.Attribute) and n.func.attr == 'setdefault' and len(n.args) == 2 and \
                        isinstance(n.func.value, ast.Name) and n.func.value.id == dn:
                    key, val = n.args
                if key is not None and isinstance(val, ast.Name) and match(f"{val.id}.id", key):
                    o.refute(ps.f, n, n, f"the {ps.rel} that bound the task are de-duplicated by task id (`{src(n)[:60]}`): ids are unique only "
                                         f"inside one WBS, so of two different {ps.rel} with the same id (one of them outside the WBS) only one "
                                         f"bounds the task")
                    return pt
    if srcs['unknown'] and srcs['filtered']:
        # a filter was positively identified: that is a finding whatever else in the collection stays unread
        for x in srcs['filtered']:
            o.refute(ps.f, pt['stmt'], x, "a filtered subset of the dependencies bounds the task")
        return pt
    if srcs['unknown']:
        o.undecided(ps.f, pt['stmt'], srcs['unknown'][0], "dependency collection built in an idiom the rule does not recognise")
        return pt
    for x in srcs['filtered']:
        o.refute(ps.f, pt['stmt'], x, "a filtered subset of the dependencies bounds the task")
        okf = False
    if not srcs['own']:
        o.refute(ps.f, pt['stmt'], it, f"the task's own {ps.rel} are not in the collection that bounds it")
        okf = False
    if srcs['ancestors'] != 'all':
        why = {False: f"only the task's own {ps.rel} bound it",
               'direct-parent-only': f"only the direct parent's {ps.rel} are inherited"}.get(srcs['ancestors'], str(srcs['ancestors']))
        o.refute(ps.f, pt['stmt'], it,
                 f"{ps.rel} declared on ancestor summary tasks are not all inherited ({why}): a task first reached through a "
                 f"dependency link is scheduled without them and the memo then skips it")
        okf = False
    pt['has_bound'] = any(isinstance(a, ast.Name) and a.id == ps.bound for a in pt['args'])
    if not pt['has_bound']:
        o.refute(ps.f, pt['stmt'], pt['stmt'].value, f"the bound handed to the task (`{ps.bound}`) is not part of `{pt['name']}`: the project "
                                                      f"bound / the bound of the parent is lost")
        okf = False
    if okf:
        o.site(ps.f, pt['stmt'], f"{pt['name']} = {src(pt['stmt'].value)[:80]}; collection = own + all_parents' {ps.rel}")
    pt['sources'] = srcs
    pt['iter'] = it
    return pt


def _dependency_date_reads(ps):
    """reads `<v>.<end_attr>` where v is bound by a comprehension / loop that does not range over the children of the task"""
    out = []
    binders = {}
    for n in walk_no_nested(ps.f.node):
        gens = []
        if isinstance(n, (ast.ListComp, ast.GeneratorExp, ast.SetComp)):
            gens = [(g.target, g.iter, n) for g in n.generators]
        elif isinstance(n, ast.For):
            gens = [(n.target, n.iter, n)]
        for tgt, it, holder in gens:
            if isinstance(tgt, ast.Name):
                binders.setdefault(tgt.id, []).append((it, holder))
    for n in walk_no_nested(ps.f.node):
        if isinstance(n, ast.Attribute) and n.attr == ps.end_attr and isinstance(n.ctx, ast.Load) and isinstance(n.value, ast.Name) \
                and n.value.id != ps.task:
            its = [it for it, holder in binders.get(n.value.id, []) if any(x is n for x in ast.walk(holder))]
            if not its:
                out.append(n)
                continue
            for it in its:
                at = ps.cfg.node_containing(it)
                itx = ps.ex.expand(it, at) if at is not None else it
                for _ in range(3):
                    m = match("reversed($x)", itx) or match("list($x)", itx) or match("tuple($x)", itx)
                    if m:
                        itx = m['x']
                if not match(f"{ps.task}.children", itx):
                    out.append(n)
    return out


def _opaque(args, ps, pt):
    """lattice operands the Expander could not resolve (locals with several definitions, calls of unknown helpers)"""
    return [a for a in args if isinstance(a, ast.Name) and a.id not in (ps.bound, pt['name'] if pt else None)] + \
           [a for a in args if isinstance(a, (ast.Subscript, ast.Starred)) or
            (isinstance(a, ast.Call) and not _is_now(a) and not (isinstance(a.func, ast.Name) and a.func.id in ('datetime', 'timedelta', 'max', 'min')))]


def recursion_order(ctx, o, ps: PassShape, pt):
    """every dependency in the collection is passed to the recursive pass before its end/start is read, and the
    collection is complete before the recursion starts"""
    if pt is None:
        o.fail("prerequisite term not found")
        return
    it = pt['iter']
    pe_node = ps.cfg.node_of(pt['stmt'])
    calls = ps.pass_calls()
    rec = None
    other = []

    def root_name(e):
        """the collection an iterable stands for: order/duplicate changing wrappers and plain aliases removed"""
        for _ in range(6):
            if isinstance(e, ast.Call) and isinstance(e.func, ast.Name) and e.func.id in ('list', 'tuple', 'set', 'frozenset', 'sorted',
                                                                                         'reversed', 'iter') and e.args:
                e = e.args[0]
                continue
            if isinstance(e, ast.Name):
                ds = ps.fl.defs_of(e.id)
                if len(ds) == 1 and ds[0].kind == 'assign' and isinstance(ds[0].value, ast.Name):
                    e = ds[0].value
                    continue
            break
        return e

    def same_wbs_part(itc, fo):
        """the loop runs over `[d for d in <the dependency collection> if d.wbs is task.wbs]`: the dependencies inside the WBS being
        scheduled - the same restriction as the accepted `if d.wbs is task.wbs:` around the call"""
        e = sched.strip_seq_copy(ps.ex.expand(itc, ps.cfg.node_of(fo)))
        parts = facts.comp_parts(e)
        if not parts or not isinstance(parts[0], ast.Name) or not isinstance(parts[1], ast.Name) or parts[0].id != parts[1].id or not parts[3]:
            return False
        if not all(sched._same_wbs_guard(c_, True, parts[1].id, ps.task) for c_ in parts[3]):
            return False
        return same(parts[2], it) or same(root_name(parts[2]), root_name(it)) or \
            same(parts[2], ps.ex.expand(it, ps.cfg.node_of(pt['stmt'])))

    for c in calls:
        ci = ps.call_iter(c)
        fo, itc = ci if ci is not None else (None, None)
        if fo is not None and (same(itc, it) or same(root_name(itc), root_name(it)) or same_wbs_part(itc, fo)):
            rec = (c, fo)
        elif fo is None or not match(f"{ps.task}.children", sched.whole_seq(root_name(ps.ex.expand(itc, ps.cfg.node_of(fo))))):
            other.append(c)
    if rec is None:
        if other:
            o.undecided(ps.f, other[0], other[0], f"a recursive call of the pass is made outside a loop over the collection `{src(it)[:40]}` whose "
                                                  f"{ps.end_attr}s bound the task: cannot tell whether every dependency is scheduled first")
            return
        o.refute(ps.f, pt['stmt'], it, f"the dependencies whose {ps.end_attr} is read here are never handed to the recursive pass first")
        return
    c, fo = rec
    hdr = ps.cfg.node_of(fo)
    ok = True
    if not ps.cfg.dominates(hdr, pe_node):
        o.refute(ps.f, fo, fo.iter, f"the recursion over the dependencies does not precede the read of their {ps.end_attr} on every path")
        ok = False
    if ps.region(fo)['other'] or ps.region(fo)['milestone'] is not None or ps.region(fo)['leaf'] is not None:
        o.refute(ps.f, fo, fo.iter, "the recursion over the dependencies is conditional")
        ok = False
    # the loop body must reach the call unconditionally
    conds_call = [x for x in ps.conds(c, expand=False)]
    conds_loop = [x for x in ps.conds(fo, expand=False)]
    lv = fo.target.id if isinstance(fo.target, ast.Name) else (c.args[0].id if c.args and isinstance(c.args[0], ast.Name) else None)
    memo_arg = None
    if ps.memo in ps.f.params and len(c.args) >= ps.f.params.index(ps.memo):
        memo_arg = c.args[ps.f.params.index(ps.memo) - 1]
    # a guard that only repeats the callee's own memo test (`if dep.id not in memo: pass(dep, ..)`) skips nothing the callee would do
    if lv and isinstance(memo_arg, ast.Name):
        conds_call = [(t, p) for t, p in conds_call if not (facts.cond_is(t, p, f"{lv}.id in {memo_arg.id}", want=False))]
    # ... and a guard that keeps the recursion inside the WBS being scheduled (`if dep.wbs is task.wbs`) skips only tasks whose
    # dates are input (outside tasks are never scheduled by this calc: C14.recursion_stays_in_wbs demands exactly this guard)
    def _wbs_guard(t, p):
        if sched._same_wbs_guard(t, p, lv, ps.task):
            return True
        core, q = t, p
        while isinstance(core, ast.UnaryOp) and isinstance(core.op, ast.Not):
            core, q = core.operand, not q
        if isinstance(core, ast.BoolOp) and isinstance(core.op, ast.Or) and q and \
                any(sched._same_wbs_guard(v, True, lv, ps.task) for v in core.values):
            return True        # lets through at least every dependency inside the WBS (what else it lets through is C14's / C06's matter)
        at = ps.cfg.node_containing(t)
        return bool(at is not None and sched._same_wbs_guard(ps.ex.expand(t, at), p, lv, ps.task))     # `own = task.wbs` hoisted
    if lv:
        conds_call = [(t, p) for t, p in conds_call if not _wbs_guard(t, p)]
    if len(conds_call) > len(conds_loop):
        extra = [(t, p) for t, p in conds_call if not any(t is lt for lt, _ in conds_loop)]
        def _maybe_membership(t):
            """a test that could say `the dependency belongs to the WBS being scheduled` in a spelling that is not read"""
            for x in ast.walk(t):
                if isinstance(x, ast.Attribute) and x.attr == 'wbs' and isinstance(x.value, ast.Name) and x.value.id == lv:
                    return True
                if isinstance(x, ast.Compare) and any(isinstance(op_, (ast.In, ast.NotIn)) for op_ in x.ops) and \
                        any(isinstance(y, ast.Name) and y.id == lv for y in ast.walk(x.left)):
                    return True
                if isinstance(x, ast.Call) and any(isinstance(a_, ast.Name) and a_.id == lv for a_ in x.args):
                    return True
            return False
        def _skips_siblings(t, p):
            """the call is made only for dependencies NOT in a container built from the children of the task's parent
            (`if id(dep) in siblings[:position]: continue`): the rule knows which dependencies are skipped - siblings"""
            if facts.cond_is(t, p, "$k in $c", want=False) is None:
                return False
            at = ps.cfg.node_containing(t)
            tx = ps.ex.expand(t, at) if at is not None else t
            return any(match(f"{ps.task}.parent.children", x) for x in ast.walk(tx) if isinstance(x, ast.Attribute))
        sib = [(t, p) for t, p in extra if lv and _skips_siblings(t, p)]
        if sib:
            o.refute(ps.f, c, sib[0][0], f"the recursive call on a dependency is skipped under `{src(sib[0][0])[:60]}`, i.e. for {ps.rel} that are "
                                         f"children of the task's own parent: when the task is first reached through a dependency link (before "
                                         f"its summary), such a sibling has not been scheduled yet, its {ps.end_attr} is None and drops out of "
                                         f"the bound")
        elif lv and extra and all(_maybe_membership(t) for t, p in extra):
            # a test on the dependency itself in a form that is not read (membership in the WBS spelled differently?): C14's
            # recursion_stays_in_wbs judges it; here it is not known which dependencies it skips
            o.undecided(ps.f, c, c, f"the recursive call on a dependency runs under `{src(extra[0][0])[:60]}`, a test on the dependency the "
                                    f"rule does not interpret")
        else:
            o.refute(ps.f, c, c, "the recursive call on a dependency is conditional inside the loop")
        ok = False
    var = pt['sources'].get('var')
    if var:
        # no definition / growth of the collection after (or during) the recursion loop
        for d in pt['sources']['defs']:
            dn = d.node if hasattr(d, 'node') else ps.cfg.node_containing(d)
            if dn is None:
                continue
            if ps.cfg.can_reach(hdr, dn):
                what = src(d.stmt if hasattr(d, 'stmt') else d)
                o.refute(ps.f, d.stmt if hasattr(d, 'stmt') else d, what,
                         f"the collection `{var}` is still being extended after the recursion over it started: inherited "
                         f"dependencies added later are never scheduled before their {ps.end_attr} is read")
                ok = False
    if ok:
        o.site(ps.f, fo, f"for {src(fo.target)} in {src(fo.iter)}: {src(c)[:70]} dominates the bound term")


def leaf_bound(ctx, o, ps: PassShape, pt):
    """forward: start = search(max(PE, now(), min_start or EPOCH)); backward: end = search(min(SS..)) + 1 day"""
    S = ps.S
    fwd = S['dir'] == 1
    attr = 'start' if fwd else 'end'
    stores = [x for x in ps.stores(attr) if x[3]['milestone'] is False and x[3]['leaf'] is True and x[3]['is_none'].get(attr) is True]
    if not stores:
        vague = [x for x in ps.stores(attr) if x[3]['milestone'] is not True and x[3]['leaf'] is not False and
                 (x[3]['leaf'] is None or x[3]['milestone'] is None)]
        if vague:
            o.undecided(ps.f, vague[0][0], vague[0][0], f"task.{attr} is stored under conditions the rule cannot classify as leaf / summary")
            return
        o.refute(ps.f, ps.f.node, f'leaf {attr}', f"no store to task.{attr} in the region [not milestone, leaf, {attr} is None]")
        return
    search_name = ctx.prog.func(S['search']).name
    # the last store in the region carries the final value; all stores must respect the bound
    found_search = False

    def _is_search(e):
        return isinstance(e, ast.Call) and isinstance(e.func, ast.Attribute) and unmangle(e.func.attr) == search_name
    # bounds applied to the search RESULT afterwards (`start = max(search(..), min_start)`): they bound the start as well
    later_bounds = []
    post_search = set()
    for st, tgt, val, reg in stores:
        if isinstance(st, ast.AugAssign):
            continue
        vfull = ps.ex.expand(val, ps.cfg.node_of(st), stop={pt['name']} if pt else None)
        fa = facts.flatten_lattice(vfull, ps.lat)
        if fa and len([a for a in fa if _is_search(a)]) == 1 and len(fa) > 1:
            for a in fa:
                if _is_search(a):
                    continue
                if match(f"{ps.task}.min_start", a) and any(facts.cond_is(t_, p_, f"{ps.task}.min_start is None", want=False) or
                                                             facts.cond_is(t_, p_, f"{ps.task}.min_start", want=True) for t_, p_ in ps.conds(st)):
                    a = ast.parse(f"{ps.task}.min_start or datetime(1970, 1, 1)", mode='eval').body     # applied whenever it is set
                later_bounds.append(a)
            post_search.add(id(st))
    for st, tgt, val, reg in stores:
        cn = ps.cfg.node_of(st)
        v = ps.ex.expand(val, cn, stop={pt['name']} if pt else None)
        if id(st) in post_search:
            fa = facts.flatten_lattice(v, ps.lat)
            v = next(a for a in fa if _is_search(a))        # judged as the search store, the extra operands count as bounds
        if isinstance(st, ast.AugAssign):
            # backward: end += 1 day after the search
            k = facts.day_delta(st.value)
            if fwd or k is None or k < 0:
                o.refute(ps.f, st, st, f"task.{attr} is shifted by `{src(st.value)}` after the search")
            continue
        inner = v
        add_days = 0
        if isinstance(v, ast.BinOp) and isinstance(v.op, ast.Add) and facts.day_delta(v.right) is not None:
            add_days = facts.day_delta(v.right)
            inner = v.left
        m = None
        if isinstance(inner, ast.Call) and isinstance(inner.func, ast.Attribute) and unmangle(inner.func.attr) == search_name:
            m = inner
        if m is not None:
            found_search = True
            if len(m.args) < 4:
                o.undecided(ps.f, st, val, "search call with an unexpected argument list")
                continue
            bound_arg = m.args[2]
            if not (isinstance(m.args[3], ast.Name) and m.args[3].id == ps.task):
                o.refute(ps.f, st, val, "the availability search is asked about another task")
            check_bound_term(ctx, o, ps, pt, st, bound_arg, fwd, also=later_bounds)
        elif any(_is_search(x) for x in ast.walk(v)):
            opp = facts.flatten_lattice(v, 'min' if ps.lat == 'max' else 'max')
            if opp and any(_is_search(a) for a in opp):
                o.refute(ps.f, st, val, f"the search result is put through `{src(v)[:70]}`: the leaf {attr} can move to the wrong side of "
                                        f"its bounds (the {'lower' if fwd else 'upper'} bounds hold for the search result only)")
            else:
                o.undecided(ps.f, st, val, f"the search result is post-processed by `{src(v)[:70]}`: cannot tell whether the bounds still hold")
        else:
            # a store in front of the search is the value the search is started from (judged through the search's argument); a store
            # no search store follows is the value the leaf keeps on that path: it must carry the bounds itself
            feeds = any(ps.cfg.node_of(s2) is not None and cn is not None and ps.cfg.node_of(s2) is not cn and ps.cfg.can_reach(cn, ps.cfg.node_of(s2))
                        for s2, _, v2, _ in stores if not isinstance(s2, ast.AugAssign) and
                        any(_is_search(x) for x in ast.walk(ps.ex.expand(v2, ps.cfg.node_of(s2)))))
            if not feeds:
                check_bound_term(ctx, o, ps, pt, st, v, fwd, intermediate=True)
    if not found_search:
        o.refute(ps.f, stores[-1][0], stores[-1][2], f"the leaf {attr} is not moved to a day with free capacity by the availability search")


def check_bound_term(ctx, o, ps, pt, st, term, fwd, intermediate=False, also=None):
    lat = ps.lat
    args = facts.flatten_lattice(term, lat)
    if args is not None and also:
        args = list(args) + list(also)
    if args is None:
        other = facts.flatten_lattice(term, 'min' if lat == 'max' else 'max')
        if other is not None:
            o.refute(ps.f, st, term, f"bounds are combined with the wrong lattice operation (expected {lat})")
            return
        # a single term: acceptable only if it is the prerequisite term itself and nothing else is required
        args = [term]
    need = {'prerequisites': False, 'project bound': False}
    if fwd:
        need.update({'clock': False, 'min_start': False})
    # a bound list built step by step: `bounds = [a, b]`, `if task.min_start is not None: bounds.append(task.min_start)`, max(bounds)
    grown = []
    for a in list(args):
        if isinstance(a, ast.Name) and a.id not in (ps.bound, pt['name'] if pt else None):
            els = _list_elements(ps, a.id, st)
            if els is not None:
                args.remove(a)
                for e, conds in els:
                    ex_e = ps.ex.expand(e, ps.cfg.node_containing(e), stop={pt['name']} if pt else None)
                    if not conds:
                        args.extend(facts.flatten_lattice(ex_e, lat) or [ex_e])
                    elif fwd and match(f"{ps.task}.min_start", ex_e) and len(conds) == 1 and (
                            facts.cond_is(conds[0][0], conds[0][1], f"{ps.task}.min_start is None", want=False) or
                            facts.cond_is(conds[0][0], conds[0][1], f"{ps.task}.min_start", want=True)):
                        need['min_start'] = True      # present whenever it is set: same as `min_start or <epoch>`
                    else:
                        grown.append(e)               # a conditional extra operand can only tighten the bound
    pe_args = []
    if pt is not None:
        pe_x = ps.ex.expand(pt.get('value', pt['stmt'].value), ps.cfg.node_of(pt['stmt']))
        pe_args = facts.flatten_lattice(pe_x, lat) or []
    comp_x = [a for a in pe_args if facts.comp_parts(a)]
    for a in args:
        parts = facts.comp_parts(a)
        if pt is not None and isinstance(a, ast.Name) and a.id == pt['name'] and _same_pe(ps, pt, st):
            need['prerequisites'] = True
            if pt.get('has_bound'):
                need['project bound'] = True
        elif parts and pt is not None and (same(a, pt['comp']) or any(same(a, c) for c in comp_x)):
            need['prerequisites'] = True
        elif isinstance(a, ast.Name) and a.id == ps.bound:
            need['project bound'] = True
        elif fwd and _is_now(a):
            need['clock'] = True
        elif fwd and _is_epoch_default(a, ps.task):
            need['min_start'] = True
    missing = [k for k, v in need.items() if not v]
    opaque = [a for a in args if isinstance(a, (ast.Call, ast.Subscript, ast.Starred, ast.IfExp)) and not _is_now(a)
              and not facts.comp_parts(a) and not (isinstance(a, ast.Call) and isinstance(a.func, ast.Name) and a.func.id == 'datetime')] + \
             [a for a in args if isinstance(a, ast.Name) and a.id not in (ps.bound, pt['name'] if pt else None)]
    if missing and opaque:
        o.undecided(ps.f, st, term, f"the {'lower' if fwd else 'upper'} bound of the leaf `{src(term)[:100]}` contains `{src(opaque[0])[:40]}`, which the "
                                    f"rule cannot resolve; not recognised in it: " + ', '.join(missing))
    elif missing:
        o.refute(ps.f, st, term, f"the {'lower' if fwd else 'upper'} bound of the leaf `{src(term)[:100]}` lacks: " + ', '.join(missing))
    else:
        o.site(ps.f, st, f"{lat}({', '.join(src(a)[:40] for a in args)})")


def _list_elements(ps, name, at_stmt):
    """[(element, conditions)] of local list `name` at at_stmt when it is defined once by a list literal and afterwards only
    grown by `.append(x)` statements that precede at_stmt; else None"""
    ds = ps.fl.defs_of(name)
    if len(ds) != 1 or ds[0].kind != 'assign' or not isinstance(ds[0].value, ast.List) or ds[0].node is None:
        return None
    use = ps.cfg.node_of(at_stmt) or ps.cfg.node_containing(at_stmt)
    if use is None or not ps.cfg.dominates(ds[0].node, use):
        return None
    base = ps.cfg.conditions(ds[0].node)
    out = [(e, []) for e in ds[0].value.elts]
    for n in walk_no_nested(ps.f.node):
        if isinstance(n, ast.Name) and n.id == name and isinstance(n.ctx, ast.Load):
            par = None
            for x in walk_no_nested(ps.f.node):
                if isinstance(x, ast.Attribute) and x.value is n:
                    par = x
            if par is None:
                continue        # plain read (the max() itself)
            call = next((x for x in walk_no_nested(ps.f.node) if isinstance(x, ast.Call) and x.func is par), None)
            if par.attr != 'append' or call is None or len(call.args) != 1:
                return None
            cn = ps.cfg.node_containing(call)
            if cn is None or ps.cfg.enclosing_fors(cn) or not ps.cfg.can_reach(cn, use) or ps.cfg.can_reach(use, cn):
                return None
            conds = [c for c in ps.cfg.conditions(cn) if not any(c[0] is b[0] for b in base)]
            out.append((call.args[0], conds))
    return out


def _same_pe(ps, pt, stmt) -> bool:
    """the name of the prerequisite term read at stmt still holds the value computed by pt['stmt']"""
    d = ps.fl.unique_def(pt['name'], ps.cfg.node_of(stmt) or ps.cfg.node_containing(stmt))
    return d is not None and d.stmt is pt['stmt']


def handdown(ctx, o, ps: PassShape, pt):
    """children are scheduled with a bound that includes the bound handed to the parent"""
    calls = ps.pass_calls()
    n = 0
    n_unknown = 0
    for c in calls:
        ci = ps.call_iter(c)
        if ci is None:
            o.undecided(ps.f, c, c, "recursive call outside a `for x in <collection>` loop")
            n_unknown += 1
            continue
        fo, itc = ci
        it = ps.ex.expand(itc, ps.cfg.node_of(fo))
        base_it = sched.whole_seq(it)
        parts = facts.comp_parts(base_it)
        if parts and isinstance(parts[0], ast.Name) and isinstance(parts[1], ast.Name) and parts[0].id == parts[1].id and \
                match(f"{ps.task}.children", sched.whole_seq(parts[2])):
            # a comprehension over the children: skipping children that are already in the memo changes nothing, any other filter does
            other_f = [c_ for c_ in parts[3] if not match(f"{parts[1].id}.id not in {ps.memo}", c_)]
            if other_f:
                o.refute(ps.f, fo, fo.iter, f"the recursion into the children skips those failing `{src(other_f[0])[:60]}`: they are never scheduled")
            base_it = sched.whole_seq(parts[2])
        if not match(f"{ps.task}.children", base_it):
            if not (isinstance(base_it, ast.Name) or (pt is not None and same(itc, pt.get('iter')))):
                n_unknown += 1        # a loop over an expression that is neither the children nor the dependency collection
            continue
        n += 1
        if len(c.args) < 2:
            o.undecided(ps.f, c, c, "unexpected argument list")
            continue
        b = ps.ex.expand(c.args[1], ps.cfg.node_containing(c), stop={pt['name']} if pt else None)
        args = facts.flatten_lattice(b, ps.lat) or [b]
        via_pe = pt is not None and pt.get('has_bound') and any(isinstance(a, ast.Name) and a.id == pt['name'] for a in args) and _same_pe(ps, pt, c)
        if via_pe or any(isinstance(a, ast.Name) and a.id == ps.bound for a in args) or \
                any(match(f"self.{ps.S['bound']}", a) for a in args):
            o.site(ps.f, c, f"children bound = {src(c.args[1])}")
        elif _opaque(args, ps, pt):
            o.undecided(ps.f, c, c.args[1], f"children are scheduled with bound `{src(b)[:80]}`; `{src(_opaque(args, ps, pt)[0])[:40]}` could not be resolved")
        else:
            o.refute(ps.f, c, c.args[1], f"children are scheduled with bound `{src(b)[:80]}` which does not include the bound of the parent")
        if ps.region(fo)['other'] or ps.region(fo)['milestone'] is not None:
            o.refute(ps.f, fo, fo, "the recursion into the children is conditional: some tasks are never scheduled")
    if n == 0 and n_unknown:
        o.undecided(ps.f, ps.f.node, 'children recursion', "no recursion into task.children recognised, but the pass recurses over a "
                                                          "collection the rule does not understand")
    elif n == 0:
        o.refute(ps.f, ps.f.node, 'children recursion', "the pass never recurses into task.children")


FUTURE_END = 'schedule.ForwardScheduler.__check_no_end_dates_in_future'


class AsValidator:
    """the future-end check when it was folded into calc (moved to a new helper that the normaliser splices): findings keep the
    identity of the validator, locations are those of calc"""

    def __init__(self, calc, loop, clocks, raise_):
        self.calc, self.loop, self.clocks, self.raise_ = calc, loop, clocks, raise_
        self.qual = FUTURE_END
        self.name = '__check_no_end_dates_in_future'

    def loc(self, node):
        return self.calc.loc(node)


def inlined_future_end_check(ctx, calc):
    """`for t in <input>.tasks: if t.end is not None and t.end > <clock>: raise RuntimeError(..)` written in calc itself
    (read-only scan of the input).  Returns AsValidator or None"""
    prog = ctx.prog
    inp = calc.params[1]
    ex = Expander(prog, calc, ctx.typer)
    cfg = cfg_of(calc)
    for lp in [n for n in walk_no_nested(calc.node) if isinstance(n, ast.For)]:
        it = sched.whole_seq(ex.expand(lp.iter, cfg.node_of(lp)))
        if not match(f"{inp}.tasks", it) or not isinstance(lp.target, ast.Name):
            continue
        tv = lp.target.id
        # read-only body: tests, raises, nothing else
        if any(isinstance(x, (ast.Assign, ast.AugAssign, ast.AnnAssign, ast.Delete, ast.With, ast.Return)) for st in lp.body for x in ast.walk(st)):
            continue
        for r in [x for st in lp.body for x in ast.walk(st) if isinstance(x, ast.Raise)]:
            if facts.exc_name(r) != 'RuntimeError':
                continue
            for t, p in facts.node_conditions(prog, calc, r, ctx.typer, expand=True):
                if isinstance(t, ast.Compare) and len(t.ops) == 1 and p:
                    l, op, rr = t.left, t.ops[0], t.comparators[0]
                    if (match(f"{tv}.end", l) and isinstance(op, (ast.Gt, ast.GtE)) and _is_now(rr)) or \
                            (match(f"{tv}.end", rr) and isinstance(op, (ast.Lt, ast.LtE)) and _is_now(l)):
                        # the clock reads that feed this comparison
                        clocks = []
                        for cnd, _ in cfg.conditions(cfg.node_of(r)):
                            for x in ast.walk(cnd):
                                if _is_now(x):
                                    clocks.append(x)
                                elif isinstance(x, ast.Name):
                                    for d in flow_of(calc).defs_of(x.id):
                                        if d.kind == 'assign' and d.value is not None and _is_now(d.value):
                                            clocks.append(d.value)
                        return AsValidator(calc, lp, clocks, r)
    return None


def resolve_validator(ctx, S, qual):
    """Func of a pre-flight validator, or AsValidator when the future-end check is written inside calc; AnchorMissing otherwise"""
    prog = ctx.prog
    f = prog.funcs.get(qual)
    if f is not None:
        return f
    if qual == FUTURE_END:
        av = inlined_future_end_check(ctx, prog.func(S['calc']))
        if av is not None:
            return av
    return prog.func(qual)        # raises AnchorMissing


def roots_and_preflight(ctx, o, S, validators):
    prog = ctx.prog
    calc = prog.func(S['calc'])
    cfg = cfg_of(calc)
    ex = Expander(prog, calc, ctx.typer)
    inp = calc.params[1]
    pname = prog.func(S['pass_']).name
    clones = [c for c in facts.calls_named(calc, 'clone') if isinstance(c.func, ast.Attribute) and
              isinstance(c.func.value, ast.Name) and c.func.value.id == inp]
    if len(clones) != 1:
        o.refute(calc, calc.node, 'clone', "calc does not work on exactly one clone() of its input")
        return
    clone_node = cfg.node_containing(clones[0])
    for v in validators:
        vf = resolve_validator(ctx, S, v)
        if isinstance(vf, AsValidator):
            if cfg.dominates(cfg.node_of(vf.loop), clone_node):
                o.site(calc, vf.loop, "future-end check (written in calc) dominates clone()")
            else:
                o.refute(calc, vf.loop, vf.name, "the future-end check does not run before the schedule is computed")
            continue
        cs = [c for c in facts.calls_named(calc, vf.name)]
        good = [c for c in cs if c.args and isinstance(c.args[0], ast.Name) and c.args[0].id == inp
                and cfg.dominates(cfg.node_containing(c), clone_node)]
        if good:
            o.site(calc, good[0], f"{vf.name}({inp}) dominates clone()")
        elif not cs and any((isinstance(n, ast.Name) and n.id == vf.name) or (isinstance(n, ast.Attribute) and unmangle(n.attr) == vf.name)
                            for n in walk_no_nested(calc.node)):
            o.undecided(calc, calc.node, vf.name, f"{vf.name} is referenced in calc but not called directly: cannot tell whether it runs before clone()")
        else:
            o.refute(calc, calc.node, vf.name, f"pre-flight validation {vf.name}({inp}) does not run unconditionally before the schedule is computed")
    passes = [c for c in facts.calls_named(calc, pname)]
    if not passes:
        o.refute(calc, calc.node, pname, "calc never runs the pass")
    for c in passes:
        b = ex.expand(c.args[1]) if len(c.args) > 1 else None
        if b is not None and match(f"self.{S['bound']}", b):
            o.site(calc, c, f"roots scheduled with bound self.{unmangle(S['bound'])}")
        elif isinstance(b, ast.Name):
            o.undecided(calc, c, c, f"root tasks are scheduled with bound `{b.id}`, which could not be resolved")
        else:
            o.refute(calc, c, c, f"root tasks are not scheduled with the project {'start' if S['dir'] == 1 else 'end'} as bound")
        fo = sched.for_loop_of(calc, c)
        if fo is None:
            o.undecided(calc, c, c, "pass call outside a loop over the roots")
    init = prog.func(S['init'])
    arg = 'start' if S['dir'] == 1 else 'end'
    ok = False
    exi = Expander(prog, init, ctx.typer)
    for st, tgt, val in facts.attr_stores(init, S['bound']):
        icn = cfg_of(init).node_of(st)
        val = exi.expand(val, icn) if icn is not None else val
        if match(f"{arg} or datetime.now()", val):
            ok = True
            o.site(init, st, src(st))
            continue
        # every case of the stored value (conditional expression cases joined with the path condition of the store) is the
        # constructor argument, or the clock on the path where the argument is None
        path = facts.node_conditions(prog, init, st, ctx.typer, expand=True)
        good = True
        for cc, case in sched.expr_cases(val):
            allc = list(path) + list(cc)
            arg_none = any(facts.cond_is(t, p, f"{arg} is None", want=True) or facts.cond_is(t, p, arg, want=False) for t, p in allc)
            if match(arg, case) or (_is_now(case) and arg_none):
                continue
            good = False
        ok = True
        if good:
            o.site(init, st, src(st))
        else:
            o.refute(init, st, st, f"project bound is not the constructor's `{arg}`")
    if not ok:
        o.undecided(init, init.node, '__init__', "project bound initialisation not found")


def milestone_placement(ctx, o, ps: PassShape, pt):
    if pt is None:
        o.fail("prerequisite term not found")
        return
    got = {'start': None, 'end': None, 'estimate': None, 'spent': None}
    for attr in got:
        key = attr if attr in ('start', 'end') else attr
        for st, tgt, val, reg in ps.stores(attr):
            if reg['milestone'] is True:
                got[attr] = (st, val)
    for attr in ('start', 'end'):
        if got[attr] is None:
            o.refute(ps.f, ps.f.node, f'milestone {attr}', f"milestone {attr} is not set")
            continue
        st, val = got[attr]
        v = ps.ex.expand(val, ps.cfg.node_of(st), stop={pt['name']})
        if (isinstance(v, ast.Name) and v.id == pt['name'] and _same_pe(ps, pt, st)) or same(v, pt.get('value', pt['stmt'].value)):
            o.site(ps.f, st, f"milestone {attr} = {pt['name']}")
        elif isinstance(v, ast.Name) and v.id not in (ps.bound, pt['name']):
            o.undecided(ps.f, st, val, f"milestone {attr} is `{v.id}`, which could not be resolved")
        else:
            o.refute(ps.f, st, val, f"milestone {attr} is `{src(v)[:80]}`, not the {'latest end' if ps.S['dir'] == 1 else 'earliest start'} "
                                     f"among its own and inherited dependencies (or the project bound)")
    for attr in ('estimate', 'spent'):
        if got[attr] is None:
            o.refute(ps.f, ps.f.node, f'milestone {attr}', f"milestone {attr} is not set to 0")
            continue
        st, val = got[attr]
        if isinstance(val, ast.Constant) and val.value == 0:
            o.site(ps.f, st, f"milestone {attr} = 0")
        else:
            o.refute(ps.f, st, val, f"milestone {attr} is not 0")


def search_monotone(ctx, o, S, exact=True):
    """the availability search starts at resource.get_nearest_availability_date(start_date, dir) and only ever steps by
    exactly one day in the scheduling direction; it returns midnight(d) +/- a fraction of a day"""
    prog = ctx.prog
    f = prog.func(S['search'])
    fl = flow_of(f)
    ex = Expander(prog, f, ctx.typer)
    start_p = f.params[3]
    res_p = f.params[1]
    d = S['dir']
    def _const_truth(e):
        """truth value of a test made of constants only (`1 > 0`, left behind when a direction parameter was bound), else None"""
        if isinstance(e, ast.Constant):
            return bool(e.value)
        if isinstance(e, ast.UnaryOp) and isinstance(e.op, ast.Not):
            v = _const_truth(e.operand)
            return None if v is None else not v
        if isinstance(e, ast.Compare) and len(e.ops) == 1:
            a, b = facts.const_num(e.left), facts.const_num(e.comparators[0])
            if a is not None and b is not None:
                op = e.ops[0]
                return {ast.Gt: a > b, ast.GtE: a >= b, ast.Lt: a < b, ast.LtE: a <= b, ast.Eq: a == b, ast.NotEq: a != b}.get(type(op))
        return None

    def _dead(stmt):
        """the statement sits on a path whose condition is false whatever the input (dead code of a merged two-direction body)"""
        for t, p in facts.node_conditions(prog, f, stmt, ctx.typer, expand=True):
            v = _const_truth(t)
            if v is not None and v != p:
                return True
        return False

    rets = [n for n in walk_no_nested(f.node) if isinstance(n, ast.Return) and not _dead(n)]
    if not rets:
        o.refute(f, f.node, 'return', "search never returns")
        return
    dvar = None
    def _fold_sign(v):
        """mid + (-1) * X  ->  mid - X ;  mid + 1 * X -> mid + X   (a direction parameter bound to a constant)"""
        if isinstance(v, ast.BinOp) and isinstance(v.op, (ast.Add, ast.Sub)) and isinstance(v.right, ast.BinOp) and isinstance(v.right.op, ast.Mult):
            a, b = v.right.left, v.right.right
            c, x = (facts.const_num(a), b) if facts.const_num(a) is not None else (facts.const_num(b), a)
            if c in (1, -1):
                neg = (c == -1) != isinstance(v.op, ast.Sub)
                return ast.copy_location(ast.BinOp(left=v.left, op=ast.Sub() if neg else ast.Add(), right=x), v)
        return v

    for r in rets:
        v = _fold_sign(ex.expand(r.value))
        m = None
        if isinstance(v, ast.BinOp) and isinstance(v.op, (ast.Add, ast.Sub)):
            mid = facts.is_midnight_of(v.left)
            if mid is not None and isinstance(mid, ast.Name):
                m = mid.id
                good_sign = isinstance(v.op, ast.Add) if d == 1 else isinstance(v.op, ast.Sub)
                if not good_sign:
                    o.refute(f, r, r, f"search returns `{src(v)[:80]}`: the day fraction is applied in the wrong direction")
                # the fraction `1 - (CAP - RESV) / CAP'`: a denominator that is another capacity than the one the free amount was
                # taken from (asked for no task / another day) can make the share negative: the result moves before midnight(day)
                fm = match("timedelta(hours=24 * $p)", v.right) or match("timedelta(days=$p)", v.right) or match("timedelta(hours=$p * 24)", v.right)
                pm = match("1 - $a / $b", fm['p']) if fm else None
                if pm:
                    fr, cb = sched.parse_free(pm['a'], S['balance']), sched.parse_cap(pm['b'])
                    if fr and cb:
                        ca = fr['cap']
                        same_task = (ca['t'] is None and cb['t'] is None) or (ca['t'] is not None and cb['t'] is not None and same(ca['t'], cb['t']))
                        if not (same(ca['r'], cb['r']) and same(ca['d'], cb['d']) and same_task):
                            o.refute(f, r, pm['b'], f"the booked share of the day is `1 - ({src(ca['node'])[:50]} - reserved) / {src(cb['node'])[:50]}`: free "
                                                    f"amount and denominator are different capacities, so the share can be negative and the "
                                                    f"result lies {'before' if d == 1 else 'after'} the day the search stopped at")
        if m is None:
            o.undecided(f, r, r, "search result is not midnight(day) +/- fraction")
            return
        dvar = m
    fcfg = cfg_of(f)

    while_tests = [w.test for w in walk_no_nested(f.node) if isinstance(w, ast.While)]

    def _sign_x(t, p):
        """sign test of a branch condition, a hoisted flag (`has_room = free > 0; if has_room:`) resolved first; the guard of an
        enclosing while loop (the loop's own step bound) does not make a statement of the body conditional"""
        if p and any(t is wt for wt in while_tests):
            return True
        r = sched.sign_test(t, p)
        if r is None:
            at = fcfg.node_containing(t)
            r = sched.sign_test(ex.expand(t, at) if at is not None else t, p)
        return r

    def _step_can_be_skipped(step_node):
        """the search loop can go round (come back to its header) without executing the step: the day would be examined twice /
        the search would stall.  An iteration that ends in return / raise does not come back, so a step placed after
        `if <day is free>: ... return` is unconditional in this sense whatever the free-day test looks like"""
        hdrs = [fcfg.node_of(l_) for l_ in walk_no_nested(f.node) if isinstance(l_, (ast.For, ast.While)) and
                any(y is step_node.ast for st_ in l_.body for y in ast.walk(st_))]
        hdrs = [h_ for h_ in hdrs if h_ is not None]
        if not hdrs:
            return True          # a step outside the loop is not the loop's step
        hdr = hdrs[-1]
        seen, todo = set(), [s_ for s_ in hdr.succ]
        while todo:
            n_ = todo.pop()
            if n_.id == hdr.id:
                return True
            if n_.id in seen or n_.id == step_node.id or not fcfg.dominates(hdr, n_):
                continue
            seen.add(n_.id)
            todo.extend(n_.succ)
        return False

    defs = [x for x in fl.defs_of(dvar) if x.stmt is None or not _dead(x.stmt)]
    inits = [x for x in defs if x.kind == 'assign' and not (x.node is not None and any(
        isinstance(r, ast.Return) for r in [x.node.ast]))]
    ok = True
    n_init = n_step = 0

    def _in_loop(node):
        return node is not None and any(any(y is node.ast for st_ in l_.body for y in ast.walk(st_))
                                        for l_ in walk_no_nested(f.node) if isinstance(l_, (ast.For, ast.While)))

    def _delta_x(e, at):
        k_ = facts.day_delta(e)
        if k_ is None and at is not None:
            k_ = facts.day_delta(ex.expand(e, at))       # timedelta(days=direction) with the direction bound to a constant
        return k_
    # steps made once before the loop (`if not forward: d = d - DAY`, live after the direction was bound) shift the start
    pre_shift = 0
    live_pre = []
    for x in list(defs):
        k_ = None
        if x.kind == 'aug' and not _in_loop(x.node):
            k_ = _delta_x(x.stmt.value, x.node)
            if k_ is not None and isinstance(x.stmt.op, ast.Sub):
                k_ = -k_
        elif x.kind == 'assign' and not _in_loop(x.node) and isinstance(x.value, ast.BinOp) and isinstance(x.value.op, (ast.Add, ast.Sub)) and \
                isinstance(x.value.left, ast.Name) and x.value.left.id == dvar:
            k_ = _delta_x(x.value.right, x.node)
            if k_ is not None and isinstance(x.value.op, ast.Sub):
                k_ = -k_
        if k_ is not None:
            conds_ = [(t_, p_) for t_, p_ in facts.node_conditions(prog, f, x.stmt, ctx.typer, expand=True) if _const_truth(t_) is None]
            if conds_:
                # a shift that happens on some inputs only: the first day examined differs by a day between the two paths, so on one of
                # them it is not the required one
                o.refute(f, x.stmt, x.stmt, f"the search day is shifted by `{src(x.stmt)}` before the loop only when "
                                            f"`{' and '.join(('' if p_ else 'not ') + src(t_) for t_, p_ in conds_)[:80]}`: the first day examined is "
                                            f"then not the same day for every input (expected: nearest availability"
                                            f"{'' if d == 1 else ' - 1 day'})")
                ok = False
            pre_shift += k_
            defs.remove(x)
    for x in defs:
        if x.kind == 'assign':
            v = x.value
            # d = midnight(d) +/- fraction directly before return is the result expression, not a search step
            if isinstance(v, ast.BinOp) and facts.is_midnight_of(v.left) is not None:
                continue
            # d = midnight(d): the same day (the result is midnight(d) + fraction anyway)
            md = facts.is_midnight_of(v)
            if md is not None and isinstance(md, ast.Name) and md.id == dvar:
                continue
            # d = d + timedelta(days=k): a step written as a plain assignment
            if isinstance(v, ast.BinOp) and isinstance(v.op, (ast.Add, ast.Sub)) and isinstance(v.left, ast.Name) and v.left.id == dvar \
                    and facts.day_delta(v.right) is not None:
                k = facts.day_delta(v.right) * (1 if isinstance(v.op, ast.Add) else -1)
                if k != d:
                    o.refute(f, x.stmt, x.stmt, f"search steps by `{src(x.stmt)}`; expected exactly {d:+d} day per iteration")
                    ok = False
                else:
                    n_step += 1
                    if _step_can_be_skipped(x.node):
                        o.refute(f, x.stmt, x.stmt, "the day step is conditional")
                        ok = False
                continue
            # d = resource.get_nearest_availability_date(d +/- 1 day, dir) inside the loop: a step to the next day the calendar offers
            # capacity on (the days jumped over have none): never back, never over a day that could be free
            mj = match(f"{res_p}.get_nearest_availability_date({dvar} + $t, $k)", v) or match(f"{res_p}.get_nearest_availability_date({dvar} - $t, $k)", v)
            if mj and _in_loop(x.node) and d == 1:        # (backward the resource helper answers the day AFTER the free one: not a step)
                kd = facts.day_delta(mj['t'])
                if kd is not None and isinstance(v.args[0], ast.BinOp) and isinstance(v.args[0].op, ast.Sub):
                    kd = -kd
                if kd == d and facts.const_num(mj['k']) == d:
                    n_step += 1
                    if _step_can_be_skipped(x.node):
                        o.refute(f, x.stmt, x.stmt, "the day step is conditional")
                        ok = False
                else:
                    o.refute(f, x.stmt, x.stmt, f"search steps by `{src(x.stmt)[:70]}`; expected a move of {d:+d} day per iteration")
                    ok = False
                continue
            v = ex.expand(v, x.node, stop={dvar})
            base = v
            off = 0
            if isinstance(v, ast.BinOp) and isinstance(v.op, (ast.Add, ast.Sub)) and facts.day_delta(v.right) is not None:
                off = facts.day_delta(v.right) * (1 if isinstance(v.op, ast.Add) else -1)
                base = v.left
            m = match(f"{res_p}.get_nearest_availability_date({start_p}, $k)", base)
            k = facts.const_num(m['k']) if m else None
            want_off = 0 if d == 1 else -1
            others = [y for y in defs if y is not x and y.kind == 'assign' and not (
                isinstance(y.value, ast.BinOp) and (facts.is_midnight_of(y.value.left) is not None or
                                                    (isinstance(y.value.left, ast.Name) and y.value.left.id == dvar)))]
            if m is None and not match(f"$r.get_nearest_availability_date($*a)", base) and not others and \
                    not any(isinstance(z, ast.Name) and z.id == dvar for z in ast.walk(x.value)):
                # the one and only start of the search, written in a form the rule does not know
                o.undecided(f, x.stmt, x.stmt, f"search day `{dvar}` is set to `{src(v)[:70]}`, a form the rule does not recognise")
                ok = False
            elif m is None or k != d or off + pre_shift != want_off:
                o.refute(f, x.stmt, x.stmt, f"search starts at `{src(v)}`{f' shifted by {pre_shift:+g} day(s)' if pre_shift else ''}; expected resource.get_nearest_availability_date(start, {d})"
                                            + ('' if d == 1 else ' - 1 day'))
                ok = False
            else:
                n_init += 1
        elif x.kind == 'aug':
            k = _delta_x(x.stmt.value, x.node)
            if isinstance(x.stmt.op, ast.Sub) and k is not None:
                k = -k
            if k is None and not exact:
                # monotonicity only (C02): a step whose size depends on the day but always goes forward in the search direction
                tm = match("timedelta(days=$n)", x.stmt.value)
                cases_ = [c_ for _, c_ in sched.expr_cases(tm['n'])] if tm else []
                sgn = -1 if isinstance(x.stmt.op, ast.Sub) else 1
                if cases_ and all(facts.const_num(c_) is not None and facts.const_num(c_) * sgn * d >= 1 for c_ in cases_):
                    k = d
            if k != d:
                o.refute(f, x.stmt, x.stmt, f"search steps by `{src(x.stmt)}`; expected exactly {d:+d} day per iteration")
                ok = False
            else:
                n_step += 1
                if _step_can_be_skipped(x.node):
                    o.refute(f, x.stmt, x.stmt, "the day step is conditional")
                    ok = False
        else:
            o.undecided(f, x.stmt if x.stmt is not None else f.node, dvar, f"unexpected definition of the search day `{dvar}`")
            ok = False
    if ok and n_init == 1 and n_step == 1:
        o.site(f, f.node, f"day variable {dvar}: start at nearest availability, step {d:+d} day")
    elif ok:
        o.refute(f, f.node, dvar, f"search has {n_init} start definition(s) and {n_step} day step(s); expected one of each")
