"""C03 - schedules never over-allocate a resource.   (DESIGN.md section 5, C03)

Decided structurally at the call sites of the usage ledger (`_ResourceUsage.reserve`), the two availability searches,
the ledger itself, the report and the resource table.  Numeric outcomes are not decided.
"""
from __future__ import annotations

import ast

from sa import facts
from sa.cfg import cfg_of
from sa.effects import Effects
from sa.flow import flow_of, Expander
from sa.model import walk_no_nested, src, unmangle
from sa.pat import match, same
from sa.types import base
from . import sched
from .sched import BOTH, parse_free, parse_cap, parse_resv


def check(ctx):
    prog = ctx.prog
    ctx.assume("custom IResource implementations honour get_available_units as a pure function of (date, task)")
    ctx.assume("term expansion assumes no aliasing writes between a definition and its use inside one function")
    sites = sched.all_reserve_sites(ctx)

    # ------------------------------------------------------------------------------------------------ amount <= free
    o = ctx.ob('amount_le_free', 'R8',
               "every ledger reservation books min(.., CAP(r,d) - RESV(r,d,sel)) for the same resource, the same version of "
               "the day and the selector 'all tasks when balancing, own task otherwise'", floor=2)
    o2 = ctx.ob('amount_positive', 'R8',
                "every ledger reservation is dominated by free > 0 (same free term) and by the loop guard remaining > 0, "
                "and books min(remaining, free), hence a positive amount", floor=2)
    o3 = ctx.ob('reserve_args', 'R8', "the reservation row names the task's resource, the tested day and the task itself", floor=2)
    for f, c in sites:
        S = next((s for s in BOTH if f.qual.startswith('schedule.' + s['cls'] + '.')), None)
        if S is None or len(c.args) != 4:
            o.undecided(f, c, c, "reservation outside the two schedulers or with an unexpected argument list")
            continue
        ex = Expander(prog, f, ctx.typer)
        fl = flow_of(f)
        cn = fl.node_of_expr(c)
        r_arg, d_arg, t_arg, amount = c.args
        from sa.pat import attr_path
        # the day / resource expressions are compared as written: keep their variables unexpanded inside the amount
        stop = {p_ for p_ in (attr_path(d_arg), attr_path(r_arg)) if p_}
        amt = ex.expand(amount, cn, stop=stop)
        margs = facts.flatten_lattice(amt, 'min')
        frees = []
        if margs is not None:
            for a in margs:
                fr = parse_free(a, S['balance'])
                if fr:
                    frees.append(fr)
        if margs is None or not frees:
            # recognised shapes without a capacity bound: a parameter / constant / arithmetic on them.  A term the expansion could
            # not resolve (a local with several definitions, the result of a helper call) is not a recognised shape
            def _opq(x):
                if isinstance(x, ast.Name):
                    return isinstance(x.ctx, ast.Load) and x.id not in f.params and x.id not in stop and len(fl.defs_of(x.id)) > 1
                if isinstance(x, ast.Call):
                    return not (isinstance(x.func, ast.Name) and x.func.id in ('min', 'max', 'abs', 'round', 'float', 'int', 'timedelta', 'datetime')) \
                        and not parse_cap(x) and not sched._resv_call(x)
                if isinstance(x, ast.Subscript) and isinstance(x.value, ast.Name) and x.value.id not in f.params and x.value.id not in stop:
                    return True         # an entry of a local table (a per-call memo of capacities keyed by the day): not followed
                return False
            caps_ = [x for x in ast.walk(amt) if parse_cap(x)]
            if caps_:
                # the capacity is read: undecided only when what is subtracted from it is a term the expansion could not resolve
                opaque = [x.right for x in ast.walk(amt) if isinstance(x, ast.BinOp) and isinstance(x.op, ast.Sub) and parse_cap(x.left) and _opq(x.right)]
            else:
                opaque = [x for x in ast.walk(amt) if _opq(x)]
            helper_defect = None
            for x in [x for x in ast.walk(amt) if isinstance(x, ast.Call) and isinstance(x.func, ast.Attribute)]:
                helper_defect = helper_defect or _capacity_helper_defect(ctx, f, x)
            helper_defect = helper_defect or _capacity_memo_defect(f, amt, ex, d_arg)
            if helper_defect:
                o.refute(f, c, amount, helper_defect)
                continue
            if opaque:
                o.undecided(f, c, amount, f"reserved amount `{src(amt)[:80]}` contains `{src(opaque[0])[:40]}`, which the rule cannot resolve")
                continue
            o.refute(f, c, amount, f"reserved amount `{src(amt)}` is not bounded by the free capacity "
                                   f"CAP(resource, day) - RESV(resource, day): expected min(remaining, free)")
            continue
        fr = frees[0]
        cap, resv = fr['cap'], fr['resv']
        bad = []
        if not (same(cap['r'], r_arg) and same(resv['r'], r_arg)):
            bad.append("capacity/ledger queried for a different resource than the one booked")
        if not (same(cap['d'], d_arg) and _same_day(resv['d'], d_arg)):
            bad.append("capacity/ledger queried for a different day expression than the one booked")
        if not same(resv['u'], c.func.value):
            bad.append("free capacity computed from a different ledger than the one booked")
        if resv['kind'] in ('task', 'sel-inverted'):
            bad.append(f"ledger sum uses selector `{resv['kind']}`: with balancing on, other tasks' bookings are ignored")
        elif resv['kind'] == 'sel-other':
            from .sched_fill import selector_shape, selector_defect
            shape, extra, all_when_true = selector_shape(resv.get('as_ifexp', resv['node']), S['balance'])
            if shape == 'narrowed':
                bad.append(selector_defect(resv.get('as_ifexp', resv['node']), S['balance']))
            elif shape == 'widened' and all_when_true:
                pass        # all bookings are subtracted at least whenever balancing is on: the amount is bounded in both modes
            else:
                o.undecided(f, c, amount, "ledger selector is a conditional the rule does not recognise")
                continue
        # same version of the day variable between the capacity read, the ledger read and the booking
        dpath = attr_path(d_arg)
        if dpath:
            for sub, what in ((cap['node'], 'capacity'), (resv['node'], 'ledger sum')):
                # a selector joined from an if/else statement has no textual origin of its own: look for its two queries
                subs = [sub]
                if isinstance(sub, ast.IfExp):
                    subs += [sub.body, sub.orelse]
                origins = []
                for s_ in subs:
                    origins += _origin_nodes(f, s_)
                    if origins:
                        break
                origins = [n_ for n_ in origins if fl.cfg.can_reach(n_, cn)]
                # evaluated inside the same loop iteration: prefer the origins in the innermost loop of the booking
                lp_ = sched.while_loop_of(f, c)
                entry_ = fl.cfg.loop_entry_branch(lp_) if lp_ is not None else None
                avoid_ = {entry_.id} if entry_ is not None else None
                if origins and not any(fl.same_version(dpath, n_, cn) or
                                       (avoid_ and fl.cfg.can_reach(n_, cn) and fl.no_def_between(dpath, n_, cn, avoid_)) for n_ in origins):
                    bad.append(f"the day variable `{dpath}` is redefined between the {what} read and the booking")
        if bad:
            for b in bad:
                o.refute(f, c, amount, b)
        else:
            o.site(f, c, f"amount = {src(amt)[:90]}")

        # ---- positivity
        conds = []
        for t_, pol_ in fl.cfg.conditions(cn):
            conds += facts.split_conj(ex.expand(t_, fl.cfg.node_containing(t_), stop=stop), pol_)
        # conditions inside the statement itself: `left -= ledger.reserve(..) if free > 0 else 0`
        from sa.flow import eval_conditions
        st_root = getattr(getattr(cn, 'ast', None), 'value', None)
        for t_, pol_ in (eval_conditions(st_root, c) or []) if st_root is not None else []:
            conds += facts.split_conj(ex.expand(t_, cn, stop=stop), pol_)
        free_pos = None
        for t, pol in conds:
            pt = sched.sign_test(t, pol)
            if pt and parse_free(pt[0], S['balance']) and same(pt[0], fr['node']):
                if free_pos is None or pt[1] == '>':
                    free_pos = pt[1]
        amt_pos = None
        for t, pol in conds:
            pt = sched.sign_test(t, pol)
            if pt and (same(pt[0], amt) or same(ex.expand(pt[0], cn), amt)):
                amt_pos = pt[1] if amt_pos != '>' else amt_pos
        if amt_pos == '>':
            o2.site(f, c, f"guard: the booked amount itself is tested `> 0`")
        elif free_pos is None:
            # closed world: every dominating condition is either the loop guard or a sign test the rule understands
            loop0 = sched.while_loop_of(f, c)
            opaque = [(t, pol) for t, pol in conds if sched.sign_test(t, pol) is None and not (loop0 is not None and t is loop0.test)]
            if opaque or amt_pos is not None:
                o2.undecided(f, c, c, "no `free > 0` guard recognised among the conditions of the booking (" +
                             ', '.join(facts.cond_texts(opaque))[:120] + ")")
            else:
                o2.refute(f, c, c, "the booking is not guarded by `free > 0` on the same free-capacity term")
        elif free_pos != '>':
            o2.refute(f, c, c, f"the booking is guarded by `free {free_pos} 0` instead of `free > 0`: zero/negative amounts can be booked")
        else:
            loop = sched.while_loop_of(f, c)
            rem = None
            for a in (margs or []):
                if not parse_free(a, S['balance']):
                    rem = a
            lt = sched.sign_test(loop.test) if loop is not None else None
            others = [a for a in (margs or []) if not parse_free(a, S['balance'])]
            if not others:
                o2.site(f, c, f"guard: {src(fr['node'])[:60]} > 0, amount is the free capacity")
            elif loop is None or lt is None or len(others) != 1:
                o2.undecided(f, c, c, "cannot relate the other operand(s) of min(..) to a `remaining > 0` loop guard")
            elif lt[1] in ('>=', '<', '<=') and (same(lt[0], rem) or same(ex.expand(lt[0], cn), rem)):
                o2.refute(f, c, c, f"the remaining work is only known to be `{lt[1]} 0` inside the loop (`{src(loop.test)}`): a zero or "
                                   f"negative amount can be booked")
            elif lt[1] == '>' and (same(lt[0], rem) or same(ex.expand(lt[0], cn), rem)):
                o2.site(f, c, f"guards: {src(fr['node'])[:60]} > 0 and {src(lt[0])} > 0")
            else:
                o2.undecided(f, c, c, "the other operand of min(..) is not the variable tested by the enclosing loop guard")

        # ---- row content
        ok = True
        if not (isinstance(t_arg, ast.Name) and ctx.typer.expr_type(t_arg, f) == 'Task'):
            ok = False
        if cap['t'] is not None and not same(cap['t'], t_arg):
            ok = False
        if resv.get('t') is not None and not same(resv['t'], t_arg):
            ok = False
        if ok:
            o3.site(f, c, f"row=({src(r_arg)}, {src(d_arg)}, {src(t_arg)})")
        else:
            o3.refute(f, c, c, "the booked row names a task different from the one whose capacity / bookings were read")

    # ------------------------------------------------------------------------------------------------ same day key
    o = ctx.ob('ledger_day_key', 'R10',
               "the ledger stores midnight(day) and both query branches compare the stored day with midnight(day) and the resource", floor=2)

    ctx.guarded(o, lambda o: ledger_shape(ctx, o))

    # ------------------------------------------------------------------------------------------------ resource table
    o = ctx.ob('resource_by_name', 'R5',
               "in both passes the resource is self.__resources.setdefault(task.resource, Resource(task.resource)), on every "
               "path of the pass that schedules the task, and calc returns list(self.__resources.values())", floor=6)

    ctx.guarded(o, lambda o: resource_table(ctx, o, BOTH))
    ctx.guarded(o, lambda o: default_calendar(ctx, o))

    # ------------------------------------------------------------------------------------------------ None -> 0, pure
    o = ctx.ob('capacity_none_is_zero', 'R8',
               "Resource.get_available_units returns 0 when the calendar has no information, the calendar value otherwise, "
               "and keeps no state (a memo would freeze capacities across calendar changes)", floor=2)

    def cap(o):
        f = prog.func('resource.Resource.get_available_units')
        eff = Effects(prog, ctx.typer, ctx.cg)
        ws = [w for w in eff.direct_writes(f) if w.root != 'fresh']
        for w in ws:
            o.refute(f, w.node, w.node, f"get_available_units writes state ({unmangle(w.field)}): capacity becomes history dependent")
        rets = [n for n in walk_no_nested(f.node) if isinstance(n, ast.Return)]
        ex = Expander(prog, f, ctx.typer)
        good = 0
        for r in rets:
            v = ex.expand(r.value)
            m = match("0 if $u is None else $u", v) or match("$u if $u is not None else 0", v) or match("$u or 0", v)
            if m and match("self.calendar.get_available_units($d)", m['u']) and src(match(
                    "self.calendar.get_available_units($d)", m['u'])['d']) == f.params[1]:
                good += 1
                o.site(f, r, src(v))
            else:
                conds = facts.node_conditions(prog, f, r, ctx.typer)
                # if/else form:  if units is None: return 0 ; return units
                if isinstance(v, ast.Constant) and v.value == 0 and any(match("$u is None", t) and p for t, p in conds):
                    good += 1
                    o.site(f, r, 'return 0 under `is None`')
                elif match("self.calendar.get_available_units($d)", v) and any(match("$u is None", t) and not p for t, p in conds):
                    good += 1
                    o.site(f, r, 'return units under `is not None`')
                elif (match("round($*a)", v) or match("math.ceil($x)", v) or match("ceil($x)", v)) and \
                        any(match("self.calendar.get_available_units($d)", x) for x in ast.walk(v)):
                    # the calendar's answer rounded: half of the values are rounded UP, so the resource reports more than its calendar offers
                    o.refute(f, r, r, f"get_available_units returns `{src(v)[:80]}`: the calendar's answer rounded (rounding to nearest / up yields "
                                      f"more than the calendar offers for half of the values, and the schedulers book against it), not the calendar value itself")
                elif match("self.calendar.get_available_units($d)", v) or isinstance(v, ast.Constant) or \
                        (match("$a if $c else $b", v) and any(match("self.calendar.get_available_units($d)", x) for x in ast.walk(v))) or \
                        any(isinstance(x, ast.Subscript) or (isinstance(x, ast.Attribute) and isinstance(x.value, ast.Name) and x.value.id == f.params[0]
                                                             and x.attr != 'calendar') for x in ast.walk(v)):
                    # recognised wrong shapes: the raw calendar answer (None passed through), a constant, a conditional with another
                    # fallback than 0-for-None, an answer read from the resource's own state
                    o.refute(f, r, r, f"get_available_units returns `{src(v)}`: not `0 if calendar value is None else calendar value`")
                else:
                    o.undecided(f, r, r, f"get_available_units returns `{src(v)[:80]}`, a form the rule does not follow")
        if not ws and good:
            o.site(f, f.node, 'no state written')
    ctx.guarded(o, cap)

    # ------------------------------------------------------------------------------------------------ report
    o = ctx.ob('report_agrees_with_rows', 'R10',
               "the report is built from the ledger's own row list; rows() filters that list only by the caller's predicate; "
               "reserved() sums units of the rows matching resource and date", floor=4)

    def report(o):
        for S in BOTH:
            calc = prog.func(S['calc'])
            ex = Expander(prog, calc, ctx.typer)
            for r in [n for n in walk_no_nested(calc.node) if isinstance(n, ast.Return)]:
                if isinstance(r.value, ast.Call) and len(r.value.args) >= 3:
                    a2 = ex.expand(r.value.args[2])
                    m = match("ResourceUsageReport($x.rows)", a2) or match("ResourceUsageReport(list($x.rows))", a2) or \
                        match("ResourceUsageReport($x.rows[:])", a2) or match("ResourceUsageReport($x.rows.copy())", a2)
                    if m and any(match("_ResourceUsage()", x_) for x_ in ast.walk(m['x'])):
                        # the same ledger object must be the one handed to the pass: follow hoisted locals to the
                        # ResourceUsageReport(<name>.rows) call and compare the definition of <name> at both places
                        fl = flow_of(calc)
                        cfgc = fl.cfg
                        rep, at = r.value.args[2], cfgc.node_of(r)
                        hops = 0
                        while isinstance(rep, ast.Name) and hops < 5:
                            d = fl.unique_def(rep.id, at)
                            if d is None or d.value is None:
                                break
                            rep, at, hops = d.value, d.node, hops + 1
                        arg0 = rep.args[0] if isinstance(rep, ast.Call) and rep.args else None
                        hops = 0
                        while hops < 4 and arg0 is not None:
                            hops += 1
                            mm = match("list($x)", arg0) or match("$x[:]", arg0) or match("$x.copy()", arg0)
                            if mm:
                                arg0 = mm['x']
                            elif isinstance(arg0, ast.Name) and fl.unique_def(arg0.id, at) is not None and fl.unique_def(arg0.id, at).value is not None:
                                dd = fl.unique_def(arg0.id, at)
                                arg0, at = dd.value, dd.node
                            else:
                                break
                        led = arg0.value if isinstance(arg0, ast.Attribute) and arg0.attr == 'rows' else None

                        def root_def(e, at_):
                            """definition of the object an expression reads: attribute paths stripped to their root name (a ledger
                            kept in a per-call holder object), plain aliases followed"""
                            for _ in range(8):
                                while isinstance(e, ast.Attribute):
                                    e = e.value
                                if not isinstance(e, ast.Name) or at_ is None:
                                    return None
                                d_ = fl.unique_def(e.id, at_)
                                if d_ is None:
                                    return None
                                if d_.value is not None and isinstance(d_.value, (ast.Name, ast.Attribute)) and d_.node is not None:
                                    e, at_ = d_.value, d_.node
                                    continue
                                return d_
                            return None
                        led_def = root_def(led, at) if led is not None else None
                        passed = [c for f2, c in sched.pass_call_sites(ctx, S) if f2 is calc]

                        def carried(a, at_):
                            """definitions an argument hands over: its own root, and - when it is a parameter object built by a
                            constructor call in this function (`state = _PassState(ledger, [])`) - the roots of what it was built from"""
                            d_ = root_def(a, at_)
                            out_ = [d_] if d_ is not None else []
                            if d_ is not None and isinstance(d_.value, ast.Call) and d_.node is not None:
                                for x_ in list(d_.value.args) + [k_.value for k_ in d_.value.keywords]:
                                    if isinstance(x_, (ast.Name, ast.Attribute)):
                                        dx_ = root_def(x_, d_.node)
                                        if dx_ is not None:
                                            out_.append(dx_)
                            return out_
                        if led_def is not None and passed and all(any(any(d_ is led_def for d_ in carried(a, cfgc.node_containing(c)))
                                                                     for a in c.args if isinstance(a, (ast.Name, ast.Attribute))) for c in passed):
                            o.site(calc, r, src(rep))
                        else:
                            o.refute(calc, r, r.value.args[2], "the report is not built from the ledger handed to the scheduling pass")
                    elif match("ResourceUsageReport($x)", a2) and not any(isinstance(x, ast.Attribute) and x.attr == 'rows' for x in ast.walk(a2)):
                        o.refute(calc, r, r.value.args[2], f"usage report is built from `{src(a2)[:60]}`, not from the rows of this call's ledger")
                    elif m:
                        o.refute(calc, r, r.value.args[2], f"usage report is built from the rows of `{src(m['x'])[:50]}`, not of a ledger created by this call")
                    else:
                        o.undecided(calc, r, r.value.args[2], f"usage report is `{src(a2)[:70]}`: not ResourceUsageReport(<ledger>.rows) in a form the rule follows")
        report_rows(ctx, o)
        sf = prog.func('schedule.ResourceUsageReport.reserved')
        ex = Expander(prog, sf, ctx.typer)
        rets = [n for n in walk_no_nested(sf.node) if isinstance(n, ast.Return)]
        loops = [c_ for c_ in _collects(sf) if getattr(c_, 'kind', '') == 'loop' and isinstance(c_.target, ast.Name)]
        for r in rets:
            from .sched_fill import fold_const
            v = fold_const(ex.expand(r.value))
            m = match("sum($c, 0)", v) or match("sum($c)", v) or match("math.fsum($c)", v) or match("fsum($c)", v)
            parts = facts.comp_parts(m['c']) if m else None
            atoms = []
            if not parts and isinstance(r.value, ast.Name):
                # running total: `total = 0; for row in rows: if ..: total += row.units; return total`
                flr = flow_of(sf)
                accl = [c_ for c_ in loops if c_.acc == r.value.id]
                inits = [d for d in flr.defs_of(r.value.id) if d.kind == 'assign' and facts.const_num(d.value) is not None]
                augs = [d for d in flr.defs_of(r.value.id) if d not in inits]
                if len(accl) == 1 and len(augs) == 1 and len(inits) == 1 and facts.const_num(inits[0].value) == 0:
                    c_ = accl[0]
                    parts = (c_.elt, c_.target, c_.iter, [])
                    for t_, pol_ in c_.conds:
                        atoms += facts.split_conj(t_, pol_)
            if not parts and isinstance(v, ast.Constant):
                pc_ = facts.node_conditions(prog, sf, r, ctx.typer)
                if pc_ and not any(isinstance(x, ast.Attribute) and x.attr == '_ResourceUsageReport__rows' for t_, _ in pc_ for x in ast.walk(t_)):
                    o.refute(sf, r, r, f"the report total is answered with `{src(v)}` without looking at the rows when " +
                             ', '.join(facts.cond_texts(pc_))[:100] + ": rows booked for that resource and day are not counted, so the per-day totals "
                             "disagree with the rows")
                    continue
            if not parts:
                o.undecided(sf, r, r, "reserved() is not sum(<comprehension>)")
                continue
            elt, tgt, it, ifs = parts
            for c in ifs:
                atoms += facts.split_conj(c, True)
            want = {f"{tgt.id}.resource == {sf.params[1]}", f"{tgt.id}.date == {sf.params[2]}"}
            got = set()
            for a, pol in atoms:
                a, pol = facts.norm_cond(a, pol)
                t = src(a)
                if isinstance(a, ast.Compare) and len(a.ops) == 1 and isinstance(a.ops[0], ast.Eq) and pol:
                    t2 = f"{src(a.comparators[0])} == {src(a.left)}"
                    got.add(t if t in want else t2)
                else:
                    got.add(('' if pol else 'not ') + t)
            if match(f"{tgt.id}.units", elt) and match("self._ResourceUsageReport__rows", it) and got == want:
                o.site(sf, r, src(v)[:100])
            elif not match("self._ResourceUsageReport__rows", it):
                o.refute(sf, r, r, f"report total ranges over `{src(it)[:50]}`, not over the report's rows")
            elif not match(f"{tgt.id}.units", elt):
                o.refute(sf, r, r, f"report total sums `{src(elt)[:50]}`, not the units of the rows")
            elif want - got:
                o.refute(sf, r, r, f"report total is `{src(v)[:120]}`: rows are not matched on " +
                         ' and '.join(sorted(w.split(' == ')[0].split('.')[-1] for w in want - got)) + " (expected equal resource and date)")
            else:
                o.undecided(sf, r, r, f"report total filters rows additionally by {sorted(got - want)}: a condition the rule does not recognise")
    ctx.guarded(o, report)

    # ------------------------------------------------------------------------------------------------ searches
    o = ctx.ob('search_uses_free_capacity', 'R8',
               "both availability searches return only on `CAP(r,d) - RESV(r,d,sel) > 0` for the resource and task they were asked about", floor=2)

    def search(o):
        for S in BOTH:
            f = prog.func(S['search'])
            rets = [n for n in walk_no_nested(f.node) if isinstance(n, ast.Return)]
            if not rets:
                o.refute(f, f.node, 'search', "search never returns a date")
            for r in rets:
                from .sched_fill import norm_conds, is_dead
                if is_dead(facts.node_conditions(prog, f, r, ctx.typer)):
                    continue
                conds = norm_conds(facts.node_conditions(prog, f, r, ctx.typer))
                hit = False
                for t, pol in conds:
                    pt = sched.sign_test(t, pol)
                    fr = parse_free(pt[0], S['balance']) if pt else None
                    if fr:
                        hit = True
                        if pt[1] != '>':
                            o.refute(f, r, t, f"search accepts a day on `free {pt[1]} 0`")
                        elif fr['resv']['kind'] in ('task', 'sel-inverted'):
                            o.refute(f, r, t, "search ignores other tasks' bookings while balancing is on")
                        elif fr['resv']['kind'] == 'sel-other':
                            from .sched_fill import selector_shape, selector_defect
                            shape, extra, all_when_true = selector_shape(fr['resv'].get('as_ifexp', fr['resv']['node']), S['balance'])
                            if shape == 'narrowed':
                                o.refute(f, r, fr['resv']['node'], "search: " + selector_defect(fr['resv'].get('as_ifexp', fr['resv']['node']), S['balance']))
                            elif shape == 'widened' and all_when_true:
                                o.site(f, r, src(t)[:100])
                            else:
                                o.undecided(f, r, t, "the search's ledger selector is a conditional the rule does not recognise")
                        elif not (src(fr['cap']['r']) == f.params[1] and src(fr['resv']['r']) == f.params[1]
                                  and src(fr['resv']['u']) == f.params[2]):
                            o.refute(f, r, t, "search tests capacity and bookings of different resource/day/ledger")
                        else:
                            o.site(f, r, src(t)[:100])
                if not hit:
                    opaque = [(t, pol) for t, pol in conds if sched.sign_test(t, pol) is None and
                              not isinstance(t, (ast.For, ast.While)) and not match("$i in range($*a)", t)]
                    if opaque:
                        o.undecided(f, r, r, "search returns under " + ', '.join(facts.cond_texts(opaque))[:100] + ": not a free-capacity test the rule recognises")
                    else:
                        o.refute(f, r, r, "search returns a date that was not tested for free capacity")
    ctx.guarded(o, search)


class _Unknown(Exception):
    pass


def _beval(e, A, B, fparam, tgt):
    """truth value of a filter expression over the atoms A = `<fparam> is None`, B = `<fparam>(<tgt>)`.
    Returns True/False, or 'crash' when the predicate would be called although it is None."""
    if isinstance(e, ast.BoolOp):
        is_and = isinstance(e.op, ast.And)
        for v in e.values:
            r = _beval(v, A, B, fparam, tgt)
            if r == 'crash':
                return r
            if r is (not is_and):
                return r
        return is_and
    if isinstance(e, ast.UnaryOp) and isinstance(e.op, ast.Not):
        r = _beval(e.operand, A, B, fparam, tgt)
        return r if r == 'crash' else (not r)
    if isinstance(e, ast.IfExp):
        t = _beval(e.test, A, B, fparam, tgt)
        if t == 'crash':
            return t
        return _beval(e.body if t else e.orelse, A, B, fparam, tgt)
    if isinstance(e, ast.Constant) and isinstance(e.value, bool):
        return e.value
    if match(f"{fparam} is None", e) or match(f"{fparam} == None", e):
        return A
    if match(f"{fparam} is not None", e) or match(f"{fparam} != None", e):
        return not A
    if isinstance(e, ast.Name) and e.id == fparam:          # truthiness of a callable-or-None
        return not A
    if match(f"callable({fparam})", e):
        return not A
    if tgt is not None and (match(f"{fparam}({tgt})", e) or match(f"bool({fparam}({tgt}))", e)):
        return 'crash' if A else B
    raise _Unknown(src(e))


def report_rows(ctx, o):
    """ResourceUsageReport.rows(filter): every stored row (or a copy of it) for which `filter is None or filter(row)`.
    The comprehension may be spelled as an accumulation loop with guard clauses, or split over several returns."""
    prog = ctx.prog
    rf = prog.func('schedule.ResourceUsageReport.rows')
    if len(rf.params) < 2:
        o.undecided(rf, rf.node, 'rows', "rows() has no filter parameter")
        return
    fparam = rf.params[1]
    ex = Expander(prog, rf, ctx.typer)
    rets = [n for n in walk_no_nested(rf.node) if isinstance(n, ast.Return)]
    if not rets:
        o.undecided(rf, rf.node, 'rows', "rows() is not written with return statements over one collection of the stored rows")
        return
    parsed = []
    for r in rets:
        v = ex.expand(r.value) if r.value is not None else None
        for _ in range(3):
            m = v is not None and (match("list($x)", v) or match("[] + $x", v) or match("$x + []", v))
            if m:
                v = m['x']
        if v is not None and match("self._ResourceUsageReport__rows", v):
            # the stored list itself: every row, no filter
            parsed.append((r, v, None, None, []))
            continue
        memo = r.value if isinstance(r.value, ast.Attribute) else v
        if isinstance(memo, ast.Attribute) and isinstance(memo.value, ast.Name) and memo.value.id == rf.params[0] and \
                memo.attr != '_ResourceUsageReport__rows' and \
                any(not (isinstance(val_, ast.Constant) and val_.value is None) for _st, _tg, val_ in facts.attr_stores(rf, memo.attr)):
            # a view computed once, kept in the report and handed out again on later calls: one list object shared by all callers
            o.refute(rf, r, r, f"rows() hands out `{src(memo)}`, a list it stores in the report and returns again on later calls instead of building "
                               f"the view from the stored rows each time: every caller gets the same list object, so a caller that sorts / trims / "
                               f"clears its result changes what rows() answers afterwards, while reserved() and the filtered views still read the "
                               f"stored rows (the report's views no longer agree with its rows)")
            return
        parts = facts.comp_parts(v) if v is not None else None
        if not parts or not isinstance(v, (ast.ListComp, ast.GeneratorExp)) or not isinstance(parts[1], ast.Name):
            o.undecided(rf, r, r, f"rows() returns `{src(v)[:80] if v is not None else 'None'}`: not a collection over the stored rows in a form the rule follows")
            return
        elt, tgt, it, ifs = parts
        if not match("self._ResourceUsageReport__rows", it):
            o.refute(rf, r, it, f"rows() ranges over `{src(it)[:60]}`, not over the stored rows")
            return
        if not (match(f"dataclasses.replace({tgt.id})", elt) or match(f"{tgt.id}", elt) or match(f"replace({tgt.id})", elt)
                or match(f"copy.copy({tgt.id})", elt) or match(f"copy({tgt.id})", elt)):
            o.refute(rf, r, elt, f"rows() returns `{src(elt)[:60]}` per row, not the row (or a copy of it)")
            return
        parsed.append((r, v, elt, tgt.id, list(ifs)))
    # decision table over (filter is None, filter(row))
    try:
        for A, B in ((True, None), (False, True), (False, False)):
            live = []
            for r, v, elt, tgt, ifs in parsed:
                conds = facts.node_conditions(prog, rf, r, ctx.typer)
                ok = True
                for t, pol in conds:
                    val = _beval(t, A, B, fparam, None)
                    if val == 'crash' or val != pol:
                        ok = False
                        break
                if ok:
                    live.append((r, v, tgt, ifs))
            if len(live) != 1:
                o.undecided(rf, rf.node, 'rows', f"{len(live)} return statements apply when the filter is {'None' if A else 'given'}")
                return
            r, v, tgt, ifs = live[0]
            got = True
            for c in ifs:
                val = _beval(c, A, B, fparam, tgt)
                if val == 'crash':
                    got = 'crash'
                    break
                if not val:
                    got = False
                    break
            want = True if A else B
            if got != want:
                o.refute(rf, r, r, "rows() does not return every stored row accepted by the caller's filter: with "
                                   f"{'no filter' if A else 'a filter that ' + ('accepts' if B else 'rejects') + ' the row'} the row is "
                                   f"{'kept' if got is True else 'dropped' if got is False else 'passed to a None predicate'}")
                return
    except _Unknown as e:
        o.undecided(rf, rf.node, str(e), f"rows() filters by `{e}`, a condition the rule does not recognise")
        return
    o.site(rf, parsed[0][0], "rows() = stored rows accepted by `filter is None or filter(row)`: " + src(parsed[0][1])[:80])


def ledger_shape(ctx, o):
    prog = ctx.prog
    rf = prog.func('schedule._ResourceUsage.reserve')
    qf = prog.func('schedule._ResourceUsage.reserved')
    ex = Expander(prog, rf, ctx.typer)
    rows = [c for c in walk_no_nested(rf.node) if isinstance(c, ast.Call) and isinstance(c.func, ast.Name)
            and c.func.id == 'ResourceUsageRow']
    appended = [c for c in facts.calls_named(rf, 'append') if isinstance(c.func, ast.Attribute) and
                (match("$s.rows", c.func.value) or not isinstance(c.func.value, ast.Name) or c.func.value.id not in rf.params)]
    app_arg = ex.expand(appended[0].args[0]) if len(appended) == 1 and appended[0].args else None
    if len(rows) != 1 or len(appended) != 1 or not (isinstance(app_arg, ast.Call) and getattr(app_arg.func, 'id', '') == 'ResourceUsageRow'):
        touches_rows = [n for n in walk_no_nested(rf.node) if isinstance(n, ast.Attribute) and n.attr == 'rows']
        if len(rows) > 1 or len(appended) > 1:
            o.refute(rf, rf.node, 'reserve', f"reserve() builds {len(rows)} row(s) and appends {len(appended)} time(s): exactly one ResourceUsageRow "
                                             f"per booking must be stored")
        elif not rows and not touches_rows:
            o.refute(rf, rf.node, 'reserve', "reserve() never stores a ResourceUsageRow in the ledger: bookings are not recorded")
        else:
            o.undecided(rf, rf.node, 'reserve', "reserve() stores its row in a form the rule does not follow (expected self.rows.append(ResourceUsageRow(..)))")
        return
    rewrites = [n for n in walk_no_nested(rf.node) if isinstance(n, ast.Subscript) and isinstance(n.ctx, ast.Store) and match("$s.rows", n.value)]
    if rewrites:
        o.refute(rf, rewrites[0], rewrites[0], f"reserve() overwrites an existing ledger row (`{src(rewrites[0])} = ..`) instead of appending one row per booking: "
                                               f"the booking is merged into a row owned by another task, so per-task sums (balancing off) and the date "
                                               f"shares no longer see the task's own booking")
        return
    cond_app = [(t, pol) for t, pol in facts.node_conditions(ctx.prog, rf, appended[0], ctx.typer, expand=False)]
    if cond_app:
        o.undecided(rf, appended[0], appended[0], "the ledger row is appended only under " + ', '.join(facts.cond_texts(cond_app))[:100])
        return
    row = ex.expand(rows[0])
    p = rf.params
    if len(row.args) != 4 or len(p) < 5:
        o.undecided(rf, rows[0], rows[0], "unexpected row constructor shape")
        return
    d = facts.is_midnight_of(row.args[1])
    if not (isinstance(row.args[0], ast.Name) and row.args[0].id == p[1] and d is not None and src(d) == p[2]
            and isinstance(row.args[2], ast.Name) and row.args[2].id == p[3]
            and isinstance(row.args[3], ast.Name) and row.args[3].id == p[4]):
        o.refute(rf, rows[0], rows[0], f"row is `{src(row)}`; expected (resource, midnight(date), task, units)")
    else:
        o.site(rf, rows[0], src(row))
    rets = [n for n in walk_no_nested(rf.node) if isinstance(n, ast.Return)]
    for rt in rets:
        rv = ex.expand(rt.value) if rt.value is not None else None
        if isinstance(rv, ast.Name) and rv.id == p[4]:
            continue
        if rv is not None and same(rv, row.args[3]):
            continue
        if isinstance(rt.value, ast.Attribute) and rt.value.attr == 'units':
            continue        # <the stored row>.units
        if rv is None or isinstance(rv, ast.Constant) or any(isinstance(x, ast.Name) and x.id == p[4] for x in ast.walk(rv)):
            # nothing / a constant / a transformed amount (rounded, scaled): not what was stored
            o.refute(rf, rt, 'return', f"reserve() returns `{src(rv) if rv is not None else 'None'}`, not exactly the units it stored (the fill loops "
                                       f"subtract the return value)")
        else:
            o.undecided(rf, rt, 'return', f"reserve() returns `{src(rv)[:60]}`, which the rule cannot relate to the stored units")
    if not rets:
        o.refute(rf, rf.node, 'return', "reserve() must return exactly the units it stored (the fill loops subtract the return value)")
    # query: every "collect row.units for row in self.rows if ..." site (comprehension or accumulation loop)
    exq = Expander(prog, qf, ctx.typer)
    qp = qf.params
    sites = [c for c in _collects(qf) if match("$s.rows", sched.whole_seq(c.iter) if hasattr(sched, 'whole_seq') else c.iter)
             and isinstance(c.target, ast.Name)]
    def _state_keys(fn_, day_param):
        """{attr: {'raw' | 'key'}}: how the day enters the index of ledger state other than the rows"""
        out = {}
        exk = Expander(prog, fn_, ctx.typer)
        for n_ in walk_no_nested(fn_.node):
            base = idx_ = None
            if isinstance(n_, ast.Subscript):
                base, idx_ = n_.value, n_.slice
            elif isinstance(n_, ast.Call) and isinstance(n_.func, ast.Attribute) and n_.func.attr in ('get', 'pop', 'setdefault') and n_.args:
                base, idx_ = n_.func.value, n_.args[0]
            elif isinstance(n_, ast.Compare) and len(n_.ops) == 1 and isinstance(n_.ops[0], (ast.In, ast.NotIn)):
                base, idx_ = n_.comparators[0], n_.left
            if not (isinstance(base, ast.Attribute) and isinstance(base.value, ast.Name) and base.value.id == fn_.params[0] and base.attr != 'rows'):
                continue
            cn_ = cfg_of(fn_).node_containing(n_)
            ix = exk.expand(idx_, cn_) if cn_ is not None else idx_
            for el in (ix.elts if isinstance(ix, ast.Tuple) else [ix]):
                md = facts.is_midnight_of(el)
                if md is not None and src(md) == day_param:
                    out.setdefault(base.attr, set()).add('key')
                elif isinstance(el, ast.Name) and el.id == day_param:
                    out.setdefault(base.attr, set()).add('raw')
        return out
    if len(qp) > 2 and len(rf.params) > 2:
        kq, kr = _state_keys(qf, qp[2]), _state_keys(rf, rf.params[2])
        for attr_ in sorted(set(kq) & set(kr)):
            if ('raw' in kq[attr_]) != ('raw' in kr[attr_]) or ('key' in kq[attr_]) != ('key' in kr[attr_]):
                o.refute(qf, qf.node, f"self.{unmangle(attr_)}", f"the ledger keeps `{unmangle(attr_)}` next to the rows, indexed by the raw date in one of reserve() / reserved() and by "
                                                                  f"the midnight key in the other: an entry stored for a time-of-day timestamp is never invalidated by later "
                                                                  f"bookings of that day, so the day's total goes stale")
                return
    # a scan that can stop before the last row does not sum all bookings of the day: rows are in booking order, not in date order
    early = False
    row_loops = [n for n in walk_no_nested(qf.node) if isinstance(n, ast.For) and
                 match("$s.rows", sched.whole_seq(n.iter) if hasattr(sched, 'whole_seq') else n.iter)]
    for lp0 in row_loops:
        c = facts.Collect(lp0, None, lp0.target, lp0.iter, [], None, 'loop')
        inner = [x for x in walk_no_nested(c.node) if isinstance(x, (ast.For, ast.While)) and x is not c.node]
        for x in walk_no_nested(c.node):
            if isinstance(x, ast.Break) and not any(y is x for lp in inner for y in ast.walk(lp)) or \
                    (isinstance(x, ast.Return) and any(y is x for st_ in c.node.body for y in ast.walk(st_))):
                xc = [(t, p) for t, p in facts.node_conditions(prog, qf, x, ctx.typer, expand=False)
                      if any(y is t for st_ in c.node.body for y in ast.walk(st_))]
                o.refute(qf, x, x, f"the scan of the ledger rows stops early (`{src(x)}` when " + ', '.join(facts.cond_texts(xc))[:80] +
                         "): rows are kept in booking order, not in date order, so bookings made earlier in the run for this day are not counted "
                         "and the day looks free")
                early = True
    if early:
        return
    # every answer must be computed from the rows: a return that reads another structure (a running index / cache) is only
    # equivalent when that structure is keyed by the ledger's day key; an index by a part of the date (day of year, day of
    # month, weekday) merges different calendar days
    accs = {c.acc for c in sites if getattr(c, 'acc', None)}
    for r in [n for n in walk_no_nested(qf.node) if isinstance(n, ast.Return) and n.value is not None]:
        v = exq.expand(r.value)
        from_rows = any(isinstance(n, ast.Attribute) and n.attr == 'rows' for n in ast.walk(v)) or \
            any(isinstance(n, ast.Name) and n.id in accs for n in ast.walk(v))
        if from_rows:
            continue
        idx = []
        for n in ast.walk(v):
            if isinstance(n, ast.Subscript):
                idx.append(n.slice)
            elif isinstance(n, ast.Call) and isinstance(n.func, ast.Attribute) and n.func.attr in ('get', 'setdefault', 'pop') and n.args:
                idx.append(n.args[0])
        day_idx = [i for i in idx if any(isinstance(x, ast.Name) and x.id == qp[2] for x in ast.walk(i))]
        names = set()
        for i in day_idx:
            names |= {x.attr for x in ast.walk(i) if isinstance(x, ast.Attribute)}
            if facts.is_midnight_of(i) is not None:
                names.add('year')
        partial = names & {'tm_yday', 'tm_mday', 'tm_wday', 'tm_mon', 'day', 'month', 'weekday', 'isoweekday', 'hour'}
        whole = names & {'year', 'tm_year', 'toordinal', 'date', 'timestamp', 'isoformat', '_ResourceUsage__get_key', 'isocalendar'}
        pcr = facts.node_conditions(prog, qf, r, ctx.typer)
        task_pinned_none = len(qp) > 3 and any(facts.cond_is(t, p, f"{qp[3]} is None", want=True) for t, p in pcr)
        if len(qp) > 3 and idx and not task_pinned_none and not any(isinstance(x, ast.Name) and x.id == qp[3] for x in ast.walk(v)) \
                and not isinstance(v, ast.Constant):
            o.refute(qf, r, r, f"the ledger answers `{src(v)[:70]}` without looking at `{qp[3]}` on a path that also serves per-task queries "
                               f"(`{qp[3]}` given): with balancing off a task sees the bookings of other tasks (a full day of an unrelated task "
                               f"looks occupied)")
        elif day_idx and partial and not whole:
            o.refute(qf, r, day_idx[0], f"the ledger answers `{src(v)[:80]}` from an index keyed by `{src(day_idx[0])[:60]}`, which is only a part of "
                                        f"the date ({', '.join(sorted(partial))}): bookings of different calendar days share one entry, so free days "
                                        f"look booked (the ledger key is midnight({qp[2]}))")
        elif isinstance(v, ast.Constant):
            pc = facts.node_conditions(prog, qf, r, ctx.typer)
            def _falsy(t, pol):
                while isinstance(t, ast.UnaryOp) and isinstance(t.op, ast.Not):
                    t, pol = t.operand, not pol
                return (t, not pol) if isinstance(t, (ast.IfExp, ast.Attribute, ast.GeneratorExp, ast.ListComp)) else None
            emp = [sched.is_emptiness(t, pol) or _falsy(t, pol) for t, pol in pc]
            if v.value == 0 and any(e and e[1] and any(isinstance(x, ast.Attribute) and x.attr == 'rows' for x in ast.walk(e[0])) for e in emp):
                continue        # `if not self.rows: return 0` / `if not units: return 0` with units collected from the rows
            o.undecided(qf, r, r, f"the ledger query returns the constant `{src(v)}` on some path")
        else:
            o.undecided(qf, r, r, f"the ledger query returns `{src(v)[:80]}`, which is not computed from the booked rows")
    if not sites:
        o.undecided(qf, qf.node, 'reserved', "no iteration over the ledger rows found")
    for c in sites:
        tgt = c.target
        if not match(f"{tgt.id}.units", c.elt):
            o.undecided(qf, c.node, c.node, "iteration over the ledger rows does not collect row.units")
            continue
        atoms = []
        for t, pol in c.conds:
            atoms += facts.split_conj(exq.expand(t, exq.flow.node_of_expr(t) or exq.flow.node_of_expr(c.node)), pol)
        # decision table over R = row.resource == resource, D = row.date == midnight(date), T = task is None, E = row.task == task:
        # the rows summed must be exactly those with R and D and (T or E).  Handles conditional expressions and any nesting of
        # and/or/not; falls back to the atom-wise reading below when an atom is not one of the four.
        if len(qp) > 3:
            pconds = facts.node_conditions(prog, qf, c.node, ctx.typer, expand=True)
            pconds = [(t, p) for t, p in pconds if not any(t is t0 for t0, _ in c.conds)]
            try:
                verdict = None
                for T in (True, False):
                    env0 = dict(T=T, task=qp[3], res=qp[1], day=qp[2], row=tgt.id)
                    if not all(_row_eval(t, dict(env0, R=True, D=True, E=True)) == p for t, p in pconds
                               if not any(isinstance(x, ast.Name) and x.id == tgt.id for x in ast.walk(t))):
                        continue        # this site is not reached for this value of `task is None`
                    for R in (True, False):
                        for D in (True, False):
                            for E in ((False,) if T else (True, False)):
                                env = dict(env0, R=R, D=D, E=E)
                                got = all(_row_eval(a, env) == pol for a, pol in atoms)
                                want = R and D and (T or E)
                                if got and not want and verdict is None:
                                    verdict = ("ledger sum does not filter by resource" if not R else
                                               "ledger sum does not filter by day" if not D else
                                               f"the ledger sum that answers a query for one task (`{qp[3]}` given) does not filter the rows by task: "
                                               f"with balancing off, bookings of other tasks count against the task")
                                elif want and not got and verdict is None:
                                    verdict = ("the ledger sum leaves out rows of the requested resource and day" +
                                               ("" if T else " and task") + ": booked capacity is not counted and the day looks free")
                if verdict:
                    o.refute(qf, c.node, c.node, verdict)
                else:
                    o.site(qf, c.node, "filters: resource, midnight(day), task when given (decision table)")
                continue
            except _BadDay as e:
                o.refute(qf, c.node, e.args[0], f"ledger rows are compared with `{src(e.args[0])}` instead of midnight({qp[2]}): "
                                                f"rows stored under the day key are missed")
                continue
            except _Unknown:
                pass
        has_res = has_day = False
        extra = []
        path_extra = [(t, p) for t, p in facts.node_conditions(prog, qf, c.node, ctx.typer, expand=False)]
        for a, pol in atoms:
            eq = ne = None
            if isinstance(a, ast.Compare) and len(a.ops) == 1 and isinstance(a.ops[0], (ast.Eq, ast.NotEq)):
                l, r = a.left, a.comparators[0]
                positive = isinstance(a.ops[0], ast.Eq) == pol      # the collected rows satisfy l == r
                other = r if match(f"{tgt.id}.$f", l) else (l if match(f"{tgt.id}.$f", r) else None)
                fld = (match(f"{tgt.id}.$f", l) or match(f"{tgt.id}.$f", r) or {}).get('f')
                if other is not None and fld == 'resource' and positive and src(other) == qp[1]:
                    has_res = True
                    continue
                if other is not None and fld == 'date' and positive:
                    dd = facts.is_midnight_of(other)
                    if dd is not None and src(dd) == qp[2]:
                        has_day = True
                    else:
                        o.refute(qf, c.node, a, f"ledger rows are compared with `{src(other)}` instead of midnight({qp[2]}): "
                                                f"rows stored under the day key are missed")
                        has_day = None
                    continue
                if other is not None and fld == 'task' and positive and len(qp) > 3 and src(other) == qp[3]:
                    extra.append('task')
                    continue
            # `task is None or row.task == task` style selector inside the filter, in any equivalent spelling
            if len(qp) > 3:
                try:
                    tt = [_sel_eval(a, T, E, qp[3], tgt.id) == pol for T, E in ((True, None), (False, True), (False, False))]
                except _Unknown:
                    tt = None
                if tt == [True, True, False]:
                    extra.append('task-if-given')
                    continue
                if tt == [True, True, True]:
                    continue
            if len(qp) > 3 and ((match(f"{qp[3]} is None", a) and not pol) or (match(f"{qp[3]} is not None", a) and pol)):
                continue
            o.undecided(qf, c.node, a, "unrecognised row filter")
        if has_day is None:
            continue
        task_none = any(facts.cond_is(t, p, f"{qp[3]} is None", want=True) for t, p in path_extra) if len(qp) > 3 else True
        if len(qp) > 3 and not task_none and not extra and has_res and has_day and \
                not any(isinstance(x, ast.Name) and x.id == qp[3] for t, p in c.conds for x in ast.walk(t)):
            o.refute(qf, c.node, c.node, f"the ledger sum that answers a query for one task (`{qp[3]}` given) does not filter the rows by task: "
                                         f"with balancing off, bookings of other tasks count against the task")
            continue
        if not has_res:
            o.refute(qf, c.node, c.node, "ledger sum does not filter by resource")
        elif not has_day:
            o.refute(qf, c.node, c.node, "ledger sum does not filter by day")
        else:
            o.site(qf, c.node, "filters: resource, midnight(day)" + (", " + extra[0] if extra else ''))


class _BadDay(Exception):
    pass


def _row_eval(e, env):
    """truth value of a ledger row filter under env = {R, D, T, E, task, res, day, row} (see ledger_shape)"""
    row, task, res, day = env['row'], env['task'], env['res'], env['day']
    if isinstance(e, ast.BoolOp):
        is_and = isinstance(e.op, ast.And)
        for v in e.values:
            r = _row_eval(v, env)
            if r is (not is_and):
                return r
        return is_and
    if isinstance(e, ast.UnaryOp) and isinstance(e.op, ast.Not):
        return not _row_eval(e.operand, env)
    if isinstance(e, ast.IfExp):
        return _row_eval(e.body if _row_eval(e.test, env) else e.orelse, env)
    if isinstance(e, ast.Constant) and isinstance(e.value, bool):
        return e.value
    if match(f"{task} is None", e):
        return env['T']
    if match(f"{task} is not None", e):
        return not env['T']
    if isinstance(e, ast.Name) and e.id == task:
        return not env['T']
    if isinstance(e, ast.Compare) and len(e.ops) == 1 and isinstance(e.ops[0], (ast.Eq, ast.NotEq, ast.Is, ast.IsNot)):
        l, r = e.left, e.comparators[0]
        pos = isinstance(e.ops[0], (ast.Eq, ast.Is))
        m = match(f"{row}.$f", l)
        other = r
        if not m:
            m, other = match(f"{row}.$f", r), l
        if m:
            fld = m['f']
            if fld == 'resource' and isinstance(other, ast.Name) and other.id == res:
                return env['R'] == pos
            if fld == 'date':
                dd = facts.is_midnight_of(other)
                if dd is not None and src(dd) == day:
                    return env['D'] == pos
                raise _BadDay(other)
            if fld == 'task' and isinstance(other, ast.Name) and other.id == task:
                if env['T']:
                    return not pos          # no stored row has task None
                return env['E'] == pos
    raise _Unknown(src(e))


def _capacity_helper_defect(ctx, f, call):
    """the capacity is read through a package method instead of `resource.get_available_units(day, task)`: follow it.  A method
    that memoises the calendar answer under a key that does not contain the resource it asked hands one resource the capacity
    another resource reported.  Returns a message, or None (not such a helper / nothing wrong recognised)"""
    prog = ctx.prog
    tg = [ci for ci in ctx.cg.calls_in(f) if ci.kind == 'call' and ci.targets and isinstance(ci.node, ast.Call) and same(ci.node, call)]
    if not tg or len(tg[0].targets) != 1:
        return None
    h = tg[0].targets[0]
    if isinstance(h.node, ast.Lambda) or not h.params:
        return None
    me = h.params[0]
    exh = Expander(prog, h, ctx.typer)
    for st in walk_no_nested(h.node):
        if isinstance(st, ast.Assign) and len(st.targets) == 1 and isinstance(st.targets[0], ast.Subscript):
            tgt = st.targets[0]
            caps = [x for x in ast.walk(st.value) if parse_cap(x)]
            if not caps or not (isinstance(tgt.value, ast.Attribute) and isinstance(tgt.value.value, ast.Name) and tgt.value.value.id == me):
                continue
            rp = caps[0] and parse_cap(caps[0])['r']
            if not (isinstance(rp, ast.Name) and rp.id in h.params):
                continue
            key = exh.expand(tgt.slice, cfg_of(h).node_of(st))
            if not any(isinstance(x, ast.Name) and x.id == rp.id for x in ast.walk(key)):
                return (f"the capacity comes from `{src(call)[:50]}` ({h.qual}), which memoises `{src(caps[0])[:50]}` under the key `{src(key)[:50]}`: "
                        f"the key does not contain the resource `{rp.id}`, so a resource is booked against the capacity another resource reported "
                        f"for that day (more than its own calendar offers)")
    return None


def _capacity_memo_defect(f, amt, ex, d_arg):
    """the capacity in the booked amount is read from a local table (`memo[K]`) that the function fills with
    `memo[K] = resource.get_available_units(day, task)`: the entry stands for the day only if K determines the day.  A key made of
    a part of the date (weekday, day of month, month ...) hands the capacity of one calendar day to every other day that shares
    that part.  Returns a message, or None (no such table / the key is not recognised as partial)"""
    for x in ast.walk(amt):
        if not (isinstance(x, ast.Subscript) and isinstance(x.value, ast.Name) and x.value.id not in f.params):
            continue
        fills = [st for st in walk_no_nested(f.node) if isinstance(st, ast.Assign) and len(st.targets) == 1 and
                 isinstance(st.targets[0], ast.Subscript) and isinstance(st.targets[0].value, ast.Name) and
                 st.targets[0].value.id == x.value.id and any(parse_cap(y) for y in ast.walk(st.value))]
        for st in fills:
            key = ex.expand(st.targets[0].slice, cfg_of(f).node_of(st))
            names = {y.attr for y in ast.walk(key) if isinstance(y, ast.Attribute)}
            if facts.is_midnight_of(key) is not None or same(key, d_arg):
                continue        # keyed by the day itself (whole date)
            partial = names & {'tm_yday', 'tm_mday', 'tm_wday', 'tm_mon', 'day', 'month', 'weekday', 'isoweekday', 'hour'}
            whole = names & {'year', 'tm_year', 'toordinal', 'date', 'timestamp', 'isoformat', 'isocalendar'}
            if partial and not whole:
                cap = next(y for y in ast.walk(st.value) if parse_cap(y))
                return (f"the capacity in the booked amount is read from the table `{x.value.id}`, which keeps `{src(cap)[:60]}` under the key "
                        f"`{src(key)[:40]}` - only a part of the date ({', '.join(sorted(partial))}): every later day that shares it is booked against "
                        f"the capacity the calendar reported for the first such day, not its own (a day the calendar closes or shortens is "
                        f"over-allocated)")
    return None


def _same_day(a, b):
    """the two expressions name the same ledger day: equal, or equal after the midnight normalisation the ledger applies to
    every day it is given (`reserved(r, midnight(d))` and `reserved(r, d)` read the same rows)"""
    if same(a, b):
        return True
    ma, mb = facts.is_midnight_of(a), facts.is_midnight_of(b)
    return same(ma if ma is not None else a, mb if mb is not None else b)


def _sel_eval(e, T, E, task_p, row):
    """truth value of a row-filter atom over T = `<task> is None`, E = `<row>.task == <task>` ('crash' never arises: comparing
    with None is harmless)"""
    if isinstance(e, ast.BoolOp):
        is_and = isinstance(e.op, ast.And)
        for v in e.values:
            r = _sel_eval(v, T, E, task_p, row)
            if r is (not is_and):
                return r
        return is_and
    if isinstance(e, ast.UnaryOp) and isinstance(e.op, ast.Not):
        return not _sel_eval(e.operand, T, E, task_p, row)
    if match(f"{task_p} is None", e):
        return T
    if match(f"{task_p} is not None", e):
        return not T
    if isinstance(e, ast.Name) and e.id == task_p:
        return not T
    for pat, val in ((f"{row}.task == {task_p}", True), (f"{task_p} == {row}.task", True), (f"{row}.task is {task_p}", True),
                     (f"{row}.task != {task_p}", False), (f"{task_p} != {row}.task", False), (f"{row}.task is not {task_p}", False)):
        if match(pat, e):
            if T:
                return (not val)        # task is None: no stored row has task None, so `row.task == None` is False
            return E if val else (not E)
    raise _Unknown(src(e))


def _collects(f):
    """facts.collects plus running totals written as plain assignments: `acc = acc + E` / `acc = E + acc` inside a for loop"""
    out = list(facts.collects(f))
    cfg = cfg_of(f)
    for n in walk_no_nested(f.node):
        if not isinstance(n, ast.For):
            continue
        hdr = cfg.node_of(n)
        for st in walk_no_nested(n):
            if isinstance(st, ast.Assign) and len(st.targets) == 1 and isinstance(st.targets[0], ast.Name) and \
                    isinstance(st.value, ast.BinOp) and isinstance(st.value.op, ast.Add):
                acc = st.targets[0].id
                l, r = st.value.left, st.value.right
                elt = r if isinstance(l, ast.Name) and l.id == acc else (l if isinstance(r, ast.Name) and r.id == acc else None)
                if elt is None:
                    continue
                inner = [x for x in walk_no_nested(n) if isinstance(x, ast.For) and x is not n and any(y is st for y in ast.walk(x))]
                sn = cfg.node_of(st)
                if inner or sn is None or hdr is None:
                    continue
                conds = [(t, p) for t, p in cfg.conditions(sn)
                         if cfg.node_containing(t) is not None and cfg.dominates(hdr, cfg.node_containing(t)) and cfg.node_containing(t) is not hdr]
                out.append(facts.Collect(n, elt, n.target, n.iter, conds, acc, 'loop'))
    return out


def _origin_nodes(f, sub):
    """cfg nodes of all original expressions of f that are structurally equal to the (expanded) sub-expression"""
    fl = flow_of(f)
    out = []
    for n in walk_no_nested(f.node):
        if type(n) is type(sub) and same(n, sub):
            cn = fl.node_of_expr(n)
            if cn is not None and cn not in out:
                out.append(cn)
    return out


def _origin_node(f, amount_expr, sub, ex):
    """cfg node in which the (expanded) sub-expression `sub` was originally evaluated: sub comes from an expansion,
    so locate an original expression in f that is structurally equal"""
    fl = flow_of(f)
    for n in walk_no_nested(f.node):
        if type(n) is type(sub) and same(n, sub):
            cn = fl.node_of_expr(n)
            if cn is not None:
                return cn
    return None


def resource_table(ctx, o, Ss, check_result=True):
    """both passes register the task's resource by name with a fresh default Resource; calc returns the table; __init__ keys it by name"""
    prog = ctx.prog
    for S in Ss:
        f = prog.func(S['pass_'])
        cfg = cfg_of(f)
        found = []
        exf0 = Expander(prog, f, ctx.typer)
        for c in facts.calls_named(f, 'setdefault'):
            m = match(f"self.{S['resources']}.setdefault($k, Resource($k2))", c)
            if m:
                found.append((c, m))
                continue
            m = match(f"self.{S['resources']}.setdefault($k, $v)", c)
            if m:
                v = exf0.expand(m['v'], cfg.node_containing(c))
                mod_vars = {t_.id for st_ in f.module.tree.body if isinstance(st_, (ast.Assign, ast.AnnAssign))
                            for t_ in (st_.targets if isinstance(st_, ast.Assign) else [st_.target]) if isinstance(t_, ast.Name)} - {'DEFAULT_CALENDAR'}
                glob = [x for x in ast.walk(v) if isinstance(x, ast.Name) and x.id in mod_vars and x.id not in f.params]
                if glob:
                    found.append((c, None))
                    o.refute(f, c, c, f"the default resource is taken from the module-level `{glob[0].id}` (`{src(v)[:60]}`): one Resource object per "
                                      f"name is shared by every scheduler and calc() call in the process, so a resource edited after one schedule "
                                      f"is no longer the default Monday-Friday 8-unit resource of the next")
                    continue
                if isinstance(v, ast.Name) and v.id not in f.params and not flow_of(f).defs_of(v.id):
                    found.append((c, None))
                    o.refute(f, c, c, f"every resource name nobody supplied is registered as the one shared object `{v.id}` instead of a Resource "
                                      f"of its own: different names share one identity in the usage ledger (they compete for one capacity), and "
                                      f"the result contains no resource with the task's name")
                    continue
                if isinstance(v, ast.Call) and isinstance(v.func, ast.Name) and v.func.id == 'Resource':
                    extra = list(v.args[1:]) + [k.value for k in v.keywords if k.arg != 'name']
                    name_arg = v.args[0] if v.args else next((k.value for k in v.keywords if k.arg == 'name'), None)
                    if extra and not all(isinstance(x, ast.Name) and x.id == 'DEFAULT_CALENDAR' for x in extra):
                        found.append((c, None))
                        o.refute(f, c, c, f"the default resource is created as `{src(v)[:70]}`: with an explicit calendar instead of the default "
                                          f"Monday-Friday 8-unit calendar")
                    elif name_arg is not None:
                        found.append((c, {'k': m['k'], 'k2': name_arg}))
                elif isinstance(m['v'], ast.Call):
                    # the default comes from a package helper: follow it.  A helper that answers from module-level / class-level
                    # state (a cache of default resources) hands the SAME Resource object to every scheduler and calc() call
                    tg = [ci for ci in ctx.cg.calls_in(f) if ci.node is m['v'] and ci.kind == 'call' and ci.targets]
                    if len(tg) == 1 and len(tg[0].targets) == 1:
                        h = tg[0].targets[0]
                        exh = Expander(prog, h, ctx.typer)
                        mod_names = {t_.id for st_ in h.module.tree.body if isinstance(st_, (ast.Assign, ast.AnnAssign))
                                     for t_ in (st_.targets if isinstance(st_, ast.Assign) else [st_.target]) if isinstance(t_, ast.Name)}
                        shared, fresh, other = [], [], []
                        for r_ in [n for n in walk_no_nested(h.node) if isinstance(n, ast.Return) and n.value is not None]:
                            rv = exh.expand(r_.value)
                            roots = {x.id for x in ast.walk(rv) if isinstance(x, ast.Name) and x.id in mod_names and x.id not in h.params
                                     and x.id != 'DEFAULT_CALENDAR'}
                            if roots:
                                shared.append((r_, sorted(roots)[0]))
                            elif isinstance(rv, ast.Call) and isinstance(rv.func, ast.Name) and rv.func.id == 'Resource' and len(rv.args) == 1 \
                                    and not rv.keywords and isinstance(rv.args[0], ast.Name) and rv.args[0].id in h.params:
                                fresh.append(r_)
                            else:
                                other.append(r_)
                        if shared:
                            found.append((c, None))
                            o.refute(f, c, c, f"the default resource comes from `{src(m['v'])[:50]}`, which answers from the module-level "
                                              f"`{shared[0][1]}` ({h.qual}): one Resource object per name is shared by every scheduler and calc() call "
                                              f"in the process, so a resource edited after one schedule is no longer the default Monday-Friday "
                                              f"8-unit resource of the next")
                        elif fresh and not other and len(m['v'].args) == 1:
                            pi = h.params.index(exh.expand(fresh[0].value).args[0].id)
                            if pi == 0:
                                found.append((c, {'k': m['k'], 'k2': m['v'].args[0]}))
        membership_form = set()
        for n in walk_no_nested(f.node):
            # `if k not in self.R: self.R[k] = Resource(k)`  ==  self.R.setdefault(k, Resource(k))
            if isinstance(n, ast.Assign) and len(n.targets) == 1:
                mt = match(f"self.{S['resources']}[$k]", n.targets[0])
                mv = match("Resource($k2)", exf0.expand(n.value, cfg.node_of(n)))
                if mt and mv:
                    found.append((n, {'k': mt['k'], 'k2': mv['k2']}))
                    membership_form.add(id(n))
        if not found:
            # spelled otherwise (subscript store under `not in`, dict.get + store, registration moved to calc / a helper)?
            registering = [n for fq in prog.all_funcs() if fq.cls == S['cls'] and fq.name != '__init__' for n in walk_no_nested(fq.node)
                           if (isinstance(n, ast.Subscript) and isinstance(n.ctx, ast.Store) and isinstance(n.value, ast.Attribute) and n.value.attr == S['resources'])
                           or (isinstance(n, ast.Call) and isinstance(n.func, ast.Attribute) and n.func.attr in ('setdefault', 'update', '__setitem__')
                               and isinstance(n.func.value, ast.Attribute) and n.func.value.attr == S['resources'])]
            if registering:
                o.undecided(f, f.node, 'setdefault', f"resources are registered in a form the rule does not follow (`{src(registering[0])[:60]}`)")
            else:
                o.refute(f, f.node, 'setdefault', f"no `self.{unmangle(S['resources'])}.setdefault(task.resource, Resource(task.resource))` in the pass "
                                                  f"(and no other store into the resource table): resources named by tasks are not registered")
            continue
        task_p = f.params[1]
        exf = Expander(prog, f, ctx.typer)
        for c, m in found:
            if m is None:
                continue
            cn_ = cfg.node_containing(c)
            k1, k2 = exf.expand(m['k'], cn_), exf.expand(m['k2'], cn_)
            if not (match(f"{task_p}.resource", k1) and same(k1, k2)):
                o.refute(f, c, c, "resource table is not keyed by the task's resource name / default resource gets another name")
                continue
            conds = facts.node_conditions(prog, f, c, ctx.typer, expand=True)
            body0 = [s_ for s_ in f.body if not (isinstance(s_, ast.Expr) and isinstance(s_.value, ast.Constant))]
            entry = body0[0] if body0 and isinstance(body0[0], ast.If) and not body0[0].orelse and body0[0].body and \
                isinstance(body0[0].body[-1], ast.Return) else None
            if entry is not None:
                # the early return that opens the pass (the memo test, in whatever form it is kept) guards everything below it
                raw = [(t, p) for t, p in cfg.conditions(cn_) if not (t is entry.test and not p)]
                conds = []
                for t, p in raw:
                    conds += facts.split_conj(exf.expand(t, cfg.node_containing(t)), p)
            others = [(t, p) for t, p in conds if not facts.cond_is(t, p, f"{task_p}.id in $c", want=False)]
            if id(c) in membership_form:
                guard = [(t, p) for t, p in others if (lambda mm: mm is not None and same(exf.expand(mm['k'], cn_), k1))(
                    facts.cond_is(t, p, f"$k in self.{S['resources']}", want=False))]
                if not guard:
                    o.refute(f, c, c, "the resource table entry of the task's resource is overwritten with a fresh default resource "
                                      "(store not guarded by `name not in table`): a resource supplied by the caller is replaced")
                    continue
                others = [x for x in others if x not in guard]
            if others:
                o.refute(f, c, c, "default resource registration is conditional (" + ', '.join(facts.cond_texts(others)) +
                         "): a resource named only by a summary or milestone task would be missing from the result")
            else:
                o.site(f, c, src(c))
            # the resource handed to search / fill is this one
        calc = prog.func(S['calc'])
        rets = [n for n in walk_no_nested(calc.node) if isinstance(n, ast.Return)] if check_result else []
        okret = not check_result
        for r in rets:
            if isinstance(r.value, ast.Call) and getattr(r.value.func, 'id', '') == 'Schedule' and len(r.value.args) >= 3:
                ex = Expander(prog, calc, ctx.typer)
                a1 = ex.expand(r.value.args[1])
                if match(f"list(self.{S['resources']}.values())", a1):
                    okret = True
                    o.site(calc, r, 'resources=' + src(a1))
                else:
                    o.refute(calc, r, r.value.args[1], "Schedule.resources is not list(self.__resources.values())")
                    okret = True
        if not okret:
            o.undecided(calc, calc.node, 'return', "calc does not return Schedule(clone, resources, report) positionally")
        init = prog.func(S['init'])
        ok = False
        for st, tgt, val in facts.attr_stores(init, S['resources']):
            m = match("{} if $p is None else {$r.name: $r for $r in $p}", val) or \
                match("{$r.name: $r for $r in $p} if $p is not None else {}", val) or \
                match("{$r.name: $r for $r in $p} if $p else {}", val)
            exi = Expander(prog, init, ctx.typer)
            vx = exi.expand(val, cfg_of(init).node_of(st))
            m = m or match("{} if $p is None else {$r.name: $r for $r in $p}", vx) or \
                match("{$r.name: $r for $r in $p} if $p is not None else {}", vx) or \
                match("{$r.name: $r for $r in $p} if $p else {}", vx) or match("{$r.name: $r for $r in $p or []}", vx) or \
                match("{$r.name: $r for $r in $p or ()}", vx)
            dcs = [n for n in ast.walk(vx) if isinstance(n, ast.DictComp)]
            if not m and (match("{}", vx) or match("dict()", vx)):
                # empty table filled by a loop: `for r in resources [or []]: self.R[r.name] = r`
                for lp in [n for n in walk_no_nested(init.node) if isinstance(n, ast.For) and isinstance(n.target, ast.Name)]:
                    src_ok = any(isinstance(x, ast.Name) and x.id in init.params for x in ast.walk(lp.iter))
                    sts_ = [x for x in lp.body if isinstance(x, ast.Assign) and len(x.targets) == 1 and
                            match(f"self.{S['resources']}[{lp.target.id}.name]", x.targets[0]) and match(lp.target.id, x.value)]
                    if src_ok and len(sts_) == 1 and len(lp.body) == 1:
                        m = {'loop': lp}
            if m:
                ok = True
                o.site(init, st, src(val))
            elif dcs and not any(match("$r.name", n.key) and isinstance(n.value, ast.Name) and match("$r.name", n.key)['r'].id == n.value.id for n in dcs):
                o.refute(init, st, val, f"resource table is `{src(vx)[:70]}`: not keyed {{r.name: r}} (tasks find their resource by name)")
                ok = True
            else:
                o.undecided(init, st, val, f"resource table is initialised as `{src(vx)[:70]}`, a form the rule does not follow")
                ok = True
        if not ok:
            o.undecided(init, init.node, '__init__', "resource table initialisation not found")


def _calendar_kept(ctx, o, rinit):
    """the resource answers from the calendar it was given.  Storing a copy (`calendar.clone()`) is the same only if the copy is
    complete: a clone() that does not hand every constructor parameter the instance stores verbatim back to the constructor
    (e.g. the validity bounds start / end of a weekly calendar) yields a calendar that offers capacity on other days."""
    prog = ctx.prog
    ex = Expander(prog, rinit, ctx.typer)
    for st, tgt, val in facts.attr_stores(rinit):
        if 'calendar' not in tgt.attr:
            continue
        v = ex.expand(val, cfg_of(rinit).node_of(st))
        for conds, case in sched.expr_cases(v):
            if not (isinstance(case, ast.Call) and isinstance(case.func, ast.Attribute) and case.func.attr == 'clone' and not case.args):
                continue
            only = [m_['c'].id for t_, p_ in conds for m_ in [match("isinstance($x, $c)", t_)] if m_ and p_ and isinstance(m_['c'], ast.Name)]
            classes = [ci for ci in prog.subclasses('IWorkCalendar') if 'clone' in ci.methods and (not only or ci.name in only)]
            for ci in classes:
                cl, init = ci.methods['clone'], ci.methods.get('__init__')
                if init is None:
                    continue
                kept = []
                for n in walk_no_nested(init.node):
                    if isinstance(n, ast.Assign) and isinstance(n.value, ast.Name) and n.value.id in init.params[1:] and \
                            any(isinstance(t, ast.Attribute) and isinstance(t.value, ast.Name) and t.value.id == init.params[0] for t in n.targets):
                        kept.append(n.value.id)
                rets = [r for r in walk_no_nested(cl.node) if isinstance(r, ast.Return) and r.value is not None]
                for r in rets:
                    rv = Expander(prog, cl, ctx.typer).expand(r.value)
                    if not (isinstance(rv, ast.Call) and isinstance(rv.func, ast.Name) and rv.func.id == ci.name):
                        continue
                    if any(isinstance(a_, ast.Starred) for a_ in rv.args) or any(k.arg is None for k in rv.keywords):
                        continue
                    # (the normaliser may have made keywords positional and filled skipped parameters with their defaults)
                    passed = {p_ for p_, a_ in zip(init.params[1:], rv.args) if not (isinstance(a_, ast.Constant) and a_.value is None)} | \
                        {k.arg for k in rv.keywords if not (isinstance(k.value, ast.Constant) and k.value.value is None)}
                    missing = [p_ for p_ in kept if p_ not in passed]
                    if missing:
                        o.refute(rinit, st, st, f"the resource keeps `{src(case)}` instead of the calendar it was given, and {ci.name}.clone() builds "
                                                f"`{src(rv)[:60]}` without {', '.join(missing)}: the copy of a calendar with these settings offers "
                                                f"capacity on days the given calendar does not (work is booked there)")
                    else:
                        o.site(rinit, st, f"{ci.name}.clone() passes every stored constructor parameter")


def default_calendar(ctx, o):
    """Resource() defaults to DEFAULT_CALENDAR = Monday-Friday, 8 units, and the calendar's public accessors hand out copies"""
    prog = ctx.prog
    # DEFAULT_CALENDAR is one shared object: a public accessor that returns its internal weekday table itself (not a copy) lets
    # any caller change the calendar of every default-created resource
    try:
        wc = prog.cls('WeeklyCalendar')
    except Exception:
        wc = None
    if wc is not None and '__init__' in wc.methods:
        init = wc.methods['__init__']
        tables = set()
        for n in walk_no_nested(init.node):
            if isinstance(n, ast.Assign) and isinstance(n.value, (ast.Dict, ast.List, ast.DictComp, ast.ListComp)):
                for t in n.targets:
                    if isinstance(t, ast.Attribute) and isinstance(t.value, ast.Name) and t.value.id == init.params[0]:
                        tables.add(t.attr)
        funcs = [f_ for f_ in prog.all_funcs() if f_.cls == 'WeeklyCalendar' and f_.name != '__init__']
        leaky = {}
        for _ in range(3):
            for f_ in funcs:
                if f_.qual in leaky or not f_.params:
                    continue
                me = f_.params[0]
                for r_ in [n for n in walk_no_nested(f_.node) if isinstance(n, ast.Return) and n.value is not None]:
                    v = r_.value
                    if isinstance(v, ast.Name):
                        d_ = flow_of(f_).unique_def(v.id, cfg_of(f_).node_of(r_))
                        v = d_.value if d_ is not None and d_.value is not None else v
                    names = {lq[0].name for lq in leaky.values()}
                    raw = isinstance(v, ast.Attribute) and isinstance(v.value, ast.Name) and v.value.id == me and \
                        (v.attr in tables or v.attr in names)
                    viacall = isinstance(v, ast.Call) and isinstance(v.func, ast.Attribute) and isinstance(v.func.value, ast.Name) and \
                        v.func.value.id == me and not v.args and v.func.attr in names
                    if raw or viacall:
                        leaky[f_.qual] = (f_, r_, v)
        n_pub = 0
        for q, (f_, r_, v) in sorted(leaky.items()):
            if not f_.name.startswith('_'):
                n_pub += 1
                o.refute(f_, r_, r_, f"WeeklyCalendar.{f_.name} returns the calendar's internal weekday table itself (`{src(v)}`), not a copy: a caller "
                                     f"editing the result changes DEFAULT_CALENDAR, i.e. the calendar of every default-created resource "
                                     f"(no longer Monday-Friday, 8 units)")
        if not n_pub:
            o.site(init, init.node, "no public accessor of WeeklyCalendar returns its internal table")
    rinit = prog.func('resource.Resource.__init__')
    _calendar_kept(ctx, o, rinit)
    a = rinit.node.args
    defaults = dict(zip([x.arg for x in a.args][-len(a.defaults):], a.defaults)) if a.defaults else {}
    d = defaults.get('calendar')
    if isinstance(d, ast.Name) and d.id == 'DEFAULT_CALENDAR':
        o.site(rinit, rinit.node, 'calendar=DEFAULT_CALENDAR')
    elif isinstance(d, ast.Constant) and d.value is None:
        # None default resolved in the body: `if calendar is None: calendar = DEFAULT_CALENDAR` / conditional expression
        exr = Expander(prog, rinit, ctx.typer)
        stores = [(st_, exr.expand(v_, cfg_of(rinit).node_of(st_))) for st_, t_, v_ in facts.attr_stores(rinit) if 'calendar' in t_.attr]
        good_ = [st_ for st_, v_ in stores if match("DEFAULT_CALENDAR if calendar is None else calendar", v_) or
                 match("calendar if calendar is not None else DEFAULT_CALENDAR", v_)]
        if good_:
            o.site(rinit, good_[0], 'calendar=None -> DEFAULT_CALENDAR')
        elif any('DEFAULT_CALENDAR' in src(v_) for st_, v_ in stores):
            o.undecided(rinit, rinit.node, 'calendar default', "Resource() resolves a missing calendar in a form the rule does not follow")
        else:
            o.refute(rinit, rinit.node, 'calendar default', "Resource() does not default to DEFAULT_CALENDAR")
    elif d is None:
        o.refute(rinit, rinit.node, 'calendar default', "Resource() has no default calendar: the default resource created by the schedulers cannot be built")
    elif isinstance(d, ast.Call):
        o.refute(rinit, rinit.node, 'calendar default', f"Resource() defaults to `{src(d)[:60]}`, not to DEFAULT_CALENDAR (Monday-Friday, 8 units)")
    else:
        o.undecided(rinit, rinit.node, 'calendar default', f"Resource() defaults its calendar to `{src(d)[:60]}`")
    cal = prog.module('calendar')
    dc = None
    for st in cal.tree.body:
        if isinstance(st, ast.Assign) and any(isinstance(t, ast.Name) and t.id == 'DEFAULT_CALENDAR' for t in st.targets):
            dc = st
    if dc is None:
        o.fail("DEFAULT_CALENDAR not found")
        return
    kw = {k.arg: k.value for k in dc.value.keywords} if isinstance(dc.value, ast.Call) else {}
    try:
        days = sorted(ast.literal_eval(kw['days']))
        units = ast.literal_eval(kw['units_per_day'])
    except Exception:
        days = units = None
    if getattr(dc.value.func, 'id', None) == 'WeeklyCalendar' and days == [0, 1, 2, 3, 4] and units == 8 \
            and 'start' not in kw and 'end' not in kw:
        o.site(None, None, f"calendar.py:{dc.lineno} DEFAULT_CALENDAR = Monday-Friday, 8 units")
    else:
        o.refute(None, dc, dc.value, "DEFAULT_CALENDAR is not WeeklyCalendar(days=[0..4], units_per_day=8)")
