"""C03 - schedules never over-allocate a resource.   (DESIGN.md section 5, C03)

Decided structurally at the call sites of the usage ledger (`_ResourceUsage.reserve`), the two availability searches,
the ledger itself, the report and the resource table.  Numeric outcomes are not decided.
"""
from __future__ import annotations

import ast

from sa import facts
from sa.cfg import cfg_of
from sa.effects import Effects
from sa.flow import flow_of, Expander
from sa.model import walk_no_nested, src, unmangle
from sa.pat import match, same
from sa.types import base
from . import sched
from .sched import BOTH, parse_free, parse_cap, parse_resv


def check(ctx):
    prog = ctx.prog
    ctx.assume("custom IResource implementations honour get_available_units as a pure function of (date, task)")
    ctx.assume("term expansion assumes no aliasing writes between a definition and its use inside one function")
    sites = sched.all_reserve_sites(ctx)

    # ------------------------------------------------------------------------------------------------ amount <= free
    o = ctx.ob('amount_le_free', 'R8',
               "every ledger reservation books min(.., CAP(r,d) - RESV(r,d,sel)) for the same resource, the same version of "
               "the day and the selector 'all tasks when balancing, own task otherwise'", floor=2)
    o2 = ctx.ob('amount_positive', 'R8',
                "every ledger reservation is dominated by free > 0 (same free term) and by the loop guard remaining > 0, "
                "and books min(remaining, free), hence a positive amount", floor=2)
    o3 = ctx.ob('reserve_args', 'R8', "the reservation row names the task's resource, the tested day and the task itself", floor=2)
    for f, c in sites:
        S = next((s for s in BOTH if f.qual.startswith('schedule.' + s['cls'] + '.')), None)
        if S is None or len(c.args) != 4:
            o.undecided(f, c, c, "reservation outside the two schedulers or with an unexpected argument list")
            continue
        ex = Expander(prog, f, ctx.typer)
        fl = flow_of(f)
        cn = fl.node_of_expr(c)
        r_arg, d_arg, t_arg, amount = c.args
        amt = ex.expand(amount, cn)
        margs = facts.flatten_lattice(amt, 'min')
        frees = []
        if margs is not None:
            for a in margs:
                fr = parse_free(a, S['balance'])
                if fr:
                    frees.append(fr)
        if margs is None or not frees:
            # recognised shapes without a capacity bound: a bare name / arithmetic on the remaining work
            o.refute(f, c, amount, f"reserved amount `{src(amt)}` is not bounded by the free capacity "
                                   f"CAP(resource, day) - RESV(resource, day): expected min(remaining, free)")
            continue
        fr = frees[0]
        cap, resv = fr['cap'], fr['resv']
        bad = []
        if not (same(cap['r'], r_arg) and same(resv['r'], r_arg)):
            bad.append("capacity/ledger queried for a different resource than the one booked")
        if not (same(cap['d'], d_arg) and same(resv['d'], d_arg)):
            bad.append("capacity/ledger queried for a different day expression than the one booked")
        if not same(resv['u'], c.func.value):
            bad.append("free capacity computed from a different ledger than the one booked")
        if resv['kind'] in ('task', 'sel-inverted'):
            bad.append(f"ledger sum uses selector `{resv['kind']}`: with balancing on, other tasks' bookings are ignored")
        elif resv['kind'] == 'sel-other':
            o.undecided(f, c, amount, "ledger selector is a conditional the rule does not recognise")
            continue
        # same version of the day variable between the capacity read, the ledger read and the booking
        dpath = facts.attr_path(d_arg) if hasattr(facts, 'attr_path') else None
        from sa.pat import attr_path
        dpath = attr_path(d_arg)
        if dpath:
            for sub, what in ((cap['node'], 'capacity'), (resv['node'], 'ledger sum')):
                origin = _origin_node(f, amount, sub, ex)
                if origin is not None and not fl.same_version(dpath, origin, cn):
                    bad.append(f"the day variable `{dpath}` is redefined between the {what} read and the booking")
        if bad:
            for b in bad:
                o.refute(f, c, amount, b)
        else:
            o.site(f, c, f"amount = {src(amt)[:90]}")

        # ---- positivity
        conds = facts.node_conditions(prog, f, c, ctx.typer)
        free_pos = None
        for t, pol in conds:
            pt = sched.sign_test(t, pol)
            if pt and parse_free(pt[0], S['balance']) and same(pt[0], fr['node']):
                if free_pos is None or pt[1] == '>':
                    free_pos = pt[1]
        if free_pos is None:
            # is there a test on the same free term with a wrong comparator / polarity?
            o2.refute(f, c, c, "the booking is not guarded by `free > 0` on the same free-capacity term")
        elif free_pos != '>':
            o2.refute(f, c, c, f"the booking is guarded by `free {free_pos} 0` instead of `free > 0`: zero/negative amounts can be booked")
        else:
            loop = sched.while_loop_of(f, c)
            rem = None
            for a in (margs or []):
                if not parse_free(a, S['balance']):
                    rem = a
            lt = sched.sign_test(loop.test) if loop is not None else None
            if loop is None or lt is None or lt[1] != '>' or rem is None or not same(lt[0], rem) or len(margs) != 2:
                o2.refute(f, c, c, "the other operand of min(..) is not the remaining work tested `> 0` by the enclosing loop")
            else:
                o2.site(f, c, f"guards: {src(fr['node'])[:60]} > 0 and {src(lt[0])} > 0")

        # ---- row content
        ok = True
        if not (isinstance(t_arg, ast.Name) and ctx.typer.expr_type(t_arg, f) == 'Task'):
            ok = False
        if cap['t'] is not None and not same(cap['t'], t_arg):
            ok = False
        if resv.get('t') is not None and not same(resv['t'], t_arg):
            ok = False
        if ok:
            o3.site(f, c, f"row=({src(r_arg)}, {src(d_arg)}, {src(t_arg)})")
        else:
            o3.refute(f, c, c, "the booked row names a task different from the one whose capacity / bookings were read")

    # ------------------------------------------------------------------------------------------------ same day key
    o = ctx.ob('ledger_day_key', 'R10',
               "the ledger stores midnight(day) and both query branches compare the stored day with midnight(day) and the resource", floor=2)

    ctx.guarded(o, lambda o: ledger_shape(ctx, o))

    # ------------------------------------------------------------------------------------------------ resource table
    o = ctx.ob('resource_by_name', 'R5',
               "in both passes the resource is self.__resources.setdefault(task.resource, Resource(task.resource)), on every "
               "path of the pass that schedules the task, and calc returns list(self.__resources.values())", floor=6)

    def table(o):
        for S in BOTH:
            f = prog.func(S['pass_'])
            cfg = cfg_of(f)
            found = []
            for c in facts.calls_named(f, 'setdefault'):
                m = match(f"self.{S['resources']}.setdefault($k, Resource($k2))", c)
                if m:
                    found.append((c, m))
            if not found:
                o.refute(f, f.node, 'setdefault', f"no `self.{unmangle(S['resources'])}.setdefault(task.resource, Resource(task.resource))` in the pass: "
                                                  f"resources named by tasks are not registered")
                continue
            task_p = f.params[1]
            for c, m in found:
                if not (match(f"{task_p}.resource", m['k']) and same(m['k'], m['k2'])):
                    o.refute(f, c, c, "resource table is not keyed by the task's resource name / default resource gets another name")
                    continue
                conds = facts.node_conditions(prog, f, c, ctx.typer, expand=False)
                others = [(t, p) for t, p in conds if not (match(f"{task_p}.id in $c", t) and not p)]
                if others:
                    o.refute(f, c, c, "default resource registration is conditional (" + ', '.join(facts.cond_texts(others)) +
                             "): a resource named only by a summary or milestone task would be missing from the result")
                else:
                    o.site(f, c, src(c))
                # the resource handed to search / fill is this one
            calc = prog.func(S['calc'])
            rets = [n for n in walk_no_nested(calc.node) if isinstance(n, ast.Return)]
            okret = False
            for r in rets:
                if isinstance(r.value, ast.Call) and getattr(r.value.func, 'id', '') == 'Schedule' and len(r.value.args) >= 3:
                    ex = Expander(prog, calc, ctx.typer)
                    a1 = ex.expand(r.value.args[1])
                    if match(f"list(self.{S['resources']}.values())", a1):
                        okret = True
                        o.site(calc, r, 'resources=' + src(a1))
                    else:
                        o.refute(calc, r, r.value.args[1], "Schedule.resources is not list(self.__resources.values())")
                        okret = True
            if not okret:
                o.undecided(calc, calc.node, 'return', "calc does not return Schedule(clone, resources, report) positionally")
            init = prog.func(S['init'])
            ok = False
            for st, tgt, val in facts.attr_stores(init, S['resources']):
                m = match("{} if $p is None else {$r.name: $r for $r in $p}", val) or \
                    match("{$r.name: $r for $r in $p} if $p is not None else {}", val) or \
                    match("{$r.name: $r for $r in $p} if $p else {}", val)
                if m:
                    ok = True
                    o.site(init, st, src(val))
                else:
                    o.refute(init, st, val, "resource table is not {r.name: r for r in resources}")
                    ok = True
            if not ok:
                o.undecided(init, init.node, '__init__', "resource table initialisation not found")
        rinit = prog.func('resource.Resource.__init__')
        a = rinit.node.args
        defaults = dict(zip([x.arg for x in a.args][-len(a.defaults):], a.defaults)) if a.defaults else {}
        d = defaults.get('calendar')
        if not (isinstance(d, ast.Name) and d.id == 'DEFAULT_CALENDAR'):
            o.refute(rinit, rinit.node, 'calendar default', "Resource() does not default to DEFAULT_CALENDAR")
        else:
            o.site(rinit, rinit.node, 'calendar=DEFAULT_CALENDAR')
        cal = prog.module('calendar')
        dc = None
        for st in cal.tree.body:
            if isinstance(st, ast.Assign) and any(isinstance(t, ast.Name) and t.id == 'DEFAULT_CALENDAR' for t in st.targets):
                dc = st
        if dc is None:
            o.fail("DEFAULT_CALENDAR not found")
            return
        kw = {k.arg: k.value for k in dc.value.keywords} if isinstance(dc.value, ast.Call) else {}
        try:
            days = sorted(ast.literal_eval(kw['days']))
            units = ast.literal_eval(kw['units_per_day'])
        except Exception:
            days = units = None
        if getattr(dc.value.func, 'id', None) == 'WeeklyCalendar' and days == [0, 1, 2, 3, 4] and units == 8 \
                and 'start' not in kw and 'end' not in kw:
            o.site(None, None, f"calendar.py:{dc.lineno} DEFAULT_CALENDAR = Monday-Friday, 8 units")
        else:
            o.refute(None, dc, dc.value, "DEFAULT_CALENDAR is not WeeklyCalendar(days=[0..4], units_per_day=8)")
    ctx.guarded(o, table)

    # ------------------------------------------------------------------------------------------------ None -> 0, pure
    o = ctx.ob('capacity_none_is_zero', 'R8',
               "Resource.get_available_units returns 0 when the calendar has no information, the calendar value otherwise, "
               "and keeps no state (a memo would freeze capacities across calendar changes)", floor=2)

    def cap(o):
        f = prog.func('resource.Resource.get_available_units')
        eff = Effects(prog, ctx.typer, ctx.cg)
        ws = [w for w in eff.direct_writes(f) if w.root != 'fresh']
        for w in ws:
            o.refute(f, w.node, w.node, f"get_available_units writes state ({unmangle(w.field)}): capacity becomes history dependent")
        rets = [n for n in walk_no_nested(f.node) if isinstance(n, ast.Return)]
        ex = Expander(prog, f, ctx.typer)
        good = 0
        for r in rets:
            v = ex.expand(r.value)
            m = match("0 if $u is None else $u", v) or match("$u if $u is not None else 0", v) or match("$u or 0", v)
            if m and match("self.calendar.get_available_units($d)", m['u']) and src(match(
                    "self.calendar.get_available_units($d)", m['u'])['d']) == f.params[1]:
                good += 1
                o.site(f, r, src(v))
            else:
                conds = facts.node_conditions(prog, f, r, ctx.typer)
                # if/else form:  if units is None: return 0 ; return units
                if isinstance(v, ast.Constant) and v.value == 0 and any(match("$u is None", t) and p for t, p in conds):
                    good += 1
                    o.site(f, r, 'return 0 under `is None`')
                elif match("self.calendar.get_available_units($d)", v) and any(match("$u is None", t) and not p for t, p in conds):
                    good += 1
                    o.site(f, r, 'return units under `is not None`')
                else:
                    o.refute(f, r, r, f"get_available_units returns `{src(v)}`: not `0 if calendar value is None else calendar value`")
        if not ws and good:
            o.site(f, f.node, 'no state written')
    ctx.guarded(o, cap)

    # ------------------------------------------------------------------------------------------------ report
    o = ctx.ob('report_agrees_with_rows', 'R10',
               "the report is built from the ledger's own row list; rows() filters that list only by the caller's predicate; "
               "reserved() sums units of the rows matching resource and date", floor=4)

    def report(o):
        for S in BOTH:
            calc = prog.func(S['calc'])
            ex = Expander(prog, calc, ctx.typer)
            for r in [n for n in walk_no_nested(calc.node) if isinstance(n, ast.Return)]:
                if isinstance(r.value, ast.Call) and len(r.value.args) >= 3:
                    a2 = ex.expand(r.value.args[2])
                    m = match("ResourceUsageReport($x.rows)", a2)
                    if m and match("_ResourceUsage()", m['x']):
                        # the same ledger object must be the one handed to the pass: follow hoisted locals to the
                        # ResourceUsageReport(<name>.rows) call and compare the definition of <name> at both places
                        fl = flow_of(calc)
                        cfgc = fl.cfg
                        rep, at = r.value.args[2], cfgc.node_of(r)
                        hops = 0
                        while isinstance(rep, ast.Name) and hops < 5:
                            d = fl.unique_def(rep.id, at)
                            if d is None or d.value is None:
                                break
                            rep, at, hops = d.value, d.node, hops + 1
                        led = rep.args[0].value if isinstance(rep, ast.Call) and rep.args and isinstance(rep.args[0], ast.Attribute) else None
                        led_def = fl.unique_def(led.id, at) if isinstance(led, ast.Name) else None
                        passed = [c for f2, c in sched.pass_call_sites(ctx, S) if f2 is calc]
                        if led_def is not None and passed and all(any(isinstance(a, ast.Name) and fl.unique_def(a.id, cfgc.node_containing(c)) is led_def
                                                                     for a in c.args) for c in passed):
                            o.site(calc, r, src(rep))
                        else:
                            o.refute(calc, r, r.value.args[2], "the report is not built from the ledger handed to the scheduling pass")
                    else:
                        o.refute(calc, r, r.value.args[2], "usage report is not ResourceUsageReport(<ledger of this call>.rows)")
        rf = prog.func('schedule.ResourceUsageReport.rows')
        comps = [n for n in walk_no_nested(rf.node) if isinstance(n, ast.ListComp)]
        if len(comps) == 1:
            elt, tgt, it, ifs = facts.comp_parts(comps[0])
            okf = len(ifs) <= 1 and (not ifs or match(f"$f is None or $f({tgt.id})", ifs[0]))
            if match("self._ResourceUsageReport__rows", it) and okf and \
                    (match(f"dataclasses.replace({tgt.id})", elt) or match(f"{tgt.id}", elt)):
                o.site(rf, comps[0], src(comps[0]))
            else:
                o.refute(rf, comps[0], comps[0], "rows() does not return every stored row accepted by the caller's filter")
        else:
            o.undecided(rf, rf.node, 'rows', "rows() is not a single comprehension")
        sf = prog.func('schedule.ResourceUsageReport.reserved')
        ex = Expander(prog, sf, ctx.typer)
        rets = [n for n in walk_no_nested(sf.node) if isinstance(n, ast.Return)]
        for r in rets:
            v = ex.expand(r.value)
            m = match("sum($c, 0)", v) or match("sum($c)", v)
            parts = facts.comp_parts(m['c']) if m else None
            if not parts:
                o.undecided(sf, r, r, "reserved() is not sum(<comprehension>)")
                continue
            elt, tgt, it, ifs = parts
            atoms = []
            for c in ifs:
                atoms += facts.split_conj(c, True)
            want = {f"{tgt.id}.resource == {sf.params[1]}", f"{tgt.id}.date == {sf.params[2]}"}
            got = set()
            for a, pol in atoms:
                t = src(a)
                if isinstance(a, ast.Compare) and isinstance(a.ops[0], ast.Eq):
                    t2 = f"{src(a.comparators[0])} == {src(a.left)}"
                    got.add(t if t in want else t2)
                else:
                    got.add(t)
            if match(f"{tgt.id}.units", elt) and match("self._ResourceUsageReport__rows", it) and got == want:
                o.site(sf, r, src(v)[:100])
            else:
                o.refute(sf, r, r, f"report total is `{src(v)[:120]}`; expected the sum of units over rows with equal resource and date")
    ctx.guarded(o, report)

    # ------------------------------------------------------------------------------------------------ searches
    o = ctx.ob('search_uses_free_capacity', 'R8',
               "both availability searches return only on `CAP(r,d) - RESV(r,d,sel) > 0` for the resource and task they were asked about", floor=2)

    def search(o):
        for S in BOTH:
            f = prog.func(S['search'])
            rets = [n for n in walk_no_nested(f.node) if isinstance(n, ast.Return)]
            if not rets:
                o.refute(f, f.node, 'search', "search never returns a date")
            for r in rets:
                conds = facts.node_conditions(prog, f, r, ctx.typer)
                hit = False
                for t, pol in conds:
                    pt = sched.sign_test(t, pol)
                    fr = parse_free(pt[0], S['balance']) if pt else None
                    if fr:
                        hit = True
                        if pt[1] != '>':
                            o.refute(f, r, t, f"search accepts a day on `free {pt[1]} 0`")
                        elif fr['resv']['kind'] in ('task', 'sel-inverted'):
                            o.refute(f, r, t, "search ignores other tasks' bookings while balancing is on")
                        elif not (src(fr['cap']['r']) == f.params[1] and src(fr['resv']['r']) == f.params[1]
                                  and src(fr['resv']['u']) == f.params[2] and same(fr['cap']['d'], fr['resv']['d'])):
                            o.refute(f, r, t, "search tests capacity and bookings of different resource/day/ledger")
                        else:
                            o.site(f, r, src(t)[:100])
                if not hit:
                    o.refute(f, r, r, "search returns a date that was not tested for free capacity")
    ctx.guarded(o, search)


def ledger_shape(ctx, o):
    prog = ctx.prog
    rf = prog.func('schedule._ResourceUsage.reserve')
    qf = prog.func('schedule._ResourceUsage.reserved')
    ex = Expander(prog, rf, ctx.typer)
    rows = [c for c in walk_no_nested(rf.node) if isinstance(c, ast.Call) and isinstance(c.func, ast.Name)
            and c.func.id == 'ResourceUsageRow']
    appended = [c for c in facts.calls_named(rf, 'append')]
    app_arg = ex.expand(appended[0].args[0]) if len(appended) == 1 and appended[0].args else None
    if len(rows) != 1 or len(appended) != 1 or not (isinstance(app_arg, ast.Call) and getattr(app_arg.func, 'id', '') == 'ResourceUsageRow'):
        o.refute(rf, rf.node, 'reserve', "reserve() must append exactly one ResourceUsageRow to the ledger")
        return
    row = ex.expand(rows[0])
    p = rf.params
    if len(row.args) != 4 or len(p) < 5:
        o.undecided(rf, rows[0], rows[0], "unexpected row constructor shape")
        return
    d = facts.is_midnight_of(row.args[1])
    if not (isinstance(row.args[0], ast.Name) and row.args[0].id == p[1] and d is not None and src(d) == p[2]
            and isinstance(row.args[2], ast.Name) and row.args[2].id == p[3]
            and isinstance(row.args[3], ast.Name) and row.args[3].id == p[4]):
        o.refute(rf, rows[0], rows[0], f"row is `{src(row)}`; expected (resource, midnight(date), task, units)")
    else:
        o.site(rf, rows[0], src(row))
    rets = [n for n in walk_no_nested(rf.node) if isinstance(n, ast.Return)]
    if len(rets) != 1 or not (isinstance(rets[0].value, ast.Name) and rets[0].value.id == p[4]):
        o.refute(rf, rf.node, 'return', "reserve() must return exactly the units it stored (the fill loops subtract the return value)")
    # query: every "collect row.units for row in self.rows if ..." site (comprehension or accumulation loop)
    exq = Expander(prog, qf, ctx.typer)
    qp = qf.params
    sites = [c for c in facts.collects(qf) if match("$s.rows", c.iter) and isinstance(c.target, ast.Name)]
    if not sites:
        o.undecided(qf, qf.node, 'reserved', "no iteration over the ledger rows found")
    for c in sites:
        tgt = c.target
        if not match(f"{tgt.id}.units", c.elt):
            o.undecided(qf, c.node, c.node, "iteration over the ledger rows does not collect row.units")
            continue
        atoms = []
        for t, pol in c.conds:
            atoms += facts.split_conj(exq.expand(t, exq.flow.node_of_expr(t) or exq.flow.node_of_expr(c.node)), pol)
        has_res = has_day = False
        extra = []
        path_extra = [(t, p) for t, p in facts.node_conditions(prog, qf, c.node, ctx.typer, expand=False)]
        for a, pol in atoms:
            eq = ne = None
            if isinstance(a, ast.Compare) and len(a.ops) == 1 and isinstance(a.ops[0], (ast.Eq, ast.NotEq)):
                l, r = a.left, a.comparators[0]
                positive = isinstance(a.ops[0], ast.Eq) == pol      # the collected rows satisfy l == r
                other = r if match(f"{tgt.id}.$f", l) else (l if match(f"{tgt.id}.$f", r) else None)
                fld = (match(f"{tgt.id}.$f", l) or match(f"{tgt.id}.$f", r) or {}).get('f')
                if other is not None and fld == 'resource' and positive and src(other) == qp[1]:
                    has_res = True
                    continue
                if other is not None and fld == 'date' and positive:
                    dd = facts.is_midnight_of(other)
                    if dd is not None and src(dd) == qp[2]:
                        has_day = True
                    else:
                        o.refute(qf, c.node, a, f"ledger rows are compared with `{src(other)}` instead of midnight({qp[2]}): "
                                                f"rows stored under the day key are missed")
                        has_day = None
                    continue
                if other is not None and fld == 'task' and positive and len(qp) > 3 and src(other) == qp[3]:
                    extra.append('task')
                    continue
            # `task is None or row.task == task` style selector inside the filter
            if len(qp) > 3 and (match(f"{qp[3]} is None or {tgt.id}.task == {qp[3]}", a) and pol or
                                match(f"{qp[3]} is not None and {tgt.id}.task != {qp[3]}", a) and not pol):
                extra.append('task-if-given')
                continue
            if len(qp) > 3 and ((match(f"{qp[3]} is None", a) and not pol) or (match(f"{qp[3]} is not None", a) and pol)):
                continue
            o.undecided(qf, c.node, a, "unrecognised row filter")
        if has_day is None:
            continue
        if not has_res:
            o.refute(qf, c.node, c.node, "ledger sum does not filter by resource")
        elif not has_day:
            o.refute(qf, c.node, c.node, "ledger sum does not filter by day")
        else:
            o.site(qf, c.node, "filters: resource, midnight(day)" + (", " + extra[0] if extra else ''))


def _origin_node(f, amount_expr, sub, ex):
    """cfg node in which the (expanded) sub-expression `sub` was originally evaluated: sub comes from an expansion,
    so locate an original expression in f that is structurally equal"""
    fl = flow_of(f)
    for n in walk_no_nested(f.node):
        if type(n) is type(sub) and same(n, sub):
            cn = fl.node_of_expr(n)
            if cn is not None:
                return cn
    return None
