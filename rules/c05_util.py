"""C05 helpers.

1. `IdCheck`: abstract evaluation of the id-intersection predicate (`task._has_id_intersection` and whatever private helpers it
   delegates to).  Collections of tasks / keys are evaluated to `Coll` values (where they come from: the receiving tree or the
   incoming subtrees; what is taken of each task: the object, id(t), t.id; which filters and which de-duplication were applied),
   the function result becomes a propositional formula over three kinds of atoms
        E[X]   X is empty                 D[X]   two different tasks of X have equal ids          I[A,B]  the id sets of A and B meet
   and the property side is `D[new] or I[tree,new]  ==>  result` (decided by truth table).  The spelling (locals, helper
   functions, loops vs comprehensions, guard clauses, conditional expressions, `&` / intersection / isdisjoint / any) is irrelevant.
2. `dfs_lookup`: the recursive depth-first spelling of WBS.__getitem__.
3. `flat_list_cache`: a memoised Task.all_children and the completeness of its invalidation (shared with C11).
"""
from __future__ import annotations

import ast
from typing import Dict, List, Optional, Tuple

from sa import facts
from sa.cfg import cfg_of
from sa.model import src, walk_no_nested, unmangle
from sa.pat import match, same
from . import taskrules as T


# ======================================================================================================================
class Coll:
    """abstract collection.  src: tree | incoming | given | recv_subtree | sub_elem | empty | unknown
    view: task | objid | taskid | other:<text>;  filters: frozenset of tuples;  dedup: None | identity | taskid
    kind: list | set"""
    __slots__ = ('src', 'view', 'filters', 'dedup', 'kind', 'note', 'base')

    def __init__(self, src_, view='task', filters=frozenset(), dedup=None, kind='list', note='', base=None):
        self.src, self.view, self.filters, self.dedup, self.kind, self.note, self.base = src_, view, frozenset(filters), dedup, kind, note, base

    def but(self, **kw):
        c = Coll(self.src, self.view, self.filters, self.dedup, self.kind, self.note, self.base)
        for k, v in kw.items():
            setattr(c, k, v)
        return c

    @property
    def known(self):
        return self.src in ('tree', 'incoming', 'given', 'recv_subtree', 'empty', 'root_descendants', 'tree_minus_root', 'recv_only', 'root_only')

    def members(self):
        """key of the underlying multiset of tasks (view / container independent)"""
        return f"{self.src}{sorted(self.filters)}"

    def __repr__(self):
        return f"<Coll {self.src} {self.view} {sorted(self.filters)} dedup={self.dedup} {self.kind} {self.note}>"


class TaskV:
    __slots__ = ('role', 'of')

    def __init__(self, role, of=None):
        self.role, self.of = role, of        # recv | root | elem (of = Coll) | unknown

    def __repr__(self):
        return f"<Task {self.role} {self.of or ''}>"


class DictV:
    __slots__ = ('keyview', 'coll')

    def __init__(self, keyview, coll):
        self.keyview, self.coll = keyview, coll


class KeyV:
    """a key of one task: id(t) / t.id / other"""
    __slots__ = ('view', 'task')

    def __init__(self, view, task):
        self.view, self.task = view, task


class MeetV:
    """the intersection of two key collections (only its emptiness matters)"""
    __slots__ = ('a', 'b')

    def __init__(self, a, b):
        self.a, self.b = a, b


class UnionV:
    """the union of two key sets (only its size matters)"""
    __slots__ = ('a', 'b')

    def __init__(self, a, b):
        self.a, self.b = a, b


class CountV:
    """a number: the sum of the sizes of some collections   len(A) + len(X)"""
    __slots__ = ('parts',)

    def __init__(self, parts):
        self.parts = list(parts)


UNKNOWN = Coll('unknown')


def unk(note=''):
    return Coll('unknown', note=note)


class Bail(Exception):
    pass


def id_test_func(prog):
    """the id test: the module function task._has_id_intersection, or - when it was moved into the class - the private static method
    of Task with that name (`Task.__has_id_intersection(parent, children)`; taskrules.canon_atom reads its calls under the module name).
    Falls back to prog.func (AnchorMissing) when there is neither."""
    h = prog.funcs.get('task._has_id_intersection')
    if h is not None:
        return h
    cands = [m for m in prog.cls('Task').methods.values() if m.kind == 'static' and m.name.lstrip('_') == 'has_id_intersection' and
             len(m.params) == 2]
    if len(cands) == 1:
        return cands[0]
    return prog.func('task._has_id_intersection')


def id_helpers(prog):
    """(root finder, subtree collector) of the id test: the module functions _find_root / _collect_subtree, or the Task methods the
    id test calls in their place (`parent._tree_root()`, `x._subtree()`)"""
    fr, cs = prog.funcs.get('task._find_root'), prog.funcs.get('task._collect_subtree')
    if fr is not None and cs is not None:
        return fr, cs
    try:
        h = id_test_func(prog)
    except Exception:
        h = None
    if h is None:
        return fr, cs
    par = h.params[0]
    for c in walk_no_nested(h.node):
        if isinstance(c, ast.Call) and isinstance(c.func, ast.Attribute) and not c.args and not c.keywords:
            m = prog.find_method('Task', unmangle(c.func.attr))
            if m is None or not m.self_name or len(m.params) != 1:
                continue
            if isinstance(c.func.value, ast.Name) and c.func.value.id == par and fr is None:
                fr = m
            elif cs is None and not (isinstance(c.func.value, ast.Name) and c.func.value.id == par):
                # the collector calls itself on the children
                if any(isinstance(x, ast.Call) and isinstance(x.func, ast.Attribute) and unmangle(x.func.attr) == m.name for x in walk_no_nested(m.node)):
                    cs = m
    return fr, cs


class IdCheck:
    def __init__(self, ctx, func):
        self.ctx, self.prog, self.func = ctx, ctx.prog, func
        self.atoms: Dict[str, tuple] = {}      # atom name -> ('E', coll) | ('D', coll) | ('I', a, b)
        self.colls: List[Coll] = []            # every collection that was evaluated (diagnosis)
        self.notes: List[str] = []
        self.depth = 0
        self.collect_names = {'_collect_subtree'}
        self.root_names = {'_find_root'}
        fr_, cs_ = id_helpers(ctx.prog)
        if fr_ is not None:
            self.root_names.add(fr_.name)
        if cs_ is not None:
            self.collect_names.add(cs_.name)
        cs = ctx.prog.funcs.get('task._collect_subtree')
        if cs is not None:
            rets = [r for r in walk_no_nested(cs.node) if isinstance(r, ast.Return) and r.value is not None]
            if len(rets) == 1:
                m = match("list($c)", rets[0].value) or match("[$x for $x in $c]", rets[0].value)
                c = m['c'] if m is not None else None
                if isinstance(c, ast.Call) and isinstance(c.func, ast.Name) and len(c.args) == 1 and isinstance(c.args[0], ast.Name) and \
                        c.args[0].id == cs.params[0]:
                    self.collect_names.add(c.func.id)        # the generator the collection is the list of

    # ---------------------------------------------------------------------------------------------- expressions
    def _target(self, func, call) -> Optional[object]:
        fn = call.func
        if isinstance(fn, ast.Name):
            tg = [t for t in self.ctx.typer.resolve_name_call(fn.id, func) if t.kind == 'function']
            return tg[0] if len(tg) == 1 else None
        return None

    def ev(self, e, env, func):
        v = self._ev(e, env, func)
        if isinstance(v, Coll):
            self.colls.append(v)
        return v

    def _ev(self, e, env, func):
        if isinstance(e, ast.Name):
            return env.get(e.id, unk(e.id))
        if isinstance(e, (ast.List, ast.Tuple, ast.Set)):
            if not e.elts:
                return Coll('empty', kind='set' if isinstance(e, ast.Set) else 'list')
            if len(e.elts) == 1:
                x = self.ev(e.elts[0], env, func)
                if isinstance(x, TaskV) and x.role == 'elem':
                    return x.of.but(note='singleton')
                if isinstance(x, TaskV) and x.role in ('recv', 'root'):
                    return Coll(x.role + '_only')
            return unk(src(e)[:40])
        if isinstance(e, ast.Dict) and not e.keys or match("dict()", e):
            return DictV('?', Coll('empty'))
        if isinstance(e, ast.BinOp) and isinstance(e.op, ast.Add):
            a, b = self.ev(e.left, env, func), self.ev(e.right, env, func)
            if isinstance(a, CountV) and isinstance(b, CountV):
                return CountV(a.parts + b.parts)
            return self._concat(a, b)
        if isinstance(e, ast.BinOp) and isinstance(e.op, ast.Add):
            a, b = self._ev(e.left, env, func), self._ev(e.right, env, func)
            if isinstance(a, CountV) and isinstance(b, CountV):
                return CountV(a.parts + b.parts)
        if isinstance(e, ast.BinOp) and isinstance(e.op, ast.BitOr):
            a, b = self.ev(e.left, env, func), self.ev(e.right, env, func)
            if isinstance(a, Coll) and isinstance(b, Coll) and a.known and b.known and a.view == b.view != 'task':
                return UnionV(a, b)
            return unk(src(e)[:40])
        if isinstance(e, ast.Call) and isinstance(e.func, ast.Name) and e.func.id == 'len' and len(e.args) == 1 and not e.keywords:
            x = self._as_coll(self.ev(e.args[0], env, func))
            if isinstance(x, (MeetV, UnionV)) or isinstance(x, Coll) and x.known:
                return CountV([x])
            return unk(src(e)[:40])
        if isinstance(e, ast.BinOp) and isinstance(e.op, ast.BitAnd):
            a, b = self.ev(e.left, env, func), self.ev(e.right, env, func)
            if isinstance(a, Coll) and isinstance(b, Coll) and a.known and b.known:
                return MeetV(a, b)
            return unk(src(e)[:40])
        if isinstance(e, ast.Call):
            return self._call(e, env, func)
        if isinstance(e, (ast.ListComp, ast.SetComp, ast.GeneratorExp)):
            return self._comp(e, env, func)
        if isinstance(e, ast.DictComp):
            return self._dictcomp(e, env, func)
        if isinstance(e, ast.Attribute):
            b = self.ev(e.value, env, func)
            if isinstance(b, TaskV) and e.attr == 'id':
                return KeyV('taskid', b)
            if isinstance(b, TaskV) and b.role == 'root' and e.attr == 'all_children':
                return Coll('root_descendants')
            return unk(src(e)[:40])
        if isinstance(e, ast.IfExp) or isinstance(e, ast.BoolOp):
            return unk(src(e)[:40])
        return unk(src(e)[:40])

    def _concat(self, a, b):
        if isinstance(a, Coll) and a.src == 'empty':
            return b
        if isinstance(b, Coll) and b.src == 'empty':
            return a
        if isinstance(a, Coll) and isinstance(b, Coll) and a.view == b.view == 'task':
            pair = {a.src, b.src}
            other = b if a.src in ('recv_only', 'root_only') else a
            only_self_filter = all(f[0] in ('not_self', 'not_none') for f in other.filters)
            if pair == {'root_only', 'root_descendants'} and only_self_filter:
                return Coll('tree')
            if pair == {'recv_only', 'root_descendants'} and only_self_filter:
                return Coll('tree_minus_root')       # the root task itself is missing (unless the receiver is the root)
        return unk('concatenation')

    def _call(self, e, env, func):
        fn = e.func
        if isinstance(fn, ast.Name) and not e.keywords:
            name = fn.id
            args = e.args
            if name in self.root_names and len(args) == 1:
                a = self.ev(args[0], env, func)
                if isinstance(a, TaskV) and a.role == 'recv':
                    return TaskV('root')
                return TaskV('unknown')
            if name in self.collect_names and len(args) == 1:
                a = self.ev(args[0], env, func)
                if isinstance(a, TaskV):
                    if a.role == 'root':
                        return Coll('tree')
                    if a.role == 'recv':
                        return Coll('recv_subtree')
                    if a.role == 'elem':
                        return Coll('sub_elem', base=a.of)
                return unk(src(e)[:40])
            if name in ('set', 'frozenset') and len(args) <= 1:
                if not args:
                    return Coll('empty', kind='set')
                a = self.ev(args[0], env, func)
                return a.but(kind='set') if isinstance(a, Coll) else unk(src(e)[:40])
            if name in ('list', 'tuple', 'sorted', 'iter') and len(args) <= 1:
                if not args:
                    return Coll('empty')
                a = self.ev(args[0], env, func)
                if isinstance(a, DictV):
                    return a.coll.but(view=a.keyview, kind='set')
                return a.but(kind='list' if a.kind != 'set' else a.kind) if isinstance(a, Coll) else unk(src(e)[:40])
            if name == 'id' and len(args) == 1:
                a = self.ev(args[0], env, func)
                return KeyV('objid', a) if isinstance(a, TaskV) else unk(src(e)[:40])
            if name == 'str' and len(args) == 1:
                a = self.ev(args[0], env, func)
                if isinstance(a, KeyV):
                    return KeyV(f"other:str({a.view})", a.task)
                return unk(src(e)[:40])
            tg = self._target(func, e)
            if tg is not None and self.depth < 4:
                return self._call_func(tg, [self.ev(a, env, func) for a in args])
            return unk(src(e)[:40])
        if isinstance(fn, ast.Attribute) and not e.keywords:
            recv = self.ev(fn.value, env, func)
            if isinstance(recv, TaskV) and not e.args and unmangle(fn.attr) in self.root_names:
                return TaskV('root') if recv.role == 'recv' else TaskV('unknown')
            if isinstance(recv, TaskV) and not e.args and unmangle(fn.attr) in self.collect_names:
                if recv.role == 'root':
                    return Coll('tree')
                if recv.role == 'recv':
                    return Coll('recv_subtree')
                if recv.role == 'elem':
                    return Coll('sub_elem', base=recv.of)
                return unk(src(e)[:40])
            if isinstance(recv, DictV) and not e.args:
                if fn.attr == 'values':
                    dd = 'identity' if recv.keyview == 'objid' else ('taskid' if recv.keyview == 'taskid' else recv.keyview)
                    return recv.coll.but(dedup=dd)
                if fn.attr == 'keys':
                    return recv.coll.but(view=recv.keyview, kind='set')
            if isinstance(recv, Coll) and fn.attr == 'copy' and not e.args:
                return recv
            if isinstance(recv, Coll) and recv.known and fn.attr == 'intersection' and len(e.args) == 1:
                b = self.ev(e.args[0], env, func)
                if isinstance(b, Coll) and b.known:
                    return MeetV(recv, b)
            if isinstance(recv, Coll) and recv.known and fn.attr == 'union' and len(e.args) == 1 and recv.view != 'task' and recv.src != 'empty':
                b = self.ev(e.args[0], env, func)
                if isinstance(b, Coll) and b.known and b.view == recv.view and b.src != 'empty':
                    return UnionV(recv, b)
            if isinstance(recv, Coll) and fn.attr in ('union',) and len(e.args) == 1:
                return self._concat(recv, self.ev(e.args[0], env, func))
            m = match("chain.from_iterable($g)", e) or match("itertools.chain.from_iterable($g)", e)
            if m is not None:
                g = self.ev(m['g'], env, func)
                if isinstance(g, Coll) and g.note == 'nested':
                    return g.but(note='')
        return unk(src(e)[:40])

    def _call_func(self, tg, argvals):
        """collection-valued helper: straight-line body with one trailing return"""
        params = list(tg.params)
        if len(argvals) != len(params):
            return unk(tg.name)
        env = dict(zip(params, argvals))
        self.depth += 1
        try:
            body = list(tg.body)
            if not body or not isinstance(body[-1], ast.Return) or body[-1].value is None:
                return unk(tg.name)
            if any(isinstance(n, ast.Return) for st in body[:-1] for n in walk_no_nested(st)):
                return unk(tg.name + ' (several returns)')
            self.run(body[:-1], env, tg)
            return self.ev(body[-1].value, env, tg)
        except Bail as b:
            return unk(f"{tg.name}: {b}")
        finally:
            self.depth -= 1

    def _filter(self, c, var_env, func, elem: TaskV) -> tuple:
        """descriptor of one filter condition over the element"""
        t, pol = facts.norm_cond(c, True)
        m = match("$k in $s", t)
        if m is not None and not pol:
            k, s = self.ev(m['k'], var_env, func), self.ev(m['s'], var_env, func)
            if isinstance(s, Coll) and s.known:
                if isinstance(k, KeyV) and k.task is elem and k.view == 'objid' and s.view == 'objid':
                    return ('notin_identity', s.members())
                if isinstance(k, TaskV) and k is elem and s.view == 'task':
                    return ('notin_identity', s.members())
                if isinstance(k, KeyV) and k.task is elem and k.view == 'taskid' and s.view == 'taskid':
                    return ('notin_taskid', s.members())
        if m is not None and not pol:
            k, s = self.ev(m['k'], var_env, func), self.ev(m['s'], var_env, func)
            if isinstance(k, KeyV) and k.task is elem and k.view == 'objid' and isinstance(s, Coll) and s.src == 'empty':
                return ('running_identity',)        # `if id(t) not in seen: seen.add(id(t))`: each object once
        m = match("$x is None", t)
        if m is not None and not pol:
            x = self.ev(m['x'], var_env, func)
            if x is elem:
                return ('not_none',)
        m = match("$x is $y", t)
        if m is not None and not pol:
            x, y = self.ev(m['x'], var_env, func), self.ev(m['y'], var_env, func)
            if (x is elem and isinstance(y, TaskV) and y.role in ('recv', 'root')) or (y is elem and isinstance(x, TaskV) and x.role in ('recv', 'root')):
                return ('not_self',)
        return ('opaque', ('' if pol else 'not ') + src(t)[:60])

    def _comp(self, e, env, func):
        gens = e.generators
        kind = 'set' if isinstance(e, ast.SetComp) else 'list'
        if len(gens) == 2 and isinstance(gens[0].target, ast.Name) and isinstance(gens[1].target, ast.Name):
            # [t for ch in X for t in _collect_subtree(ch)]
            x = self.ev(gens[0].iter, env, func)
            if isinstance(x, Coll) and x.view == 'task':
                el = TaskV('elem', x)
                env2 = dict(env, **{gens[0].target.id: el})
                inner = self.ev(gens[1].iter, env2, func)
                if isinstance(inner, Coll) and inner.src == 'sub_elem' and inner.base is x and not gens[0].ifs:
                    flat = self._flat(x)
                    if flat is not None:
                        el2 = TaskV('elem', flat)
                        env3 = dict(env2, **{gens[1].target.id: el2})
                        return self._project(e.elt, gens[1].ifs, flat, el2, env3, func, kind)
            return unk(src(e)[:40])
        if len(gens) != 1 or not isinstance(gens[0].target, ast.Name):
            return unk(src(e)[:40])
        g = gens[0]
        x = self.ev(g.iter, env, func)
        if isinstance(x, DictV):
            x = x.coll.but(view=x.keyview, kind='set')
        if not isinstance(x, Coll) or not x.known:
            return unk(src(e)[:40])
        if x.view != 'task':
            # a projection over keys: only the identity projection is understood
            if isinstance(e.elt, ast.Name) and e.elt.id == g.target.id and not g.ifs:
                return x.but(kind=kind)
            return unk(src(e)[:40])
        el = TaskV('elem', x)
        env2 = dict(env, **{g.target.id: el})
        # generator of lists: (_collect_subtree(c) for c in children)
        inner = self.ev(e.elt, env2, func)
        if isinstance(inner, Coll) and inner.src == 'sub_elem' and inner.base is x and not g.ifs:
            flat = self._flat(x)
            return flat.but(note='nested') if flat is not None else unk(src(e)[:40])
        return self._project(e.elt, g.ifs, x, el, env2, func, kind)

    def _flat(self, x: Coll) -> Optional[Coll]:
        """the concatenated subtrees of all elements of x"""
        if x.src == 'given' and not (x.filters - {('not_none',)}):
            return Coll('incoming')
        return None

    def _project(self, elt, ifs, x: Coll, el: TaskV, env2, func, kind):
        filters = set(x.filters)
        for c in ifs:
            for a, p in facts.split_conj(c, True):
                filters.add(self._filter(a if p else ast.UnaryOp(op=ast.Not(), operand=a), env2, func, el))
        v = self.ev(elt, env2, func)
        if v is el:
            return x.but(filters=frozenset(filters), kind=kind, dedup=x.dedup if kind == 'list' else 'identity')
        if isinstance(v, KeyV) and v.task is el:
            return x.but(filters=frozenset(filters), kind=kind, view=v.view)
        return unk(src(elt)[:40])

    def _dictcomp(self, e, env, func):
        if len(e.generators) != 1 or not isinstance(e.generators[0].target, ast.Name):
            return unk(src(e)[:40])
        g = e.generators[0]
        x = self.ev(g.iter, env, func)
        if not isinstance(x, Coll) or not x.known or x.view != 'task':
            return unk(src(e)[:40])
        el = TaskV('elem', x)
        env2 = dict(env, **{g.target.id: el})
        k, v = self.ev(e.key, env2, func), self.ev(e.value, env2, func)
        if v is el and isinstance(k, KeyV) and k.task is el:
            c = self._project(g.target, g.ifs, x, el, env2, func, 'list')
            if isinstance(c, Coll) and c.known:
                return DictV(k.view, c)
        return unk(src(e)[:40])

    # ---------------------------------------------------------------------------------------------- statements
    def run(self, stmts, env, func):
        """straight-line code, accumulation loops; names that cannot be followed become unknown"""
        for st in stmts:
            self._stmt(st, env, func)

    def _assigned(self, st):
        out = set()
        for n in ast.walk(st):
            if isinstance(n, ast.Name) and isinstance(n.ctx, ast.Store):
                out.add(n.id)
            elif isinstance(n, ast.Call) and isinstance(n.func, ast.Attribute) and isinstance(n.func.value, ast.Name) and \
                    n.func.attr in ('append', 'extend', 'add', 'update', 'remove', 'discard', 'pop', 'clear', 'insert', 'setdefault'):
                out.add(n.func.value.id)
            elif isinstance(n, ast.Subscript) and isinstance(n.ctx, ast.Store) and isinstance(n.value, ast.Name):
                out.add(n.value.id)
        return out

    def _stmt(self, st, env, func):
        if isinstance(st, ast.Expr) and isinstance(st.value, ast.Constant):
            return
        if isinstance(st, ast.Pass):
            return
        if isinstance(st, (ast.Assign, ast.AnnAssign)):
            tg = st.targets if isinstance(st, ast.Assign) else [st.target]
            if len(tg) == 1 and isinstance(tg[0], ast.Name) and st.value is not None:
                env[tg[0].id] = self.ev(st.value, env, func)
                return
        if isinstance(st, ast.AugAssign) and isinstance(st.target, ast.Name) and isinstance(st.op, (ast.Add, ast.BitOr)):
            env[st.target.id] = self._concat(env.get(st.target.id, unk(st.target.id)), self.ev(st.value, env, func))
            return
        if isinstance(st, ast.Expr) and isinstance(st.value, ast.Call):
            c = st.value
            if isinstance(c.func, ast.Attribute) and isinstance(c.func.value, ast.Name) and c.func.attr in ('extend', 'update') and len(c.args) == 1:
                n = c.func.value.id
                a0, b0 = env.get(n, unk(n)), self.ev(c.args[0], env, func)
                if c.func.attr == 'update' and isinstance(a0, Coll) and isinstance(b0, Coll) and a0.known and b0.known and \
                        a0.src != 'empty' and b0.src != 'empty' and a0.kind == 'set' and a0.view == b0.view != 'task':
                    env[n] = UnionV(a0, b0)
                    return
                env[n] = self._concat(a0, b0)
                return
            if isinstance(c.func, ast.Attribute) and c.func.attr in ('debug', 'info', 'warning') or (isinstance(c.func, ast.Name) and c.func.id == 'print'):
                return
        if isinstance(st, ast.For) and isinstance(st.target, ast.Name) and not st.orelse:
            if self._loop(st, env, func):
                return
        for n in self._assigned(st):
            env[n] = unk(f"{n} (assigned in `{src(st).splitlines()[0][:40]}`)")
        if any(isinstance(n, (ast.Return, ast.Raise)) for n in walk_no_nested(st)):
            raise Bail(f"control flow the rule does not follow: `{src(st).splitlines()[0][:50]}`")

    def _loop(self, st: ast.For, env, func) -> bool:
        x = self.ev(st.iter, env, func)
        if not isinstance(x, Coll) or not x.known or x.view != 'task':
            return False
        contrib: Dict[str, object] = {}
        el = TaskV('elem', x)
        env2 = dict(env, **{st.target.id: el})
        if not self._loop_body(list(st.body), env2, func, x, el, set(x.filters), contrib):
            return False
        for n, v in list(contrib.items()):
            c = v.coll if isinstance(v, DictV) else v
            if isinstance(c, Coll) and ('running_identity',) in c.filters:
                c2 = c.but(filters=frozenset(c.filters - {('running_identity',)}), dedup='identity' if c.view == 'task' else c.dedup)
                contrib[n] = DictV(v.keyview, c2) if isinstance(v, DictV) else c2
        for n, v in contrib.items():
            old = env.get(n, unk(n))
            if isinstance(v, DictV):
                env[n] = v if (isinstance(old, Coll) and old.src == 'empty') or (isinstance(old, DictV) and old.coll.src == 'empty') else unk(n)
            else:
                if isinstance(old, Coll) and old.src == 'empty' and old.kind == 'set':
                    v = v.but(kind='set')
                env[n] = self._concat(old, v)
        return True

    def _filters_of(self, test, pol, env2, func, el, filters):
        fs = set(filters)
        for a, p in facts.split_conj(test, pol):
            fs.add(self._filter(a if p else ast.UnaryOp(op=ast.Not(), operand=a), env2, func, el))
        return fs

    def _loop_body(self, stmts, env2, func, x: Coll, el: TaskV, filters, contrib) -> bool:
        """statements executed for every element `el` of x that passes `filters`: what do they add to which accumulator"""
        def add_coll(name, expr, kind) -> bool:
            v = self.ev(expr, env2, func)
            if isinstance(v, Coll) and v.src == 'sub_elem' and v.base is x and not (filters - {('not_none',)}):
                flat = self._flat(x)
                if flat is not None:
                    contrib[name] = flat
                    return True
            if isinstance(v, Coll) and v.note == 'singleton' and v.members() == x.members():
                contrib[name] = x.but(filters=frozenset(filters), kind=kind, note='')
                return True
            return False
        for i, s in enumerate(stmts):
            if isinstance(s, ast.If) and not s.orelse and len(s.body) == 1 and isinstance(s.body[0], ast.Continue):
                return self._loop_body(stmts[i + 1:], env2, func, x, el, self._filters_of(s.test, False, env2, func, el, filters), contrib)
            if isinstance(s, ast.If) and not s.orelse:
                if not self._loop_body(list(s.body), env2, func, x, el, self._filters_of(s.test, True, env2, func, el, filters), contrib):
                    return False
                continue
            if isinstance(s, (ast.Assign, ast.AnnAssign)):
                tg = s.targets if isinstance(s, ast.Assign) else [s.target]
                if len(tg) == 1 and isinstance(tg[0], ast.Name) and s.value is not None:
                    m = match(f"{tg[0].id} + $e", s.value)
                    if m is not None:
                        if not add_coll(tg[0].id, m['e'], 'list'):
                            return False
                        continue
                    env2[tg[0].id] = self.ev(s.value, env2, func)
                    continue
                if len(tg) == 1 and isinstance(tg[0], ast.Subscript) and isinstance(tg[0].value, ast.Name):
                    k, v = self.ev(tg[0].slice, env2, func), self.ev(s.value, env2, func)
                    if v is el and isinstance(k, KeyV) and k.task is el:
                        contrib[tg[0].value.id] = DictV(k.view, x.but(filters=frozenset(filters)))
                        continue
                return False
            if isinstance(s, ast.AugAssign) and isinstance(s.target, ast.Name) and isinstance(s.op, ast.Add):
                if not add_coll(s.target.id, s.value, 'list'):
                    return False
                continue
            if isinstance(s, ast.Expr) and isinstance(s.value, ast.Call) and isinstance(s.value.func, ast.Attribute) and \
                    isinstance(s.value.func.value, ast.Name) and len(s.value.args) == 1:
                c = s.value
                n = c.func.value.id
                if c.func.attr in ('extend', 'update'):
                    if not add_coll(n, c.args[0], 'list' if c.func.attr == 'extend' else 'set'):
                        return False
                    continue
                if c.func.attr in ('append', 'add'):
                    v = self.ev(c.args[0], env2, func)
                    k = 'list' if c.func.attr == 'append' else 'set'
                    if v is el:
                        contrib[n] = x.but(filters=frozenset(filters), kind=k)
                        continue
                    if isinstance(v, KeyV) and v.task is el:
                        contrib[n] = x.but(filters=frozenset(filters), kind=k, view=v.view)
                        continue
                return False
            if isinstance(s, ast.For) and isinstance(s.target, ast.Name) and not s.orelse:
                inner = self.ev(s.iter, env2, func)
                if isinstance(inner, Coll) and inner.src == 'sub_elem' and inner.base is x and not (filters - {('not_none',)}):
                    flat = self._flat(x)
                    if flat is not None:
                        el2 = TaskV('elem', flat)
                        env3 = dict(env2, **{s.target.id: el2})
                        if self._loop_body(list(s.body), env3, func, flat, el2, set(), contrib):
                            continue
                return False
            if isinstance(s, ast.Pass) or (isinstance(s, ast.Expr) and isinstance(s.value, ast.Constant)):
                continue
            return False
        return True

    # ---------------------------------------------------------------------------------------------- formulas
    def _atom(self, kind, *colls) -> tuple:
        if kind == 'I':
            a, b = colls
            ks = sorted([a.members(), b.members()])
            name = f"I[{ks[0]}&{ks[1]}]" + ('' if a.view == b.view == 'taskid' else f"<{a.view},{b.view}>")
        elif kind == 'D':
            name = f"D[{colls[0].members()}]" + (f"<dedup by {colls[0].dedup}>" if colls[0].dedup == 'taskid' else '')
        else:
            name = f"E[{colls[0].members()}]"
        self.atoms[name] = (kind,) + tuple(colls)
        return T.F_atom(name)

    def _count_of(self, e, env, func):
        v = self._ev(e, env, func) if isinstance(e, (ast.Name, ast.BinOp, ast.Call)) else None
        return v if isinstance(v, CountV) else None

    def _union_count(self, l, op, r, env, func):
        """len(A | ids(X)) <op> len(A) + len(X):  the union is smaller than the sum exactly when two tasks of X share an id or an id of
        X is already in A"""
        cl, cr = self._count_of(l, env, func), self._count_of(r, env, func)
        if cl is None or cr is None:
            return None
        o = type(op)
        if len(cl.parts) == 2 and len(cr.parts) == 1:
            cl, cr, o = cr, cl, {ast.Lt: ast.Gt, ast.Gt: ast.Lt, ast.LtE: ast.GtE, ast.GtE: ast.LtE}.get(o, o)
        if not (len(cl.parts) == 1 and isinstance(cl.parts[0], UnionV) and len(cr.parts) == 2):
            return None
        u = cl.parts[0]
        for A, B in ((u.a, u.b), (u.b, u.a)):
            for pa, px in ((cr.parts[0], cr.parts[1]), (cr.parts[1], cr.parts[0])):
                if isinstance(pa, Coll) and isinstance(px, Coll) and pa.kind == 'set' and pa.view == A.view and pa.members() == A.members() and \
                        A.kind == 'set' and px.kind == 'list' and px.view in ('task', B.view) and px.members() == B.members() and B.view == 'taskid':
                    f = ('or', [self._dup(px if px.view == 'task' else px), self._inter(A, B) or self._opaque(l)])
                    if o in (ast.NotEq, ast.Lt):
                        return f
                    if o in (ast.Eq, ast.GtE):
                        return T.F_not(f)
                    if o is ast.Gt:
                        return ('const', False)          # a union is never larger than the sum of its parts
                    if o is ast.LtE:
                        return ('const', True)
        return None

    def _len_of(self, e, env, func):
        m = match("len($x)", e)
        if m is None and isinstance(e, ast.Name):
            v = env.get(e.id)
            if isinstance(v, CountV) and len(v.parts) == 1:
                x = v.parts[0]
                return x if isinstance(x, MeetV) or isinstance(x, Coll) and x.known else None
        if m is None:
            return None
        x = self._as_coll(self.ev(m['x'], env, func))
        return x if isinstance(x, MeetV) or isinstance(x, Coll) and x.known else None

    @staticmethod
    def _as_coll(v):
        """a dict of tasks counts / is empty like the list of its values"""
        if isinstance(v, DictV) and v.coll.known:
            dd = 'identity' if v.keyview == 'objid' else ('taskid' if v.keyview == 'taskid' else v.keyview)
            return v.coll.but(dedup=dd, kind='list')
        return v

    def _opaque(self, e):
        return T.F_atom('opaque:' + src(e)[:70])

    def boolf(self, e, env, func):
        """formula of a truth-valued expression"""
        if isinstance(e, ast.Name) and isinstance(env.get(e.id), tuple) and env[e.id][0] == 'BOOL':
            return env[e.id][1]
        if isinstance(e, ast.UnaryOp) and isinstance(e.op, ast.Not):
            return T.F_not(self.boolf(e.operand, env, func))
        if isinstance(e, ast.BoolOp):
            parts = [self.boolf(v, env, func) for v in e.values]
            return ('and', parts) if isinstance(e.op, ast.And) else ('or', parts)
        if isinstance(e, ast.Constant):
            return ('const', bool(e.value))
        if isinstance(e, ast.IfExp):
            c = self.boolf(e.test, env, func)
            return ('or', [('and', [c, self.boolf(e.body, env, func)]), ('and', [T.F_not(c), self.boolf(e.orelse, env, func)])])
        m = match("bool($x)", e)
        if m is not None:
            return self.boolf(m['x'], env, func)
        if isinstance(e, ast.Compare) and len(e.ops) == 1:
            l, op, r = e.left, e.ops[0], e.comparators[0]
            uc = self._union_count(l, op, r, env, func)
            if uc is not None:
                return uc
            la, ra = self._len_of(l, env, func), self._len_of(r, env, func)
            num = lambda z: z.value if isinstance(z, ast.Constant) and isinstance(z.value, int) and not isinstance(z.value, bool) else None
            # emptiness:  len(X) == 0 | != 0 | > 0 | < 1 | >= 1   (and mirrored)
            if la is not None and num(r) is not None or ra is not None and num(l) is not None:
                x, k = (la, num(r)) if la is not None and num(r) is not None else (ra, num(l))
                o = type(op) if la is not None and num(r) is not None else {ast.Lt: ast.Gt, ast.Gt: ast.Lt, ast.LtE: ast.GtE, ast.GtE: ast.LtE}.get(type(op), type(op))
                empty = {(ast.Eq, 0): True, (ast.NotEq, 0): False, (ast.Gt, 0): False, (ast.Lt, 1): True, (ast.GtE, 1): False, (ast.LtE, 0): True}.get((o, k))
                if empty is not None:
                    a = self._emptiness(x)
                    return a if empty else T.F_not(a)
                if (o, k) in ((ast.GtE, 0),):
                    return ('const', True)
                if (o, k) in ((ast.Lt, 0),):
                    return ('const', False)
                # any other size test is a free (but not opaque) atom: it says nothing about clashes
                what = f"{x.a.members()}&{x.b.members()}" if isinstance(x, MeetV) else x.members()
                name = f"N[len({what}) {o.__name__} {k}]"
                self.atoms[name] = ('N', e)
                return T.F_atom(name)
            # duplicates:  len(set of ids) != / < len(list)
            if isinstance(la, Coll) and isinstance(ra, Coll) and la.members() == ra.members():
                for s_, l_, o in ((la, ra, type(op)), (ra, la, {ast.Lt: ast.Gt, ast.Gt: ast.Lt}.get(type(op), type(op)))):
                    if s_.kind == 'set' and s_.view == 'taskid' and l_.kind == 'list' and l_.view in ('task', 'taskid'):
                        if o in (ast.NotEq, ast.Lt):
                            return self._dup(l_)
                        if o is ast.Eq:
                            return T.F_not(self._dup(l_))
        m = match("$a.isdisjoint($b)", e)
        if m is not None:
            a, b = self.ev(m['a'], env, func), self.ev(m['b'], env, func)
            f = self._inter(a, b)
            if f is not None:
                return T.F_not(f)
        ex = facts.exists_form(e)
        if ex is not None:
            tgt, it, cs = ex
            x = self.ev(it, env, func)
            if isinstance(tgt, ast.Name) and isinstance(x, Coll) and x.known:
                if x.view == 'task':
                    el = TaskV('elem', x)
                else:
                    el = KeyV(x.view, TaskV('elem', x))
                env2 = dict(env, **{tgt.id: el})
                if len(cs) == 1:
                    m = match("$k in $s", cs[0])
                    if m is not None:
                        k, s = self.ev(m['k'], env2, func), self.ev(m['s'], env2, func)
                        if isinstance(k, KeyV) and isinstance(s, Coll) and s.known and (k is el or k.task is el):
                            f = self._inter(x.but(view=k.view), s)
                            if f is not None:
                                return f
                if not cs:
                    return T.F_not(self._emptiness(x))
        if isinstance(e, ast.Call):
            tg = self._target(func, e)
            if tg is not None and self.depth < 4 and not e.keywords and len(e.args) == len(tg.params):
                self.depth += 1
                try:
                    env2 = dict(zip(tg.params, [self.ev(a, env, func) for a in e.args]))
                    return self.formula(list(tg.body), env2, tg)
                finally:
                    self.depth -= 1
        v = self._as_coll(self.ev(e, env, func))
        if isinstance(v, MeetV) or isinstance(v, Coll) and v.known:
            f = self._emptiness(v)                     # truthiness of a collection
            if f is not None:
                return T.F_not(f)
        return self._opaque(e)

    def _emptiness(self, x):
        if isinstance(x, MeetV):
            i = self._inter(x.a, x.b)
            return T.F_not(i) if i is not None else T.F_atom('opaque:emptiness of an intersection of ' + x.a.view + ' and ' + x.b.view)
        if x.src == 'empty':
            return ('const', True)
        return self._atom('E', x)

    def _dup(self, x: Coll):
        if x.dedup == 'taskid':
            self.notes.append('dedup-taskid')
            return ('const', False)
        return self._atom('D', x)

    def _inter(self, a, b):
        if not (isinstance(a, Coll) and isinstance(b, Coll) and a.known and b.known):
            return None
        if a.view == 'task' or b.view == 'task' or a.view == 'objid' or b.view == 'objid':
            return None
        return self._atom('I', a, b)

    def formula(self, stmts, env, func):
        """truth value returned by the statement list (if-chains, search loops, straight-line code)"""
        env = dict(env)
        for i, st in enumerate(stmts):
            rest = stmts[i + 1:]
            if isinstance(st, ast.Return):
                return self.boolf(st.value, env, func) if st.value is not None else ('const', False)
            if isinstance(st, ast.If):
                c = self.boolf(st.test, env, func)
                return ('or', [('and', [c, self.formula(list(st.body) + list(rest), env, func)]),
                               ('and', [T.F_not(c), self.formula(list(st.orelse) + list(rest), env, func)])])
            if isinstance(st, ast.For) and any(isinstance(n, ast.Return) for n in walk_no_nested(st)):
                c = self._search_loop(st, env, func)
                if c is None:
                    raise Bail(f"loop with a return the rule does not follow: `{src(st).splitlines()[0][:50]}`")
                return ('or', [c, ('and', [T.F_not(c), self.formula(list(rest), env, func)])])
            if isinstance(st, ast.For) and not st.orelse:
                fl_ = self._flag_loop(st, env, func)
                if fl_ is not None:
                    env[fl_[0]] = ('BOOL', ('or', [env[fl_[0]][1], fl_[1]]) if isinstance(env.get(fl_[0]), tuple) and env[fl_[0]][0] == 'BOOL' else fl_[1])
                    continue
            if isinstance(st, ast.Assign) and len(st.targets) == 1 and isinstance(st.targets[0], ast.Name) and \
                    isinstance(st.value, ast.Constant) and isinstance(st.value.value, bool):
                env[st.targets[0].id] = ('BOOL', ('const', st.value.value))
                continue
            if isinstance(st, ast.Assign) and len(st.targets) == 1 and isinstance(st.targets[0], ast.Name) and self._truth_valued(st.value, env):
                # `duplicates = len(ids) != len(tasks)`: a test hoisted into a local, read later as a truth value
                env[st.targets[0].id] = ('BOOL', self.boolf(st.value, env, func))
                continue
            if isinstance(st, ast.Raise):
                raise Bail("raise inside the predicate")
            self._stmt(st, env, func)
        return ('const', False)

    def _truth_valued(self, e, env) -> bool:
        """e is a comparison / negation / conjunction of such (never a collection)"""
        if isinstance(e, ast.Compare):
            return True
        if isinstance(e, ast.UnaryOp) and isinstance(e.op, ast.Not):
            return True
        if isinstance(e, ast.BoolOp):
            return all(self._truth_valued(v, env) or (isinstance(v, ast.Name) and isinstance(env.get(v.id), tuple) and env[v.id][0] == 'BOOL')
                       for v in e.values)
        return False

    def _flag_loop(self, st: ast.For, env, func):
        """for t in X: if C(t): flag = True [; seen.add(..)]  with flag False before: the flag ends up as `any(C(t) ..)`"""
        if not st.body or not isinstance(st.body[0], ast.If):
            return None
        iff = st.body[0]
        if iff.orelse or len(iff.body) != 1 or not isinstance(iff.body[0], ast.Assign) or len(iff.body[0].targets) != 1 or \
                not isinstance(iff.body[0].targets[0], ast.Name) or not (isinstance(iff.body[0].value, ast.Constant) and iff.body[0].value.value is True):
            return None
        flag = iff.body[0].targets[0].id
        cur = env.get(flag)
        if not (isinstance(cur, tuple) and cur[0] == 'BOOL'):
            return None
        ret = ast.Return(value=ast.Constant(value=True))
        st2 = ast.For(target=st.target, iter=st.iter, body=[ast.If(test=iff.test, body=[ret], orelse=[])] + list(st.body[1:]), orelse=[])
        ast.copy_location(st2, st)
        ast.fix_missing_locations(st2)
        fm = self._search_loop(st2, env, func)
        return (flag, fm) if fm is not None else None

    def _search_loop(self, st: ast.For, env, func, over=None):
        """for t in X: if C(t): return True [; seen.add(t.id)]   ->  formula of `any(C(t) for t in X)`"""
        if st.orelse or not isinstance(st.target, ast.Name) or not st.body:
            return None
        if len(st.body) == 1 and isinstance(st.body[0], ast.For) and isinstance(st.body[0].target, ast.Name) and not st.body[0].orelse:
            # for ch in X: for t in _collect_subtree(ch): if ..: return True   ==   a search over the concatenated subtrees
            x0 = self.ev(st.iter, env, func)
            if isinstance(x0, Coll) and x0.known and x0.view == 'task':
                el0 = TaskV('elem', x0)
                env0 = dict(env, **{st.target.id: el0})
                inner = self.ev(st.body[0].iter, env0, func)
                if isinstance(inner, Coll) and inner.src == 'sub_elem' and inner.base is x0:
                    flat = self._flat(x0)
                    if flat is not None:
                        return self._search_loop(st.body[0], dict(env0, **{'@flat': flat}), func, over=flat)
            return None
        if not isinstance(st.body[0], ast.If):
            return None
        iff = st.body[0]
        if iff.orelse or len(iff.body) != 1 or not isinstance(iff.body[0], ast.Return) or iff.body[0].value is None:
            return None
        x = over if over is not None else self.ev(st.iter, env, func)
        if not (isinstance(x, Coll) and x.known):
            return None
        el = TaskV('elem', x) if x.view == 'task' else KeyV(x.view, TaskV('elem', x))
        env2 = dict(env, **{st.target.id: el})
        # `if <filters on t> and <key> in <set>`: the other conjuncts restrict the tasks that are searched
        conj = facts.split_conj(iff.test, True)
        memb = [(a, q) for a, q in conj if q and match("$k in $s", a) is not None and isinstance(a.ops[0], ast.In)]
        if len(conj) > 1 and len(memb) >= 1 and isinstance(el, TaskV):
            pick = memb[-1]
            fs = set(x.filters)
            for a, q in conj:
                if a is pick[0]:
                    continue
                fs.add(self._filter(a if q else ast.UnaryOp(op=ast.Not(), operand=a), env2, func, el))
            x = x.but(filters=frozenset(fs))
            el2 = TaskV('elem', x)
            env2 = dict(env, **{st.target.id: el2})
            el = el2
            iff = ast.If(test=pick[0], body=iff.body, orelse=[])
        rv = iff.body[0].value
        if not (isinstance(rv, ast.Constant) and rv.value is True):
            # `return t.id` / `return t`: the hit itself is handed back and its TRUTH VALUE is what the callers test
            r = self.ev(rv, env2, func)
            if r is el and isinstance(el, TaskV):
                pass                                   # a task object is always true (Task defines no __bool__/__len__: C01.own)
            elif isinstance(r, KeyV) and (r is el or r.task is el) and r.view == 'taskid':
                name = 'V[the returned id is true]'
                self.atoms[name] = ('V', rv)
                inner = self._search_loop_true(st, iff, x, el, env2, func)
                return ('and', [inner, T.F_atom(name)]) if inner is not None else None
            else:
                return None
        return self._search_loop_true(st, iff, x, el, env2, func)

    def _search_loop_true(self, st, iff, x, el, env2, func):
        m = match("$k in $s", iff.test)
        if m is None:
            return None
        k, s = self.ev(m['k'], env2, func), self.ev(m['s'], env2, func)
        if not (isinstance(k, KeyV) and (k is el or k.task is el) and isinstance(s, Coll) and (s.known)):
            return None
        keys = x.but(view=k.view)
        if len(st.body) == 1:
            if s.src == 'empty':
                return ('const', False)
            return self._inter(keys, s)
        if len(st.body) == 2 and isinstance(m['s'], ast.Name):
            sn = m['s'].id
            b = st.body[1]
            ok = isinstance(b, ast.Expr) and isinstance(b.value, ast.Call) and match(f"{sn}.add($k)", b.value) is not None and \
                same(b.value.args[0], m['k'])
            if ok and s.kind == 'set' and k.view == 'taskid' and x.view == 'task':
                d = self._dup(x.but(kind='list'))
                if s.src == 'empty':
                    return d
                i = self._inter(keys, s)
                return ('or', [d, i]) if i is not None else None
        return None


def check_intersection(ctx, o, f):
    """obligation body for C05.intersection_test"""
    par, chs = f.params[0], f.params[1]
    ic = IdCheck(ctx, f)
    env = {par: TaskV('recv'), chs: Coll('given')}
    try:
        R = ic.formula(list(f.body), env, f)
    except Bail as b:
        o.undecided(f, f.node, '_has_id_intersection', f"the id test is written in a form the rule does not follow ({b})")
        return
    colls = [c for c in ic.colls if c.known]
    tree_m, = {Coll('tree').members()}
    bad = False
    # ---- recognised wrong constructs
    if any(c.src == 'recv_subtree' for c in colls) and not any(c.src == 'tree' for c in colls):
        o.refute(f, f.node, 'receiving tree', "the receiving tree is _collect_subtree of the receiving task itself, not of the root of its tree "
                                              "(_find_root): tasks in other branches are not compared")
        bad = True
    if any(c.src == 'tree_minus_root' for c in colls) and not any(c.src == 'tree' for c in colls):
        o.refute(f, f.node, 'receiving tree without its root', "the receiving tree is built as the receiving task plus the DESCENDANTS of the root "
                 "(root.all_children): the root task of a detached tree itself is never compared, a task with the root's id can be attached "
                 "below any other member")
        bad = True
    elif any(c.src == 'root_descendants' for c in colls) and not any(c.src == 'tree' for c in colls):
        o.refute(f, f.node, 'receiving tree without its root', "the receiving tree is root.all_children, which does not contain the root task itself")
        bad = True
    byid = [c for c in colls if any(fl[0] == 'notin_taskid' for fl in c.filters)]
    if byid:
        o.refute(f, f.node, 'identity filter by id', "tasks already in the tree are recognised by id (`t.id not in ..`): a foreign task with a "
                                                     "member's id is taken for the member and never compared")
        bad = True
    inexact = [(n, a) for n, a in ic.atoms.items() if a[0] == 'I' and not (a[1].view == a[2].view == 'taskid')]
    if inexact:
        n, a = inexact[0]
        o.refute(f, f.node, 'inexact ids', f"the intersection compares {a[1].view} with {a[2].view}, not the exact ids")
        bad = True
    if 'dedup-taskid' in ic.notes:
        o.refute(f, f.node, 'duplicates inside the argument', "the incoming tasks are de-duplicated by task id before their ids are counted: two "
                                                              "different incoming tasks with the same id are never detected")
        bad = True
    I_atoms = [(n, a) for n, a in ic.atoms.items() if a[0] == 'I' and a[1].view == a[2].view == 'taskid']
    D_atoms = [(n, a) for n, a in ic.atoms.items() if a[0] == 'D']
    E_atoms = [(n, a) for n, a in ic.atoms.items() if a[0] == 'E']
    opaque = sorted(a for a in T.atoms_of(R) if a.startswith('opaque:'))
    ident = ('notin_identity', tree_m)
    # the incoming side of the comparison
    new = None
    for n, a in I_atoms:
        sides = {a[1].src: a[1], a[2].src: a[2]}
        if 'tree' in sides and 'incoming' in sides and not sides['tree'].filters:
            new = sides['incoming']
            I_name = n
    if bad:
        return
    if new is None:
        if opaque or not ic.atoms:
            o.undecided(f, f.node, '_has_id_intersection', "no comparison of the ids of the receiving tree with the ids of the incoming subtrees "
                                                           "was recognised" + (": " + '; '.join(a[7:] for a in opaque[:3]) if opaque else ''))
        elif I_atoms:
            n, a = I_atoms[0]
            o.refute(f, f.node, 'final intersection', f"the ids compared are those of `{a[1].members()}` and `{a[2].members()}`, not of the whole "
                                                      f"receiving tree and of the subtrees of ALL given tasks")
        else:
            o.refute(f, f.node, 'final intersection', "the function does not return whether the id sets of the receiving tree and of the incoming "
                                                      "subtrees intersect")
        return
    o.site(f, f.node, "receiving tree = subtree of the root of the receiving task")
    o.site(f, f.node, "incoming = subtrees of every given task")
    extra = new.filters - {ident, ('not_none',)}
    if ident not in new.filters:
        o.refute(f, f.node, 'identity filter', "tasks that already belong to the receiving tree are not filtered out by object identity before the "
                                               "id comparison: re-assigning a member is taken for a clash")
        return
    if extra:
        o.undecided(f, f.node, 'identity filter', f"the incoming tasks are additionally filtered by {sorted(extra)}")
        return
    o.site(f, f.node, "tasks already in the tree are recognised by object identity")
    # the incoming list is the concatenation of the subtrees of the given tasks: a task named twice, or named together with one of its
    # own descendants, is in it more than once.  Counting ids for duplicates needs that list reduced to one entry per OBJECT first
    loose = [(n, a) for n, a in D_atoms if n in T.atoms_of(R) and a[1].src == 'incoming' and a[1].dedup is None and a[1].kind == 'list']
    if loose and not opaque:
        o.refute(f, f.node, 'duplicates counted per mention', "the test for different incoming tasks with equal ids counts the ids of the "
                 "incoming subtrees without reducing them to one entry per task OBJECT first: a task given twice, or given together with one of "
                 "its own descendants, counts as two tasks with one id and the attach is refused with a spurious id clash (a removed subtree "
                 "cannot be re-attached that way)")
        return
    # ---- property side:  D[new] or I[tree,new]  ==>  R      with   E[X] ==> not D, not I   for X a superset of new
    D = T.F_atom('D*')
    I = T.F_atom(I_name)
    ren = {}
    for n, a in D_atoms:
        if a[1].src == 'incoming' and a[1].filters <= new.filters:
            ren[n] = 'D*'
    R2 = _rename(R, ren)
    axioms = []
    for n, a in E_atoms:
        if a[1].src in ('incoming', 'given') and a[1].filters <= new.filters:
            axioms.append(T.F_or(T.F_not(T.F_atom(n)), T.F_and(T.F_not(D), T.F_not(I))))
    V_atoms = [(n, a) for n, a in ic.atoms.items() if a[0] == 'V' and n in T.atoms_of(R2)]
    if V_atoms:
        vnode = V_atoms[0][1][1]
        use = _result_use(ctx, f)
        if use == 'is-none':
            R2 = _assume_true(R2, {n for n, _ in V_atoms})          # callers ask `is not None`: a falsy id still counts
        elif use == 'truth' and T.implication(T.F_and(T.F_or(D, I), *axioms), [_assume_true(R2, {n for n, _ in V_atoms})]) is None:
            o.refute(f, vnode, vnode, f"{f.name} hands back the colliding id itself (`return {src(vnode)}`) and its callers "
                     f"test that value for truth: a collision on a falsy id (0, '', 0.0, False) counts as 'no collision' and the attach is accepted")
            return
        else:
            o.undecided(f, vnode, vnode, f"{f.name} returns the colliding id; cannot tell how every caller tests it")
            return
    cex = T.implication(T.F_and(T.F_or(D, I), *axioms), [R2])
    if cex is None:
        o.site(f, f.node, "distinct incoming tasks with equal ids are rejected")
        o.site(f, f.node, "ids of tree and incoming tasks intersected exactly")
        return
    if opaque:
        o.undecided(f, f.node, '_has_id_intersection', "result depends on conditions the rule cannot interpret: " + '; '.join(a[7:] for a in opaque[:3]))
        return
    if 'D*' not in T.atoms_of(R2):
        o.refute(f, f.node, 'duplicates inside the argument', "two different incoming tasks with the same id are not detected (each is only compared "
                                                              "with the receiving tree)")
        return
    sizes = [a[1] for n, a in ic.atoms.items() if a[0] == 'N' and n in T.atoms_of(R2)]
    txt = ', '.join(f"{k}={v}" for k, v in sorted(cex.items()) if not k.startswith('_'))
    if sizes:
        o.refute(f, sizes[0], sizes[0], f"the result depends on the size test `{src(sizes[0])[:60]}`: the function can return False although ids "
                                        f"clash ({txt})")
        return
    o.refute(f, f.node, 'result', f"the function can return False although ids clash: {txt}")


def check_collect_subtree(ctx, o, f):
    """_collect_subtree(task) = the task itself plus, for every child, the child's subtree (or: plus all_children)"""
    from sa.flow import Expander
    prog = ctx.prog
    p = f.params[0]
    # `return list(_iter_subtree(task))`: the walk lives in a generator / helper of one parameter
    rets = [r for r in walk_no_nested(f.node) if isinstance(r, ast.Return) and r.value is not None]
    if len(rets) == 1 and len(f.body) <= 2:
        v = rets[0].value
        m = match("list($c)", v) or match("[$x for $x in $c]", v)
        c = m['c'] if m is not None else v
        if isinstance(c, ast.Call) and isinstance(c.func, ast.Name) and c.func.id != f.name and len(c.args) == 1 and \
                isinstance(c.args[0], ast.Name) and c.args[0].id == p:
            tg = [t for t in ctx.typer.resolve_name_call(c.func.id, f) if t.kind == 'function']
            if len(tg) == 1 and len(tg[0].params) == 1:
                return check_collect_subtree(ctx, o, tg[0])
    ex = Expander(prog, f, ctx.typer, inline=False)
    includes_self = any(isinstance(n, ast.Yield) and isinstance(n.value, ast.Name) and n.value.id == p and
                        not cfg_of(f).conditions(cfg_of(f).node_containing(n)) for n in walk_no_nested(f.node)) or any(isinstance(n, ast.List) and any(isinstance(e, ast.Name) and e.id == p for e in n.elts) for n in ast.walk(f.node)) or \
        any(match(f"$l.append({p})", n) for n in ast.walk(f.node))
    rec = [c for c in facts.calls_named(f, f.name)]
    covers = None
    for c in rec:
        if len(c.args) == 1 and isinstance(c.args[0], ast.Name):
            v = c.args[0].id
        elif not c.args and isinstance(c.func, ast.Attribute) and isinstance(c.func.value, ast.Name):
            v = c.func.value.id                    # method form: ch._subtree()
        else:
            continue
        its = []
        for n in ast.walk(f.node):
            if isinstance(n, ast.For) and isinstance(n.target, ast.Name) and n.target.id == v and any(x is c for x in ast.walk(n)):
                its.append(ex.expand(n.iter, cfg_of(f).node_of(n)))
            elif isinstance(n, (ast.ListComp, ast.GeneratorExp, ast.SetComp)) and any(x is c for x in ast.walk(n)):
                its += [g.iter for g in n.generators if isinstance(g.target, ast.Name) and g.target.id == v]
        for it in its:
            m = match("list($x)", it)
            it = m['x'] if m is not None else it
            if match(f"{p}.children", it) or match(f"{p}._Task__children", it):
                conds = [t for t in cfg_of(f).conditions(cfg_of(f).node_containing(c)) if True] if cfg_of(f).node_containing(c) is not None else []
                covers = c if not conds else covers
                if conds:
                    o.refute(f, c, c, "the subtrees of only some children are collected (" + ', '.join(facts.cond_texts(conds))[:80] + ")")
                    return
    whiles = [n for n in walk_no_nested(f.node) if isinstance(n, ast.While)]
    if not rec and len(whiles) == 1:
        r = _collect_worklist(f, p, whiles[0])
        if r is not None:
            kind, node, msg = r
            (o.site if kind == 'site' else o.refute if kind == 'refute' else o.undecided)(f, node, *([msg] if kind == 'site' else [node, msg]))
            return
    flat = [n for n in ast.walk(f.node) if isinstance(n, ast.Attribute) and n.attr == 'all_children' and isinstance(n.value, ast.Name) and n.value.id == p]
    if covers is None and flat:
        covers = flat[0]
    if covers is not None and includes_self:
        o.site(f, covers, "_collect_subtree = the task and the subtree of every child")
    elif covers is not None:
        o.refute(f, f.node, '_collect_subtree self', "_collect_subtree does not list the task itself: the ids of the given tasks / of the root are not "
                                                     "compared")
    elif not rec and not flat and not [c for c in walk_no_nested(f.node) if isinstance(c, ast.Call) and isinstance(c.func, (ast.Name, ast.Attribute))
                                       and (c.func.id if isinstance(c.func, ast.Name) else c.func.attr) not in ('append', 'extend', 'list')]:
        o.refute(f, f.node, '_collect_subtree descendants', "_collect_subtree does not descend into the children: only the task itself is compared, "
                                                            "a duplicate id deeper in the subtree is not seen")
    else:
        o.undecided(f, f.node, '_collect_subtree', "subtree collection in an unrecognised form")


def _assume_true(f, names):
    k = f[0]
    if k == 'atom':
        return ('const', True) if f[1] in names else f
    if k == 'not':
        return ('not', _assume_true(f[1], names))
    if k in ('and', 'or'):
        return (k, [_assume_true(x, names) for x in f[1]])
    return f


def _result_use(ctx, f) -> str:
    """how the callers of the predicate test its result: 'truth' (if r: / if f(..):), 'is-none' (r is not None), 'mixed/unknown'"""
    from sa.flow import flow_of
    kinds = set()
    for g in ctx.prog.all_funcs():
        if g is f or isinstance(g.node, ast.Lambda):
            continue
        for c in facts.calls_named(g, f.name):
            if not isinstance(c.func, ast.Name):
                continue
            names = set()
            for n in walk_no_nested(g.node):
                if isinstance(n, ast.Assign) and n.value is c and len(n.targets) == 1 and isinstance(n.targets[0], ast.Name):
                    names.add(n.targets[0].id)
            found = False
            for n in walk_no_nested(g.node):
                tests = []
                if isinstance(n, (ast.If, ast.While, ast.IfExp)):
                    tests = [n.test]
                elif isinstance(n, ast.Assert):
                    tests = [n.test]
                for t in tests:
                    for a, p in facts.split_conj(t, True) + ([x for v in t.values for x in facts.split_conj(v, True)] if isinstance(t, ast.BoolOp) else []):
                        core, _ = facts.norm_cond(a, p)
                        if core is c or (isinstance(core, ast.Name) and core.id in names):
                            kinds.add('truth')
                            found = True
                        m = match("$x is None", core)
                        if m is not None and (m['x'] is c or (isinstance(m['x'], ast.Name) and m['x'].id in names)):
                            kinds.add('is-none')
                            found = True
            if not found:
                kinds.add('unknown')
    if kinds == {'truth'}:
        return 'truth'
    if kinds == {'is-none'}:
        return 'is-none'
    return 'unknown'


def _rename(f, ren):
    k = f[0]
    if k == 'atom':
        return ('atom', ren.get(f[1], f[1]))
    if k == 'not':
        return ('not', _rename(f[1], ren))
    if k in ('and', 'or'):
        return (k, [_rename(x, ren) for x in f[1]])
    return f


def worklist_shape(f, p, wl):
    """`q = [p]` (or the children of p); `while q: cur = q.pop..(); ...; q.extend(<children of cur>)`  ->
    dict(q, cur, starts ('self' | 'children' | None), push ('all' | 'conditional' | 'none' | 'unknown'), push_stmt) or None"""
    from sa.flow import flow_of
    q = wl.test.id if isinstance(wl.test, ast.Name) else None
    if q is None:
        m = match("len($q) > 0", wl.test) or match("len($q) != 0", wl.test) or match("len($q)", wl.test)
        q = m['q'].id if m is not None and isinstance(m['q'], ast.Name) else None
    if q is None:
        return None
    fl = flow_of(f)
    inits = [d for d in fl.defs_of(q) if d.kind == 'assign' and not any(x is d.stmt for x in ast.walk(wl))]
    if len(inits) != 1:
        return None
    iv = inits[0].value
    m = match("deque($x)", iv) or match("collections.deque($x)", iv)
    iv = m['x'] if m is not None else iv
    starts = 'self' if (match(f"[{p}]", iv) or match(f"({p},)", iv)) else ('children' if _children_of(iv, p) is not None else None)
    cur = None
    for st in wl.body:
        if isinstance(st, ast.Assign) and len(st.targets) == 1 and isinstance(st.targets[0], ast.Name) and \
                (match(f"{q}.pop()", st.value) or match(f"{q}.popleft()", st.value) or match(f"{q}.pop(0)", st.value)):
            cur = st.targets[0].id
    if cur is None:
        return None
    cfg = cfg_of(f)
    base = cfg.conditions(cfg.node_of(wl.body[0]))
    pushes = []
    for st in wl.body:
        for x in ast.walk(st):
            if isinstance(x, ast.Call) and isinstance(x.func, ast.Attribute) and isinstance(x.func.value, ast.Name) and x.func.value.id == q and \
                    x.func.attr in ('extend', 'extendleft') and len(x.args) == 1 and _children_of(x.args[0], cur) is not None:
                pushes.append(x)
            elif isinstance(x, ast.AugAssign) and isinstance(x.target, ast.Name) and x.target.id == q and _children_of(x.value, cur) is not None:
                pushes.append(x)
    if not pushes:
        push = 'unknown' if any(_children_of(x, cur) is not None for st in wl.body for x in ast.walk(st) if isinstance(x, ast.expr)) else 'none'
        return dict(q=q, cur=cur, starts=starts, push=push, push_stmt=None, base=base)
    pn = cfg.node_containing(pushes[0]) or cfg.node_of(pushes[0])
    push = 'all' if pn is not None and cfg.conditions(pn) == base else 'conditional'
    return dict(q=q, cur=cur, starts=starts, push=push, push_stmt=pushes[0], base=base)


def _collect_worklist(f, p, wl):
    """res = []; q = [task]; while q: cur = q.pop..(); res.append(cur); q.extend(<children of cur, any order>)   (the order is
    irrelevant for the id test)  ->  (kind, node, message) or None"""
    from sa.flow import flow_of
    q = wl.test.id if isinstance(wl.test, ast.Name) else None
    if q is None:
        m = match("len($q) > 0", wl.test) or match("len($q) != 0", wl.test) or match("len($q)", wl.test)
        q = m['q'].id if m is not None and isinstance(m['q'], ast.Name) else None
    if q is None:
        return None
    fl = flow_of(f)
    inits = [d for d in fl.defs_of(q) if d.kind == 'assign' and not any(x is d.stmt for x in ast.walk(wl))]
    if len(inits) != 1:
        return None
    iv = inits[0].value
    m = match("deque($x)", iv) or match("collections.deque($x)", iv)
    iv = m['x'] if m is not None else iv
    starts_self = bool(match(f"[{p}]", iv) or match(f"({p},)", iv))
    starts_children = _children_of(iv, p) is not None
    cur = None
    for st in wl.body:
        if isinstance(st, ast.Assign) and len(st.targets) == 1 and isinstance(st.targets[0], ast.Name) and \
                (match(f"{q}.pop()", st.value) or match(f"{q}.popleft()", st.value) or match(f"{q}.pop(0)", st.value)):
            cur = st.targets[0].id
    if cur is None:
        return None
    emits = [st for st in wl.body if isinstance(st, ast.Expr) and match(f"$r.append({cur})", st.value)]
    if len(emits) != 1 or cfg_of(f).conditions(cfg_of(f).node_of(emits[0])) != cfg_of(f).conditions(cfg_of(f).node_of(wl.body[0])):
        return ('undecided', wl, "work-list walk: the task taken from the list is not collected exactly once, unconditionally")
    pushes = []
    for st in wl.body:
        for x in ast.walk(st):
            if isinstance(x, ast.Call) and isinstance(x.func, ast.Attribute) and isinstance(x.func.value, ast.Name) and x.func.value.id == q and \
                    x.func.attr in ('extend', 'extendleft') and len(x.args) == 1 and _children_of(x.args[0], cur) is not None:
                pushes.append((st, x))
            elif isinstance(x, ast.AugAssign) and isinstance(x.target, ast.Name) and x.target.id == q and _children_of(x.value, cur) is not None:
                pushes.append((st, x))
    if not pushes:
        if any(_children_of(x, cur) is not None for st in wl.body for x in ast.walk(st) if isinstance(x, ast.expr)):
            return ('undecided', wl, "work-list walk: the children of a collected task are pushed in an unrecognised way")
        return ('refute', wl, "_collect_subtree never descends into the children of the tasks it collects: a duplicate id deeper in the subtree "
                              "is not seen")
    pst = pushes[0][0]
    if cfg_of(f).conditions(cfg_of(f).node_of(pst)) != cfg_of(f).conditions(cfg_of(f).node_of(wl.body[0])):
        return ('refute', pst, "the children of a collected task are pushed only under a condition: parts of the subtree are not compared")
    if starts_self:
        return ('site', wl, "_collect_subtree = the task and the subtree of every child (work list)")
    if starts_children:
        extra = any(isinstance(n, ast.List) and any(isinstance(e, ast.Name) and e.id == p for e in n.elts) for n in ast.walk(f.node)) or \
            any(match(f"$l.append({p})", n) for n in ast.walk(f.node))
        if extra:
            return ('site', wl, "_collect_subtree = the task and the subtree of every child (work list over the children)")
        return ('refute', wl, "_collect_subtree does not list the task itself: the ids of the given tasks / of the root are not compared")
    return None


# ======================================================================================================================
# recursive depth-first lookup

def _dfs_shape(prog, g, k, n):
    """g(.., k, n): `[if n.id == k: return n]  for ch in n.children: [if ch.id == k: return ch]  r = g(k, ch); if r is not None: return r
    return None`  ->  dict(includes_start, compares_child, inexact) or None when g is not of that form"""
    from sa.flow import Expander
    out = {'includes_start': False, 'compares_child': False, 'inexact': None, 'recurses': False}
    loops = [x for x in walk_no_nested(g.node) if isinstance(x, (ast.For, ast.While))]
    if len(loops) != 1 or not isinstance(loops[0], ast.For) or not isinstance(loops[0].target, ast.Name) or loops[0].orelse:
        return None
    lp = loops[0]
    ch = lp.target.id
    if not (match(f"{n}.children", lp.iter) or match(f"{n}._Task__children", lp.iter)):
        return None
    in_loop = {id(x) for x in ast.walk(lp)}
    kpos = [p for p in g.params if p != g.self_name].index(k)

    def rec_call(e):
        if not isinstance(e, ast.Call) or len(e.args) != 2 or e.keywords:
            return False
        fn = e.func
        nm = unmangle(fn.attr) if isinstance(fn, ast.Attribute) else (fn.id if isinstance(fn, ast.Name) else None)
        if nm != g.name:
            return False
        a_k, a_n = e.args[kpos], e.args[1 - kpos]
        return isinstance(a_k, ast.Name) and a_k.id == k and isinstance(a_n, ast.Name) and a_n.id == ch
    ex = Expander(prog, g, None, inline=False)
    for r in [x for x in walk_no_nested(g.node) if isinstance(x, ast.Return)]:
        v = r.value
        if v is None or (isinstance(v, ast.Constant) and v.value is None):
            continue
        conds = facts.node_conditions(prog, g, r, None, expand=True)
        own = [(t, q) for t, q in conds]
        vx = ex.expand(v)
        if isinstance(v, ast.Name) and v.id in (n, ch) and ((id(r) in in_loop) == (v.id == ch)):
            who = v.id
            eq = [(t, q) for t, q in own if facts.cond_is(t, q, f"{who}.id == {k}", True) is not None or facts.cond_is(t, q, f"{k} == {who}.id", True) is not None]
            if eq:
                out['includes_start' if who == n else 'compares_child'] = True
                continue
            loose = [(t, q) for t, q in own if who in {x.id for x in ast.walk(t) if isinstance(x, ast.Name)}]
            if loose:
                out['inexact'] = loose[0][0]
                out['includes_start' if who == n else 'compares_child'] = True
                continue
            return None
        if id(r) in in_loop and rec_call(vx):
            if any(facts.cond_is(t, q, "$x is None", False) is not None and rec_call(facts.norm_cond(t, q)[0].left) for t, q in own):
                out['recurses'] = True
                continue
            return None
        return None
    if not out['recurses']:
        return None
    return out


def dfs_lookup(ctx, o, f, p) -> bool:
    """WBS.__getitem__ through a recursive depth-first search helper; True when the form was recognised (verdicts recorded)"""
    from sa.flow import Expander
    from sa.effects import Effects
    prog = ctx.prog
    ex = Expander(prog, f, ctx.typer, inline=False)
    cfg = cfg_of(f)
    for c in [x for x in walk_no_nested(f.node) if isinstance(x, ast.Call)]:
        g = ex._single_target(c)
        if g is None or g is f or g.cls != f.cls or len(c.args) != 2 or c.keywords:
            continue
        gp = [x for x in g.params if x != g.self_name]
        idx = [i for i, a in enumerate(c.args) if isinstance(a, ast.Name) and a.id == p]
        if len(gp) != 2 or len(idx) != 1:
            continue
        k, n = gp[idx[0]], gp[1 - idx[0]]
        shape = _dfs_shape(prog, g, k, n)
        if shape is None:
            continue
        if shape['inexact'] is not None:
            o.refute(g, shape['inexact'], shape['inexact'], f"lookup matches `{src(shape['inexact'])[:60]}` instead of `t.id == {k}`: not exact")
            return True
        start = ex.expand(c.args[1 - idx[0]])
        fors = cfg.enclosing_fors(cfg.node_containing(c))
        if match("self._WBS__root", start):
            if shape['includes_start']:
                o.refute(f, c, c, f"the search starts at the hidden WBS root task and {g.name} compares the start task itself: WBS[<id of the root "
                                  f"task>] returns a task that is not a member instead of raising RuntimeError")
                return True
            o.site(f, c, f"depth-first search over all members ({g.name} from the root task, which is not compared itself)")
        elif fors and isinstance(fors[-1].target, ast.Name) and isinstance(c.args[1 - idx[0]], ast.Name) and \
                c.args[1 - idx[0]].id == fors[-1].target.id and (
                match("self._WBS__root.children", fors[-1].iter) or match("self.roots", fors[-1].iter) or
                match("self._WBS__root._Task__children", fors[-1].iter)):
            if not shape['includes_start']:
                o.refute(f, c, c, f"{g.name} never compares the task it starts from: the top-level tasks of the WBS are not found")
                return True
            o.site(f, c, f"depth-first search over all members ({g.name} from every top-level task)")
        else:
            o.undecided(f, c, c, f"depth-first search {g.name} started from `{src(start)[:40]}`: cannot tell which tasks are searched")
            return True
        ok = True
        for rt in [x for x in walk_no_nested(f.node) if isinstance(x, ast.Return) and x.value is not None]:
            v = ex.expand(rt.value)
            if not (isinstance(v, ast.Call) and ex._single_target(v) is g):
                o.refute(f, rt, rt, f"WBS[id] can return `{src(rt.value)}` which is not the result of the search over the current members")
                ok = False
                continue
            conds = facts.node_conditions(prog, f, rt, ctx.typer, expand=True)
            if not any(facts.cond_is(t, q, "$x is None", want=False) is not None and same(facts.norm_cond(t, q)[0].left, v) for t, q in conds):
                o.refute(f, rt, rt, "lookup returns None for a missing id instead of raising")
                ok = False
        raises = [x for x in walk_no_nested(f.node) if isinstance(x, ast.Raise)]
        if ok and raises and all(facts.exc_name(x) == 'RuntimeError' for x in raises):
            o.site(f, raises[0], "missing id (None from the search) -> RuntimeError")
        elif ok:
            o.refute(f, f.node, 'missing id', "a missing id does not end in RuntimeError")
        eff = Effects(prog, ctx.typer, ctx.cg)
        for w in eff.direct_writes(f) + eff.direct_writes(g):
            if w.root == 'self':
                o.refute(f, w.node, w.node, f"lookup changes WBS state ({w.field}): later lookups depend on earlier ones")
        return True
    return False


# ======================================================================================================================
# memoised flat list of descendants

_LIST_MUT = ('append', 'remove', 'clear', 'insert', 'extend', 'pop', 'sort', 'reverse')


def flat_list_cache(ctx, o) -> Optional[bool]:
    """Task.all_children remembering its result in a field of the task.  None: no cache (nothing recorded).  Otherwise the
    invalidation is examined: every change of a child list must be followed, on every path, by a reset of the cache of the list
    owner AND of all its raw ancestors (the WBS root task included, WBS.tasks is its flat list).  A change that is not, is refuted
    by name; when all are, the obligation stays undecided (completeness of the invalidation is not provable here)."""
    from sa.flow import Expander
    prog = ctx.prog
    h = prog.func('task.Task.__get_all_children')
    s = h.self_name
    fields = set()
    readers = [h] + ([prog.funcs['task.Task.all_children']] if 'task.Task.all_children' in prog.funcs else [])
    for rd in readers:
        for x in walk_no_nested(rd.node):
            if isinstance(x, ast.Attribute) and isinstance(x.value, ast.Name) and x.value.id == rd.self_name and x.attr != '_Task__children':
                m = prog.find_method('Task', unmangle(x.attr))
                if m is None and prog.find_getter('Task', unmangle(x.attr)) is None:
                    fields.add(x.attr)
    if not fields:
        return None
    F = sorted(fields)[0]
    task_funcs = [g for g in prog.all_funcs() if g.module.name == 'task' and g.cls == 'Task' and not isinstance(g.node, ast.Lambda)]
    # ---- invalidators
    chain, own_only, public_chain = set(), set(), set()
    for g in task_funcs:
        if g in readers or g.name == '__init__':
            continue
        resets = [(st, tgt) for st, tgt, val in facts.attr_stores(g, F) if isinstance(val, ast.Constant) and val.value is None]
        if not resets:
            continue
        climbs = None
        for st, tgt in resets:
            if not isinstance(tgt.value, ast.Name):
                continue
            v = tgt.value.id
            for lp in [x for x in walk_no_nested(g.node) if isinstance(x, ast.While)]:
                if not any(x is st for x in ast.walk(lp)):
                    continue
                for a in [x for x in ast.walk(lp) if isinstance(x, ast.Assign)]:
                    if len(a.targets) == 1 and isinstance(a.targets[0], ast.Name) and a.targets[0].id == v:
                        if match(f"{v}._Task__parent", a.value):
                            climbs = 'raw'
                        elif match(f"{v}.parent", a.value) and climbs is None:
                            climbs = 'public'
        rec = any(isinstance(c.func, ast.Attribute) and match(f"{g.self_name}._Task__parent", c.func.value) for c in facts.calls_named(g, g.name))
        if climbs == 'raw' or rec:
            chain.add(g.name)
        elif climbs == 'public':
            public_chain.add(g.name)
        else:
            own_only.add(g.name)
    # ---- child-list changes
    verdict_bad = False
    n_sites = 0
    for g in task_funcs:
        if g.name == '__init__' or g in readers:
            continue
        cfg = cfg_of(g)
        ex = Expander(prog, g, ctx.typer, inline=False)
        sites = []
        for x in walk_no_nested(g.node):
            if isinstance(x, ast.Call) and isinstance(x.func, ast.Attribute) and x.func.attr in _LIST_MUT:
                r = ex.expand(x.func.value)
                if isinstance(r, ast.Attribute) and r.attr == '_Task__children':
                    sites.append((x, r.value))
            elif isinstance(x, (ast.Assign, ast.AugAssign, ast.Delete)):
                tg = x.targets if isinstance(x, (ast.Assign, ast.Delete)) else [x.target]
                for t in tg:
                    if isinstance(t, ast.Subscript):
                        t = t.value
                    if isinstance(t, ast.Attribute) and t.attr == '_Task__children':
                        sites.append((x, t.value))
        for node, recv in sites:
            n_sites += 1
            sn = cfg.node_containing(node) or cfg.node_of(node)
            if sn is None:
                continue
            full, part, pub = set(), set(), set()
            for cn in cfg.nodes:
                st = cn.ast
                if st is None or cn.kind not in ('stmt',):
                    continue
                for c in [y for y in ast.walk(st) if isinstance(y, ast.Call) and isinstance(y.func, ast.Attribute)]:
                    nm = unmangle(c.func.attr)
                    if same(c.func.value, recv) or same(ex.expand(c.func.value), ex.expand(recv)):
                        if nm in chain:
                            full.add(cn.id)
                        elif nm in own_only or nm in public_chain:
                            part.add(cn.id)
                            if nm in public_chain:
                                pub.add(cn.id)
                if isinstance(st, ast.Assign) and any(isinstance(t, ast.Attribute) and t.attr == F and same(t.value, recv) for t in st.targets) \
                        and isinstance(st.value, ast.Constant) and st.value.value is None:
                    part.add(cn.id)

            def leaks(stop):
                seen, todo = set(), list(sn.succ)
                while todo:
                    q = todo.pop()
                    if q.id in seen or q.id in stop:
                        continue
                    seen.add(q.id)
                    if q is cfg.exit:
                        return True
                    todo.extend(q.succ)
                return False
            if g.name in chain and same(recv, ast.Name(id=g.self_name, ctx=ast.Load())):
                continue
            if not leaks(full):
                continue
            verdict_bad = True
            if not leaks(full | part) and pub and not leaks(full | pub):
                o.refute(g, node, node, f"all_children is memoised in Task.{unmangle(F)}; after `{src(node)[:50]}` the reset climbs through "
                                        f"Task.parent, which hides the WBS root task: WBS.tasks and wbs[id] (the root task's flat list) stay stale")
            elif not leaks(full | part):
                o.refute(g, node, node, f"all_children is memoised in Task.{unmangle(F)}; after `{src(node)[:50]}` only the cache of the list owner "
                                        f"is reset: its ancestors and the WBS root task (WBS.tasks, wbs[id]) keep a stale flat list")
            else:
                o.refute(g, node, node, f"all_children is memoised in Task.{unmangle(F)}; `{src(node)[:50]}` changes a child list and a path to the "
                                        f"end of {g.name} resets no cache of `{src(recv)}` and its ancestors: WBS.tasks / wbs[id] / all_children "
                                        f"keep listing the old members")
    if not verdict_bad:
        o.undecided(h, h.node, 'all_children cache', f"all_children is memoised in Task.{unmangle(F)}; every child-list change the rule found "
                                                     f"({n_sites}) is followed by a reset of the whole parent chain, but that the set of changes is "
                                                     f"complete cannot be established here")
    return True


# ======================================================================================================================
# enumeration order of Task.all_children

def _children_of(e, n):
    """('plain' | 'reversed' | 'other:<text>') when e denotes the child list of n in some order, else None"""
    for pat in (f"{n}._Task__children", f"{n}.children"):
        if match(pat, e) or match(f"list({pat})", e) or match(f"{pat}[:]", e) or match(f"{pat}.copy()", e) or match(f"tuple({pat})", e):
            return 'plain'
        if match(f"reversed({pat})", e) or match(f"{pat}[::-1]", e) or match(f"list(reversed({pat}))", e) or match(f"list({pat})[::-1]", e):
            return 'reversed'
        if any(match(pat, x) for x in ast.walk(e)):
            return 'other:' + src(e)[:40]
    return None


def check_enumeration(ctx, o, h):
    """Task.__get_all_children lists every descendant in pre-order (a child directly followed by its subtree), siblings in list
    order.  Understood: a recursive generator / accumulator (nested def, static or private method, or the function itself) and an
    explicit work list (stack popped from the right, deque / list popped from the left)."""
    from sa.flow import Expander
    prog = ctx.prog
    s = h.self_name
    ex = Expander(prog, h, ctx.typer, inline=False)
    rets = [r for r in walk_no_nested(h.node) if isinstance(r, ast.Return) and r.value is not None]
    if len(rets) != 1:
        o.undecided(h, h.node, 'all_children', "all_children has several returns")
        return
    v = rets[0].value
    vx = ex.expand(v)
    call = None
    acc_param = None
    m = match("list($c)", vx) or match("[$x for $x in $c]", vx)
    if m is not None and isinstance(m['c'], ast.Call):
        call = m['c']
    elif isinstance(vx, ast.Call) and not match("list($c)", vx):
        call = vx
    walker, node = None, None
    if call is not None:
        fn = call.func
        name = fn.id if isinstance(fn, ast.Name) else (unmangle(fn.attr) if isinstance(fn, ast.Attribute) else None)
        cands = [x for x in prog.all_funcs() if x.name == name and (x.parent is h or (x.cls == 'Task' and x.parent is None) or
                                                                     (x.cls is None and x.module.name == 'task' and x.parent is None))]
        if len(cands) == 1:
            walker = cands[0]
            ps = list(walker.params)
            if len(call.args) == 1 and isinstance(call.args[0], ast.Name) and call.args[0].id == s and ps:
                node = ps[-1] if len(ps) == 1 or ps[0] in ('self', 'cls') else ps[0]
                if len(ps) == 1:
                    node = ps[0]
            elif not call.args and isinstance(fn, ast.Attribute) and isinstance(fn.value, ast.Name) and fn.value.id == s and walker.self_name:
                node = walker.self_name
    elif isinstance(v, ast.Name) or isinstance(vx, ast.Name):
        walker, node = h, s
        # `acc = []; self.__collect(acc); return acc`: the walk fills an accumulator it is handed
        accn = v.id if isinstance(v, ast.Name) else None
        if accn is not None and not any(isinstance(x, (ast.For, ast.While)) for x in walk_no_nested(h.node)):
            for st in h.body:
                c = st.value if isinstance(st, ast.Expr) and isinstance(st.value, ast.Call) else None
                if c is None or not isinstance(c.func, ast.Attribute) or not (isinstance(c.func.value, ast.Name) and c.func.value.id == s):
                    continue
                if len(c.args) == 1 and isinstance(c.args[0], ast.Name) and c.args[0].id == accn:
                    m_ = prog.find_method('Task', unmangle(c.func.attr))
                    if m_ is not None and m_.self_name and len(m_.params) == 2:
                        walker, node, acc_param = m_, m_.self_name, [x for x in m_.params if x != m_.self_name][0]
    if walker is None or node is None:
        o.undecided(h, h.node, 'all_children', f"all_children returns `{src(vx)[:60]}`: a traversal the rule cannot locate")
        return
    W, n = walker, node
    names = {W.name, h.name}

    def rec_on(e, ch):
        """e is the flat list / generator of the descendants of ch"""
        if isinstance(e, ast.Call):
            fn = e.func
            nm = fn.id if isinstance(fn, ast.Name) else (unmangle(fn.attr) if isinstance(fn, ast.Attribute) else None)
            if nm in names:
                if len(e.args) == 1 and isinstance(e.args[0], ast.Name) and e.args[0].id == ch:
                    return True
                if not e.args and isinstance(fn, ast.Attribute) and isinstance(fn.value, ast.Name) and fn.value.id == ch:
                    return True
            if nm == 'list' and len(e.args) == 1:
                return rec_on(e.args[0], ch)
        return bool(match(f"{ch}.all_children", e))
    whiles = [x for x in walk_no_nested(W.node) if isinstance(x, ast.While)]
    fors = [x for x in walk_no_nested(W.node) if isinstance(x, ast.For) and isinstance(x.target, ast.Name)]
    wex = Expander(prog, W, ctx.typer, inline=False)
    wcfg = cfg_of(W)
    if whiles:
        _worklist(ctx, o, W, n, whiles, wex, wcfg)
        return
    loops = [(lp, _children_of(wex.expand(lp.iter, wcfg.node_of(lp)), n)) for lp in fors]
    loops = [(lp, k) for lp, k in loops if k is not None]
    if len(loops) != 1:
        o.undecided(W, W.node, 'all_children', f"{len(loops)} loops over the child list: traversal in an unrecognised form")
        return
    lp, kind = loops[0]
    if kind != 'plain':
        o.refute(W, lp, lp.iter, f"children are enumerated through `{src(lp.iter)[:40]}`, not in list order")
        return
    ch = lp.target.id
    seq = []
    for st in lp.body:
        what = None
        if isinstance(st, ast.Expr):
            e = st.value
            if isinstance(e, ast.Yield) and isinstance(e.value, ast.Name) and e.value.id == ch:
                what = 'emit'
            elif isinstance(e, ast.YieldFrom) and rec_on(e.value, ch):
                what = 'rec'
            elif acc_param is not None and isinstance(e, ast.Call) and isinstance(e.func, ast.Attribute) and len(e.args) == 1 and \
                    unmangle(e.func.attr) in names and isinstance(e.func.value, ast.Name) and e.func.value.id == ch and \
                    isinstance(e.args[0], ast.Name) and e.args[0].id == acc_param:
                what = 'rec'                 # ch.__collect(acc): the same accumulator is handed down
            elif isinstance(e, ast.Call) and isinstance(e.func, ast.Attribute) and len(e.args) == 1:
                if e.func.attr == 'append' and isinstance(e.args[0], ast.Name) and e.args[0].id == ch:
                    what = 'emit'
                elif e.func.attr == 'extend' and rec_on(e.args[0], ch):
                    what = 'rec'
        elif isinstance(st, ast.AugAssign) and isinstance(st.op, ast.Add):
            if match(f"[{ch}]", st.value):
                what = 'emit'
            elif rec_on(st.value, ch):
                what = 'rec'
        elif isinstance(st, ast.For) and isinstance(st.target, ast.Name) and rec_on(st.iter, ch) and len(st.body) == 1:
            b = st.body[0]
            if isinstance(b, ast.Expr) and (isinstance(b.value, ast.Yield) and isinstance(b.value.value, ast.Name) and b.value.value.id == st.target.id
                                            or match(f"$a.append({st.target.id})", b.value)):
                what = 'rec'
        seq.append((what, st))
    kinds = [k for k, _ in seq]
    if kinds == ['emit', 'rec']:
        o.site(W, lp, "pre-order: child, then its subtree, siblings in list order")
    elif kinds == ['rec', 'emit']:
        o.refute(W, lp, lp, "all_children lists a task AFTER its descendants (post-order), not each task directly followed by its descendants")
    elif kinds == ['emit']:
        o.refute(W, lp, lp, "all_children lists only the direct children: deeper members are missing from WBS.tasks / wbs[id]")
    elif kinds == ['rec']:
        o.refute(W, lp, lp, "all_children descends into the children but never lists a child itself: WBS.tasks / wbs[id] see no member")
    elif None in kinds and any(isinstance(st, (ast.If, ast.Try, ast.While)) for k, st in seq if k is None):
        bad = next(st for k, st in seq if k is None)
        if isinstance(bad, ast.If) and any(isinstance(x, (ast.Yield, ast.YieldFrom)) or (isinstance(x, ast.Call) and isinstance(x.func, ast.Attribute)
                                                                                       and x.func.attr in ('append', 'extend')) for x in ast.walk(bad)):
            o.refute(W, bad, bad, f"all_children lists a child / its subtree only under `{src(bad.test)[:50]}`: not every member is enumerated")
        else:
            o.undecided(W, lp, lp, "traversal loop with statements the rule does not follow")
    else:
        o.undecided(W, lp, lp, "all_children is not recognisably pre-order depth first in list order")


def _worklist(ctx, o, W, n, whiles, wex, wcfg):
    """res = []; q = <children of n>; while q: t = q.pop..(); res.append(t); q.<push children of t>"""
    if len(whiles) != 1:
        o.undecided(W, W.node, 'all_children', "several while loops: traversal in an unrecognised form")
        return
    wl = whiles[0]
    q = wl.test.id if isinstance(wl.test, ast.Name) else None
    if q is None:
        m = match("len($q) > 0", wl.test) or match("len($q) != 0", wl.test) or match("len($q)", wl.test)
        q = m['q'].id if m is not None and isinstance(m['q'], ast.Name) else None
    if q is None:
        o.undecided(W, wl, wl.test, "work-list loop with an unrecognised condition")
        return
    from sa.flow import flow_of
    fl = flow_of(W)
    inits = [d for d in fl.defs_of(q) if d.kind == 'assign' and not any(x is d.stmt for x in ast.walk(wl))]
    if len(inits) != 1:
        o.undecided(W, wl, wl, f"work list `{q}` has {len(inits)} initialisations")
        return
    iv = inits[0].value
    m = match("deque($x)", iv) or match("collections.deque($x)", iv)
    is_deque = m is not None
    init_kind = _children_of(m['x'] if m is not None else iv, n)
    if init_kind is None or init_kind.startswith('other'):
        o.undecided(W, inits[0].stmt, inits[0].stmt, f"work list starts from `{src(iv)[:40]}`, not from the child list")
        return
    # pop
    t, side = None, None
    for st in wl.body:
        if isinstance(st, ast.Assign) and len(st.targets) == 1 and isinstance(st.targets[0], ast.Name):
            if match(f"{q}.pop()", st.value):
                t, side = st.targets[0].id, 'right'
            elif match(f"{q}.popleft()", st.value) or match(f"{q}.pop(0)", st.value):
                t, side = st.targets[0].id, 'left'
    if t is None:
        o.undecided(W, wl, wl, "work-list loop without a recognisable pop")
        return
    emits = [st for st in wl.body if isinstance(st, ast.Expr) and (match(f"$r.append({t})", st.value) or
                                                                   (isinstance(st.value, ast.Yield) and match(t, st.value.value)))]
    if len(emits) != 1:
        o.undecided(W, wl, wl, "work-list loop: the popped task is not listed exactly once")
        return
    # push
    push = None      # (stmt, side, order of the children as they end up: 'plain' = first child nearest to that side's end? see below)
    for st in wl.body:
        e = st.value if isinstance(st, ast.Expr) else None
        if isinstance(e, ast.Call) and isinstance(e.func, ast.Attribute) and isinstance(e.func.value, ast.Name) and e.func.value.id == q and len(e.args) == 1:
            k = _children_of(e.args[0], t)
            if k is None:
                continue
            if e.func.attr == 'extend':
                push = (st, 'right', k)                    # first child deepest, last child on top of the right end
            elif e.func.attr == 'extendleft':
                # extendleft inserts one by one at the left: the LAST element given ends up first
                push = (st, 'left', 'reversed' if k == 'plain' else ('plain' if k == 'reversed' else k))
        elif isinstance(st, ast.Assign) and len(st.targets) == 1:
            tg = st.targets[0]
            if isinstance(tg, ast.Subscript) and isinstance(tg.value, ast.Name) and tg.value.id == q and \
                    (match(f"{q}[0:0]", tg) or match(f"{q}[:0]", tg)):
                k = _children_of(st.value, t)
                if k is not None:
                    push = (st, 'left', k)
            elif isinstance(tg, ast.Name) and tg.id == q and isinstance(st.value, ast.BinOp) and isinstance(st.value.op, ast.Add):
                l, r = st.value.left, st.value.right
                if isinstance(r, ast.Name) and r.id == q and _children_of(l, t) is not None:
                    push = (st, 'left', _children_of(l, t))
                elif isinstance(l, ast.Name) and l.id == q and _children_of(r, t) is not None:
                    push = (st, 'right', _children_of(r, t))
    if push is None:
        if not any(_children_of(x, t) is not None for st in wl.body for x in ast.walk(st) if isinstance(x, ast.expr)):
            o.refute(W, wl, wl, "the work-list walk never descends into the children of a listed task: only direct children are enumerated")
        else:
            o.undecided(W, wl, wl, "work-list loop: the children of the popped task are pushed in an unrecognised way")
        return
    pst, pside, porder = push
    if porder.startswith('other'):
        o.undecided(W, pst, pst, f"children are pushed through `{porder[6:]}`")
        return
    if pside != side:
        o.refute(W, pst, pst, f"the children of a listed task are pushed at the {pside} end of `{q}` but tasks are taken from the {side} end: the walk "
                              f"is breadth-first, a task is not directly followed by its descendants")
        return
    # order in which siblings come off: left-pop takes the sequence as it lies (porder as laid out from the left);
    # right-pop takes it from the end, so the children must lie reversed
    comes_off = porder if side == 'left' else ('reversed' if porder == 'plain' else 'plain')
    init_off = init_kind if side == 'left' else ('reversed' if init_kind == 'plain' else 'plain')
    if comes_off != 'plain':
        o.refute(W, pst, pst, f"`{src(pst)[:60]}` makes the children of a task come off the work list last-to-first: siblings below the first "
                              f"level are listed in reversed order, not in list order")
        return
    if init_off != 'plain':
        o.refute(W, inits[0].stmt, inits[0].stmt, f"`{src(inits[0].stmt)[:60]}`: the top-level children come off the work list last-to-first, not in "
                                                  f"list order")
        return
    o.site(W, wl, "pre-order by work list: a task is listed when taken, its children are put in front in list order")


# ======================================================================================================================
# the child list object shared between a task and its facades (own copy of taskrules.shared_list that reads through aliases:
# `shared = self._list; shared[:] = ..; self.__setter(shared)` is the same as writing self._list each time)

def shared_list(ctx, o):
    from sa.flow import Expander
    prog = ctx.prog
    g = prog.func('task.Task.children')
    gx = Expander(prog, g, ctx.typer, inline=False)
    pat = "_ChildrenList(self, self._Task__children, self._Task__set_children)"
    if any(isinstance(n, ast.Call) and (match(pat, n) or match(pat, gx.expand(n))) for n in ast.walk(g.node)):
        o.site(g, g.node, "children getter hands out the raw list object and the publish callback")
    else:
        o.refute(g, g.node, 'children getter', "the children facade is not built on the task's own list object (a copy would never reach the task)")
    cl = prog.cls('_ChildrenList')
    for m in cl.methods.values():
        if m.name == '__init__':
            continue
        ex = Expander(prog, m, ctx.typer, inline=False)
        for st, tgt, val in facts.attr_stores(m, '_list'):
            if match("self._list", tgt):
                o.refute(m, st, st, f"{m.name} rebinds the facade's list (`{src(st)[:50]}`): the task and every children list handed out earlier keep "
                                    f"the old object and go stale; the shared list must be changed in place")
        publish = [c for c in walk_no_nested(m.node) if isinstance(c, ast.Call) and isinstance(c.func, ast.Attribute) and
                   isinstance(c.func.value, ast.Name) and c.func.value.id == 'self' and c.func.attr.startswith('_ChildrenList__') and
                   unmangle(c.func.attr) not in cl.methods and c.func.attr.split('__', 1)[-1] not in cl.methods]
        for c in publish:
            a = c.args[0] if len(c.args) == 1 else None
            if a is not None and (match("self._list", a) or match("self._list", ex.expand(a))):
                o.site(m, c, f"{m.name} publishes the shared list itself")
            else:
                o.refute(m, c, c, f"{m.name} hands `{src(a) if a is not None else '?'}` to the task instead of the shared list object: lists handed "
                                  f"out earlier go stale")
    t = prog.cls('Task')
    sf = t.setters.get('children')
    if sf is not None:
        for st, tgt, val in facts.attr_stores(sf, '_Task__children'):
            if match("self._Task__children", tgt):
                o.refute(sf, st, st, "the children setter rebinds the task's child list: facades handed out earlier go stale")
    sc = prog.funcs.get('task.Task.__set_children')
    if sc is not None:
        sts = [x for x in facts.attr_stores(sc, '_Task__children')]
        p = [x for x in sc.params if x != sc.self_name]
        if all(isinstance(v, ast.Name) and p and v.id == p[0] for _, _, v in sts) or not sts:
            o.site(sc, sc.node, "publish callback stores the object it is given")
        else:
            o.refute(sc, sc.node, '__set_children', "the publish callback stores a different list than the one it is given")


def inplace_replacements(prog, typer, m):
    """[(stmt, value)] for `self._list[:] = v`, also through an alias of self._list"""
    from sa.flow import Expander
    ex = Expander(prog, m, typer, inline=False)
    out = []
    for n in walk_no_nested(m.node):
        if isinstance(n, ast.Assign) and len(n.targets) == 1:
            t = n.targets[0]
            if isinstance(t, ast.Subscript) and isinstance(t.slice, ast.Slice) and t.slice.lower is None and t.slice.upper is None and \
                    t.slice.step is None and (match("self._list", t.value) or match("self._list", ex.expand(t.value))):
                out.append((n, n.value))
    return out


# ======================================================================================================================
# every member is listed once

def listed_once(ctx, o):
    """A task given twice in an argument list must not end up twice in a child list.
    (a) `L.append(x)` / `L.insert(i, x)` on a task's child list with x running over the argument list of the function needs the guard
        `x not in L` (or goes through the parent assignment, which has it);
    (b) an in-place replacement of the facade's list must not splice the argument list in as it is."""
    from sa.flow import Expander
    prog = ctx.prog
    for f in prog.all_funcs():
        if f.module.name != 'task' or isinstance(f.node, ast.Lambda) or f.cls not in ('Task', '_ChildrenList'):
            continue
        roles = T.Roles(prog, f, ctx.typer)
        if roles.arg is None:
            continue
        ex = Expander(prog, f, ctx.typer, inline=False)
        cfg = cfg_of(f)

        def is_arg(e, _roles=roles):
            """the argument (list), possibly converted more than once: _to_list(_to_list(arg)), list(arg) ..; NOT a de-duplicated form"""
            while True:
                m = match("_to_list($x)", e) or match("list($x)", e) or match("tuple($x)", e) or match("[$y for $y in $x]", e) or match("[*$x]", e)
                if m is None:
                    break
                e = m['x']
            return isinstance(e, ast.Name) and e.id == _roles.arg
        roles.is_arg_list = is_arg
        for n in walk_no_nested(f.node):
            if not (isinstance(n, ast.Call) and isinstance(n.func, ast.Attribute) and n.func.attr in ('append', 'insert') and n.args):
                continue
            L = ex.expand(n.func.value)
            if not (isinstance(L, ast.Attribute) and L.attr == '_Task__children'):
                continue
            x = n.args[-1]
            cn = cfg.node_containing(n)
            if not isinstance(x, ast.Name) or cn is None:
                continue
            loops = [fo for fo in cfg.enclosing_fors(cn) if isinstance(fo.target, ast.Name) and fo.target.id == x.id]
            if not loops:
                if f.qual == T.SETTERS['parent'] and x.id == f.self_name:
                    o.site(f, n, "parent setter links the task itself (once per call, after the unlink)")
                continue
            it = ex.expand(loops[-1].iter, cfg.node_of(loops[-1]))
            if not roles.is_arg_list(it):
                continue
            conds = facts.node_conditions(prog, f, n, ctx.typer, expand=True)
            guarded = any(facts.cond_is(t, q, f"{x.id} in $l", False) is not None and
                          same(facts.norm_cond(t, q)[0].comparators[0], L) for t, q in conds)
            if guarded:
                o.site(f, n, f"{f.name}: `{src(n)[:40]}` only when the task is not in that list yet")
            else:
                o.refute(f, n, n, f"{f.name} puts every element of its argument into the child list (`{src(n)[:50]}`) without the test "
                                  f"`{x.id} not in {src(n.func.value)}`: a task named twice in the assignment is listed twice in children and in "
                                  f"WBS.tasks (a later move / remove unlinks only one entry)")
        if f.cls == '_ChildrenList':
            for st, value in inplace_replacements(prog, ctx.typer, f):
                vx = ex.expand(value)
                parts = []

                def summands(e):
                    if isinstance(e, ast.BinOp) and isinstance(e.op, ast.Add):
                        summands(e.left)
                        summands(e.right)
                    else:
                        parts.append(e)
                summands(vx)
                raw = [p for p in parts if roles.is_arg_list(p)]
                if len(parts) > 1 and raw:
                    o.refute(f, st, st, f"{f.name} splices its argument `{roles.arg}` into the shared child list as it is (`{src(value)[:60]}`): a task "
                                        f"named twice in the argument ends up twice in the children list and in WBS.tasks")
                    continue
                # a summand with one entry PER ELEMENT of the argument (`[by_id[i] for i in ids]`): a repeated element repeats the task -
                # unless every entry is at the same time taken out of a copy of the list (that removal fails on the repeat)
                from .c11 import _transfer_perm
                from sa.flow import flow_of
                if _transfer_perm(f, value, ex, flow_of(f)) == 'perm':
                    continue
                per_elem = [p for p in parts if isinstance(p, (ast.ListComp, ast.GeneratorExp)) and p.generators and
                            roles.is_arg_list(p.generators[0].iter) and not _dedup_filter(p)]
                if per_elem:
                    o.refute(f, st, st, f"{f.name} puts one entry per element of its argument `{roles.arg}` into the shared child list "
                                        f"(`{src(per_elem[0])[:60]}`): an element named twice puts the same task twice into the children list and "
                                        f"into WBS.tasks (a later move / remove unlinks only one entry)")


def _dedup_filter(comp) -> bool:
    """the comprehension drops repeats itself (`if x not in seen and not seen.add(x)`)"""
    return any(isinstance(x, ast.Call) and isinstance(x.func, ast.Attribute) and x.func.attr == 'add' for c in comp.generators[0].ifs for x in ast.walk(c))
