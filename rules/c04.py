"""C04 - reserved work equals remaining work and agrees with the task's dates.   (DESIGN.md section 5, C04)

Decided: the conservation skeleton of the two fill loops, default filling, first day, regions that reserve nothing,
fixed dates only written under `is None` (forward), selector agreement of the post-loop fraction.
Not decided: exact float equality of the sums; the numeric 24h window of the end.
"""
from __future__ import annotations

import ast

from sa import facts
from sa.cfg import cfg_of
from sa.flow import Expander
from sa.model import walk_no_nested
from sa.model import src, unmangle
from sa.pat import match, same
from . import sched, sched_fill, c02, c09
from .c03 import ledger_shape
from .sched import FWD, BWD, BOTH, PassShape


def check(ctx):
    ctx.assume("term expansion assumes no aliasing writes between a definition and its use inside one function")
    ctx.assume("IResource.reserve of custom resources does not change capacities read later by the same call")

    o = ctx.ob('ledger_stores_and_returns_units', 'R13',
               "reserve() appends exactly one row (resource, midnight(day), task, units) and returns exactly the units stored; "
               "queries compare the stored day key", floor=2)
    ctx.guarded(o, lambda o: ledger_shape(ctx, o))
    # a ledger query that UNDER-counts a day (a scan that stops early, rows left out) lets more be booked than the calendar offers
    # (C03) and understates the date share (C08 / C09), but every clause of C04 still holds: the amounts still add up to the
    # remaining work, one booking per day, and a share computed from a smaller sum stays inside the reserved day.  Not decided here.
    _demote(o, lambda f_: 'stops early' in f_.msg or 'leaves out rows' in f_.msg,
            " [an under-counted ledger sum is C03's / C08's / C09's finding: the reserved total, the once-per-day rule and the "
            "24-hour window of C04 do not depend on it, so for this property it is not decided]")

    for S in BOTH:
        ps = PassShape(ctx, S)
        n = S['name']
        o = ctx.ob(f'{n}_conservation', 'R13',
                   f"{n} fill loop: runs while remaining > 0; the only update is remaining -= reserve(min(remaining, free)); exactly one "
                   f"unconditional day step and at most one booking per iteration; completed tasks return before the loop", floor=2)
        ctx.guarded(o, lambda o, S=S: sched_fill.conservation(ctx, o, S))

        o = ctx.ob(f'{n}_remaining_work', 'R8',
                   f"{n}: the work handed to the fill loop is max(estimate - spent, 0); a missing estimate of a leaf is default_estimate, "
                   f"missing spent is 0, both filled only when the value `is None` and before the subtraction", floor=3)
        ctx.guarded(o, lambda o, ps=ps: remaining(ctx, o, ps))

        o = ctx.ob(f'{n}_default_estimate_kept', 'R8',
                   f"{n}: the constructor stores default_estimate unchanged (only None may be replaced by 0)", floor=1)
        ctx.guarded(o, lambda o, S=S: default_estimate_stored(ctx, o, S))

        o = ctx.ob(f'{n}_reserves_only_for_working_leaves', 'R5',
                   f"{n}: the fill loop is reachable only for non-milestone leaf tasks", floor=1)
        ctx.guarded(o, lambda o, ps=ps: only_leaves(ctx, o, ps))

        o = ctx.ob(f'{n}_each_task_scheduled_once', 'R5',
                   f"{n}: a task already in the memo is never scheduled again (entry test of the pass, or a memo guard at every call "
                   f"site including calc's root loop), and the pass records every task it schedules", floor=2)
        ctx.guarded(o, lambda o, ps=ps: sched_fill.scheduled_once(ctx, o, ps))

        o = ctx.ob(f'{n}_fill_books_where_search_accepts', 'R11',
                   f"{n}: the search accepts a day on `free > 0` and the fill books on every visited day with `free > 0` (same test): a "
                   f"scheduler-chosen start day always gets a reservation", floor=2)
        ctx.guarded(o, lambda o, S=S: sched_fill.first_fit_and_greedy(ctx, o, S, greedy=False))

        o = ctx.ob(f'{n}_fraction_selector', 'R11',
                   f"{n}: every ledger query (search, fill, post-loop date fraction) uses the balancing selector, so dates and "
                   f"reservations refer to the same bookings", floor=3)
        ctx.guarded(o, lambda o, S=S: sched_fill.selectors(ctx, o, S))

        o = ctx.ob(f'{n}_dates_encode_reservations', 'R8',
                   f"{n}: computed start/end are day + booked share of that day (same resource/day/selector as the reservations)", floor=2)
        ctx.guarded(o, lambda o, ps=ps: sched_fill.encoding(ctx, o, ps, strict_zero=False))
        ctx.guarded(o, lambda o, ps=ps: fill_result_not_searched(ctx, o, ps))
        ctx.guarded(o, lambda o, ps=ps: share_bounded_by_booking(ctx, o, ps))
        if S['dir'] == -1:
            # backward: the fill always starts on the day before midnight(end) (backward_first_day), so every reservation lies
            # before the end whatever share the search encoded into it; how the end encodes the capacity is C09's / C07's clause
            _demote(o, lambda f_, q=ctx.prog.func(S['search']).qual: f_.func == q,
                    " [backward: the reservations lie before the end whatever day share the search encodes into it (the fill starts on the "
                    "day before midnight(end)); the share formula of the end is C09's / C07's clause, for this property it is not decided]")

    # what is reserved is measured against the capacity the resource reports: it must be the calendar's answer for the date asked,
    # not a remembered one (C17's obligation, reused as in C08/C09)
    from . import c17 as _c17
    _c17._none_zero(ctx)
    # a resource that reports the calendar's answer rounded breaks C17 / C03 (more than the calendar offers is booked); the sum of
    # the reservations and the date shares are measured against what the resource reports, so for C04 it is not decided (as in C08/C09)
    from .c08 import rounded_capacity_is_not_decided
    rounded_capacity_is_not_decided(ctx)

    # the schedulers work on wbs.clone(): the copy of a task must carry the estimate and spent of the original (C10's obligation)
    from . import c10 as _c10
    o = ctx.ob('working_copy_keeps_estimate_and_spent', 'R9',
               "Task.clone hands every private data field (estimate, spent) to the copy unconditionally: remaining work is computed "
               "on the copy", floor=1)
    ctx.guarded(o, lambda o: _c10._fields(ctx, o))
    # only the data fields the remaining work is computed from concern C04; how custom attributes are copied is C10's / C14's clause
    # (and the milestone flag, should it become a private field: a copy that loses it is scheduled as a working leaf)
    o.refuted = [f_ for f_ in o.refuted if 'estimate' in f_.msg or 'spent' in f_.msg or 'milestone' in f_.msg]

    psf = PassShape(ctx, FWD)
    o = ctx.ob('forward_first_day_and_today', 'R8',
               "forward: the fill starts at max(task.start, now()); its first day is midnight of that date", floor=2)
    ctx.guarded(o, lambda o: c02.fill_start(ctx, o, psf))
    o = ctx.ob('forward_fill_starts_at_task_start', 'R8',
               "forward: on every path the date handed to the fill loop is bounded below by task.start (the user's start when it is "
               "fixed, the start just computed otherwise)", floor=1)
    ctx.guarded(o, lambda o: fill_from_task_start(ctx, o, psf))

    o = ctx.ob('forward_start_is_the_search_result', 'R8',
               "forward: the start the scheduler chooses for a leaf is the date the availability search returned - it is not moved "
               "afterwards (the search result is the first day the fill loop books)", floor=1)
    ctx.guarded(o, lambda o: start_is_search_result(ctx, o, psf))

    psb = PassShape(ctx, BWD)
    o = ctx.ob('backward_first_day', 'R8',
               "backward: the fill starts at min(task.end, bound); its first booked day is the day before midnight of that date", floor=2)
    ctx.guarded(o, lambda o: c09.fill_start(ctx, o, psb))

    o = ctx.ob('backward_start_covers_reservations', 'R8',
               "backward: the start of a leaf is the date returned by the fill loop, or min(user-fixed start, that date): no "
               "reservation lies before the returned start", floor=1)
    ctx.guarded(o, lambda o: backward_start(ctx, o, psb))

    o = ctx.ob('forward_fixed_dates_kept', 'R3',
               "forward: every store to start/end of a non-milestone task is dominated by `<field> is None` (user-fixed dates are returned unchanged)", floor=4)
    ctx.guarded(o, lambda o: fixed_dates(ctx, o, psf))


def remaining(ctx, o, ps: PassShape):
    S = ps.S
    prog = ctx.prog
    fill = prog.func(S['fill'])
    calls = facts.calls_named(ps.f, fill.name)
    if not calls:
        elsewhere = [f2 for f2 in prog.all_funcs() if f2 is not ps.f and f2 is not fill and facts.calls_named(f2, fill.name)]
        if elsewhere:
            o.undecided(ps.f, ps.f.node, fill.name, f"the fill loop is called from {elsewhere[0].qual}, not from the pass: a helper the rule does not follow")
        else:
            o.refute(ps.f, ps.f.node, fill.name, "the pass never books remaining work")
        return
    for c in calls:
        if len(c.args) < 5:
            o.undecided(ps.f, c, c, "unexpected fill call")
            continue
        if not (isinstance(c.args[3], ast.Name) and c.args[3].id == ps.task):
            o.refute(ps.f, c, c, "work is booked for another task than the one being scheduled")
        w = ps.ex.expand(c.args[4], ps.cfg.node_containing(c), stop={f"{ps.task}.estimate", f"{ps.task}.spent"})
        m = match(f"max({ps.task}.estimate - {ps.task}.spent, 0)", w) or match(f"max(0, {ps.task}.estimate - {ps.task}.spent)", w)
        D = f"{ps.task}.estimate - {ps.task}.spent"
        if not m:
            # the clamp spelled as a conditional: `d if d > 0 else 0`, `0 if d < 0 else d` (>=, <= likewise)
            for pat in (f"{D} if {D} > 0 else 0", f"{D} if {D} >= 0 else 0", f"0 if {D} < 0 else {D}", f"0 if {D} <= 0 else {D}",
                        f"{D} if {ps.task}.estimate > {ps.task}.spent else 0", f"{D} if {ps.task}.estimate >= {ps.task}.spent else 0",
                        f"0 if {ps.task}.spent > {ps.task}.estimate else {D}", f"0 if {ps.task}.spent >= {ps.task}.estimate else {D}",
                        f"0 if {ps.task}.estimate < {ps.task}.spent else {D}", f"0 if {ps.task}.estimate <= {ps.task}.spent else {D}",
                        f"max({D}, 0.0)", f"max(0.0, {D})"):
                m = m or match(pat, w)
        if m:
            o.site(ps.f, c, f"remaining = {src(w)}")
        elif sched_fill._unresolved(ps.f, w):
            o.undecided(ps.f, c, c.args[4], f"remaining work is `{src(w)[:80]}`, which contains a term the rule cannot resolve")
        else:
            o.refute(ps.f, c, c.args[4], f"remaining work is `{src(w)[:80]}`; expected max(task.estimate - task.spent, 0)")
        cn = ps.cfg.node_containing(c)
        for attr, want in (('estimate', f"self.{S['default_estimate']}"), ('spent', '0')):
            fills = [x for x in ps.stores(attr) if x[3]['milestone'] is False and x[3]['leaf'] is True]
            if not fills:
                vague = [x for x in ps.stores(attr) if x[3]['milestone'] is not True and x[3]['leaf'] is not False]
                if vague:
                    o.undecided(ps.f, vague[0][0], vague[0][0], f"task.{attr} is stored under conditions the rule cannot classify as 'leaf, not a milestone'")
                else:
                    o.refute(ps.f, ps.f.node, f'default {attr}', f"a missing {attr} of a leaf is never filled in before the subtraction")
                continue
            for st, tgt, val, reg in fills:
                if reg['is_none'].get(attr) is not True:
                    o.refute(ps.f, st, st, f"the default {attr} is applied under {facts.cond_texts(ps.conds(st, expand=False))}: "
                                           f"not only when the value `is None` (an explicit 0 would be replaced)")
                    continue
                v = ps.ex.expand(val, ps.cfg.node_of(st))
                if src(v) != want:
                    o.refute(ps.f, st, st, f"missing {attr} of a leaf is filled with `{src(v)}`; expected {unmangle(want)}")
                    continue
                stn = ps.cfg.node_of(st)
                # the None-test (and with it the fill) precedes the subtraction on every path
                tests = [t for t, p in ps.cfg.conditions(stn)
                         if any(match(f"{ps.task}.{attr} is None", x) for x in ast.walk(t)) or
                         (ps.cfg.node_containing(t) is not None and
                          any(match(f"{ps.task}.{attr} is None", x) for x in ast.walk(ps.ex.expand(t, ps.cfg.node_containing(t)))))]
                # a hoisted test (`no_x = task.x is None; if no_x and is_leaf:`) is evaluated where the flag is defined
                flagdefs = []
                for t in tests:
                    for x in ast.walk(t):
                        if isinstance(x, ast.Name):
                            d_ = ps.fl.unique_def(x.id, ps.cfg.node_containing(t))
                            if d_ is not None and d_.value is not None and d_.node is not None and \
                                    any(match(f"{ps.task}.{attr} is None", y) for y in ast.walk(d_.value)):
                                flagdefs.append(d_)
                if flagdefs and any(not ps.fl.no_def_between(f"{ps.task}.{attr}", d_.node, stn) for d_ in flagdefs):
                    o.undecided(ps.f, st, st, f"task.{attr} is rewritten between the hoisted `is None` test and the default fill")
                    continue
                tn = ps.cfg.node_containing(tests[0]) if tests else None
                if tn is not None and not ps.cfg.dominates(tn, cn):
                    # `if is_leaf: if x is None: x = default` - the None test sits inside a leaf / milestone classification that does
                    # not enclose the fill call: for the tasks the fill is reached with (leaf, not a milestone) it is always passed
                    chain = [n_ for n_ in walk_no_nested(ps.f.node) if isinstance(n_, ast.If) and any(x is tests[0] for x in ast.walk(n_))
                             and not any(x is c for x in ast.walk(n_))]
                    chain.sort(key=lambda n_: -sum(1 for _ in ast.walk(n_)))        # outermost first
                    own_if = [n_ for n_ in chain if any(x is tests[0] for x in ast.walk(n_.test))]
                    outer = [n_ for n_ in chain if n_ not in own_if]
                    ok_chain = bool(chain) and ps.cfg.node_of(chain[0]) is not None and ps.cfg.dominates(ps.cfg.node_of(chain[0]), cn)
                    for n_ in outer:
                        rg = ps.region_of_conds([(n_.test, True)])
                        if rg['other'] or rg['is_none'] or (rg['leaf'] is None and rg['milestone'] is None):
                            ok_chain = False
                    if ok_chain:
                        o.site(ps.f, st, f"{attr} defaults to {unmangle(want)} when None (inside the leaf branch)")
                        continue
                if tn is None or not ps.cfg.dominates(tn, cn):
                    o.refute(ps.f, st, st, f"the default {attr} is not filled in before the remaining work is computed")
                else:
                    o.site(ps.f, st, f"{attr} defaults to {unmangle(want)} when None")


def fill_result_not_searched(ctx, o, ps: PassShape):
    """the date the fill loop hands back after booking lies in the last (forward) / first (backward) reserved day: a result taken
    from an availability search (`resource.get_nearest_availability_date(..)`, the scheduler's own nearest-date search) is the
    next day with capacity, which can lie any number of days away from the reserved day"""
    S = ps.S
    prog = ctx.prog
    fill = prog.func(S['fill'])
    search = prog.func(S['search'])
    cfg = cfg_of(fill)
    exf = Expander(prog, fill, ctx.typer)
    rcs = [cfg.node_containing(c_) for c_ in sched.reserve_calls(ctx, fill)]
    for r in [n for n in walk_no_nested(fill.node) if isinstance(n, ast.Return) and n.value is not None]:
        rn = cfg.node_of(r)
        if rn is None or not any(c_ is not None and cfg.can_reach(c_, rn) for c_ in rcs):
            continue
        v = exf.expand(r.value)
        hit = [x for x in ast.walk(v) if isinstance(x, ast.Call) and isinstance(x.func, ast.Attribute) and
               (x.func.attr == 'get_nearest_availability_date' or unmangle(x.func.attr) == search.name)]
        if hit:
            conds = facts.node_conditions(prog, fill, r, ctx.typer, expand=False)
            where = (" when " + ', '.join(facts.cond_texts(conds))[:80]) if conds else ""
            o.refute(fill, r, r, f"after the work was booked the fill hands back `{src(hit[0])[:90]}`{where}: the result of a search for the next day "
                                 f"with capacity, which can lie days away from the {'last' if S['dir'] == 1 else 'first'} reserved day - "
                                 + ("the end is not within the 24 hours following the last reserved day's midnight" if S['dir'] == 1 else
                                    "the start is not within the first reserved day"))


def _demote(o, pred, note):
    """findings of a shared rule that describe a defect of another property's clause: not decided for C04"""
    moved = [f_ for f_ in o.refuted if pred(f_)]
    if moved:
        o.refuted = [f_ for f_ in o.refuted if f_ not in moved]
        for f_ in moved:
            f_.msg += note
        o.unknown.extend(moved)


def share_bounded_by_booking(ctx, o, ps: PassShape):
    """C04 asks of the date share only that it lies in (0, 1] of the reserved day (the end within the 24 hours after the last
    reserved day's midnight).  When the divisor of the share is not a capacity read the rule can follow (a memo table, a helper)
    but it is the very local the booked amount was bounded by - `reserve(.., min(left, V - RESV))` .. `RESV' / V` - the share
    cannot exceed 1 whatever V stands for: whether V is the calendar's capacity of that day is C03's / C08's clause, for C04 the
    finding is not decided"""
    fill = ctx.prog.func(ps.S['fill'])
    moved = []
    for f_ in o.refuted:
        if 'not by the capacity of the same day' not in f_.msg or f_.func != fill.qual:
            continue
        V = f_.construct
        bounded = False
        for c_ in sched.reserve_calls(ctx, fill):
            if len(c_.args) != 4 or not V.isidentifier():
                continue
            amt = Expander(ctx.prog, fill, ctx.typer).expand(c_.args[3], cfg_of(fill).node_containing(c_), stop={V})
            for a_ in (facts.flatten_lattice(amt, 'min') or []):
                if isinstance(a_, ast.BinOp) and isinstance(a_.op, ast.Sub) and isinstance(a_.left, ast.Name) and a_.left.id == V:
                    bounded = True
        if bounded:
            moved.append(f_)
    if moved:
        o.refuted = [f_ for f_ in o.refuted if f_ not in moved]
        for f_ in moved:
            f_.msg += (" [the booked amount is bounded by the same value, so the share stays within the reserved day: a divisor that is not "
                       "the day's calendar capacity is C03's / C08's finding, for this property it is not decided]")
        o.unknown.extend(moved)


def default_estimate_stored(ctx, o, S):
    """the constructor keeps default_estimate as given (None may become 0): a conversion such as int(..) / round(..) changes the
    work reserved for leaves without an estimate"""
    prog = ctx.prog
    init = prog.func(S['init'])
    ex = Expander(prog, init, ctx.typer)
    sts = facts.attr_stores(init, S['default_estimate'])
    if not sts:
        o.undecided(init, init.node, 'default_estimate', "default_estimate is not stored by the constructor")
        return
    CONV = ('int', 'round', 'abs', 'floor', 'ceil', 'trunc', 'bool')

    def judge(v, param, where):
        """'ok' | ('bad', text) | None"""
        if isinstance(v, ast.Name) and v.id == param:
            return 'ok'
        if isinstance(v, ast.Constant) and v.value == 0:
            return 'ok'
        if isinstance(v, ast.IfExp):
            a, b = judge(v.body, param, where), judge(v.orelse, param, where)
            for x in (a, b):
                if isinstance(x, tuple):
                    return x
            return 'ok' if a == 'ok' and b == 'ok' else None
        if isinstance(v, ast.BoolOp) and isinstance(v.op, ast.Or) and all(judge(x, param, where) == 'ok' for x in v.values):
            return 'ok'
        if match(f"float({param})", v):
            return 'ok'
        if isinstance(v, ast.Call) and ((isinstance(v.func, ast.Name) and v.func.id in CONV) or
                                        (isinstance(v.func, ast.Attribute) and v.func.attr in CONV)) and \
                any(isinstance(x, ast.Name) and x.id == param for x in ast.walk(v)):
            return ('bad', src(v))
        return None
    for st, tgt, val in sts:
        v = ex.expand(val, cfg_of(init).node_of(st))
        params = [p_ for p_ in init.params if any(isinstance(x, ast.Name) and x.id == p_ for x in ast.walk(v))]
        res = judge(v, params[0], init) if len(params) == 1 else None
        if res is None and isinstance(val, ast.Call):
            tg = [ci for ci in ctx.cg.calls_in(init) if ci.node is val and ci.kind == 'call' and len(ci.targets) == 1]
            if tg and len(val.args) == 1 and isinstance(val.args[0], ast.Name) and not isinstance(tg[0].targets[0].node, ast.Lambda):
                h = tg[0].targets[0]
                exh = Expander(prog, h, ctx.typer)
                hp = h.params[0] if h.params else None
                rs = [judge(exh.expand(r.value), hp, h) for r in walk_no_nested(h.node) if isinstance(r, ast.Return) and r.value is not None]
                bad = [x for x in rs if isinstance(x, tuple)]
                res = bad[0] if bad else ('ok' if rs and all(x == 'ok' for x in rs) else None)
                if bad:
                    res = ('bad', f"{bad[0][1]} in {h.qual}")
        if res == 'ok':
            o.site(init, st, f"default_estimate stored as given: {src(v)[:50]}")
        elif isinstance(res, tuple):
            o.refute(init, st, st, f"default_estimate is stored as `{res[1]}`: a fractional default is changed, so a leaf without an estimate gets "
                                   f"another amount of work reserved than default_estimate - spent")
        else:
            o.undecided(init, st, st, f"default_estimate is stored as `{src(v)[:60]}`, a form the rule does not follow")


def fill_from_task_start(ctx, o, ps: PassShape):
    """every case of the (expanded) start argument of the fill call is `max(.., task.start, ..)`, task.start itself, or the very
    value that was stored to task.start on that path; a fully resolved case without task.start ignores a user-fixed start"""
    fill = ctx.prog.func(ps.S['fill'])
    stop = {f"{ps.task}.start"}
    stored = []
    for st, tgt, val, reg in ps.stores('start'):
        if reg['milestone'] is not True:
            stored.append(ps.ex.expand(val, ps.cfg.node_of(st), stop=stop))
    for c in facts.calls_named(ps.f, fill.name):
        if len(c.args) < 5:
            continue
        v = ps.ex.expand(c.args[2], ps.cfg.node_containing(c), stop=stop)
        for conds, case in sched.expr_cases(v):
            args = facts.flatten_lattice(case, 'max') or [case]
            if any(match(f"{ps.task}.start", a) for a in args) or any(same(a, sv) for a in args for sv in stored):
                o.site(ps.f, c, f"fill starts at {src(case)[:60]}")
            elif isinstance(case, ast.Name) and len(ps.fl.reaching(case.id, ps.cfg.node_containing(c))) > 1:
                # a local with several definitions reaching the call: judge each of them
                bad = unk = None
                for d_ in ps.fl.reaching(case.id, ps.cfg.node_containing(c)):
                    if d_.kind != 'assign' or d_.value is None or d_.node is None:
                        unk = d_
                        continue
                    tg_ = d_.stmt.targets if isinstance(d_.stmt, ast.Assign) else []
                    if any(match(f"{ps.task}.start", t_) for t_ in tg_):
                        continue            # `task.start = local = <value>`: the local IS the start just stored
                    dv = ps.ex.expand(d_.value, d_.node, stop=stop)
                    da = facts.flatten_lattice(dv, 'max') or [dv]
                    if any(match(f"{ps.task}.start", a) for a in da) or any(same(a, sv) for a in da for sv in stored):
                        continue
                    if sched_fill._unresolved(ps.f, d_.value):
                        unk = d_
                    else:
                        bad = (d_, dv)
                if bad is not None:
                    o.refute(ps.f, c, bad[0].stmt, f"work is booked from `{case.id}`, which on some path is `{src(bad[1])[:70]}`: task.start is not part of it, so "
                                                   f"for a task whose start the user fixed the reservations do not begin at that start")
                elif unk is not None:
                    o.undecided(ps.f, c, c.args[2], f"work is booked from `{case.id}`, one definition of which the rule cannot resolve")
                else:
                    o.site(ps.f, c, f"fill starts at {case.id} (every definition is bounded by task.start)")
            elif sched_fill._unresolved(ps.f, case):
                o.undecided(ps.f, c, c.args[2], f"work is booked from `{src(case)[:70]}`, which contains a term the rule cannot resolve")
            else:
                where = (" when " + ", ".join(facts.cond_texts(conds))[:80]) if conds else ""
                o.refute(ps.f, c, c.args[2], f"work is booked from `{src(case)[:80]}`{where}: task.start is not part of it, so for a task whose start "
                                             f"the user fixed the reservations do not begin at that start")


def start_is_search_result(ctx, o, ps: PassShape):
    search = ctx.prog.func(ps.S['search'])

    def has_search(e):
        return any(isinstance(x, ast.Call) and isinstance(x.func, ast.Attribute) and unmangle(x.func.attr) == search.name for x in ast.walk(e))
    sts = [x for x in ps.stores('start') if x[3]['milestone'] is False and x[3]['leaf'] is True]
    found = [x for x in sts if has_search(x[2])]
    if not found:
        # the search result may reach task.start through a local
        found = [x for x in sts if has_search(ps.ex.expand(x[2], ps.cfg.node_of(x[0])))]
    if not found:
        o.undecided(ps.f, ps.f.node, 'leaf start', "no store of the search result to task.start recognised")
        return
    fn = ps.cfg.node_of(found[0][0])
    def is_search(e):
        return isinstance(e, ast.Call) and isinstance(e.func, ast.Attribute) and unmangle(e.func.attr) == search.name
    later = [x for x in sts if x[0] is not found[0][0] and ps.cfg.node_of(x[0]) is not None and ps.cfg.can_reach(fn, ps.cfg.node_of(x[0]))
             and not is_search(x[2]) and not is_search(ps.ex.expand(x[2], ps.cfg.node_of(x[0])))]
    if later:
        st = later[0][0]
        o.refute(ps.f, st, st, f"after the availability search the start of the leaf is changed again by `{src(st)[:80]}`: the start no longer is the "
                               f"day (and day share) the search found, while the work is still booked from the search's day on")
    else:
        o.site(ps.f, found[0][0], "task.start = search result, not changed afterwards")


def only_leaves(ctx, o, ps: PassShape):
    fill = ctx.prog.func(ps.S['fill'])
    for c in facts.calls_named(ps.f, fill.name):
        reg = ps.region(c)
        bad = []
        if reg['milestone'] is not False:
            bad.append('milestones')
        if reg['leaf'] is not True:
            bad.append('summary tasks')
        if bad and reg['other']:
            o.undecided(ps.f, c, c, "the fill call is guarded by " + ', '.join(facts.cond_texts(reg['other']))[:100] +
                        ": cannot tell whether " + ' and '.join(bad) + " are excluded")
        elif bad:
            o.refute(ps.f, c, c, "work can be reserved for " + ' and '.join(bad))
        elif ps.S['dir'] == -1 and reg['other'] and all({x.id for x in ast.walk(t) if isinstance(x, ast.Name)} <= {ps.task, 'len'}
                                                        for t, _ in reg['other']):
            # backward: every working leaf books its remaining work, whatever dates the user gave
            o.refute(ps.f, c, c, "the remaining work of a leaf is reserved only when " + ', '.join(facts.cond_texts(reg['other']))[:120] +
                     ": a working leaf for which that does not hold gets nothing reserved although estimate - spent is left")
        elif ps.S['dir'] == -1 and (reg['other'] or any(v for k, v in reg['is_none'].items())):
            o.undecided(ps.f, c, c, "the fill call of a leaf is additionally guarded by " + ', '.join(facts.cond_texts(ps.conds(c)))[:100])
        else:
            o.site(ps.f, c, "fill call region: not milestone, leaf")
    # the fill loop has no other caller
    for f in ctx.prog.all_funcs():
        if f is ps.f:
            continue
        for c in facts.calls_named(f, fill.name):
            if f.cls == ps.S['cls']:
                o.undecided(f, c, c, "the fill loop is also called from outside the pass (a helper the rule does not follow)")


def backward_start(ctx, o, ps: PassShape):
    fill = ctx.prog.func(ps.S['fill'])
    sts = [x for x in ps.stores('start') if x[3]['milestone'] is False and x[3]['leaf'] is True]
    if not sts:
        o.refute(ps.f, ps.f.node, 'leaf start', "the start of a leaf is never computed")
        return
    for st, tgt, val, reg in sts:
        v = ps.ex.expand(val, ps.cfg.node_of(st))
        for conds, case in sched.expr_cases(v):
            args = facts.flatten_lattice(case, 'min') or [case]
            fc = [a for a in args if isinstance(a, ast.Call) and isinstance(a.func, ast.Attribute) and unmangle(a.func.attr) == fill.name]
            rest = [a for a in args if a not in fc]
            where = (" when " + ", ".join(facts.cond_texts(conds))) if conds else ""
            if match(f"{ps.task}.start", case) and conds:
                # `task.start if task.start < <fill result> else <fill result>`: the user start is kept only where it is the smaller one
                atoms = []
                for t_, p_ in conds:
                    atoms += facts.split_conj(t_, p_)

                def is_fill(x):
                    return isinstance(x, ast.Call) and isinstance(x.func, ast.Attribute) and unmangle(x.func.attr) == fill.name
                smaller = False
                for a_, p_ in atoms:
                    if isinstance(a_, ast.Compare) and len(a_.ops) == 1:
                        l_, r_, op_ = a_.left, a_.comparators[0], a_.ops[0]
                        if match(f"{ps.task}.start", l_) and is_fill(r_) and ((isinstance(op_, (ast.Lt, ast.LtE)) and p_) or (isinstance(op_, (ast.Gt, ast.GtE)) and not p_)):
                            smaller = True
                        if match(f"{ps.task}.start", r_) and is_fill(l_) and ((isinstance(op_, (ast.Gt, ast.GtE)) and p_) or (isinstance(op_, (ast.Lt, ast.LtE)) and not p_)):
                            smaller = True
                if smaller:
                    o.site(ps.f, st, f"start keeps the user-fixed start{where} (the smaller of the two)")
                    continue
            raised = _start_raised(ps, case, fill) if len(fc) != 1 else None
            if raised is not None:
                o.refute(ps.f, raised, raised, f"after the work was booked the start of the leaf is raised by `{src(raised)[:80]}`: reservations made by the "
                                               f"fill loop lie before the returned start")
            elif len(fc) != 1 and sched_fill._unresolved(ps.f, case):
                o.undecided(ps.f, st, st, f"the start of a leaf is `{src(case)[:80]}`{where}, which contains a term the rule cannot resolve")
            elif len(fc) != 1:
                o.refute(ps.f, st, st, f"the start of a leaf is `{src(case)[:80]}`{where}: not bounded by the date the fill loop returns, "
                                       f"so reservations can lie before the returned start")
            elif any(not match(f"{ps.task}.start", a) for a in rest):
                o.refute(ps.f, st, st, f"the start of a leaf is `{src(case)[:80]}`{where}; expected the fill result or min(task.start, fill result)")
            else:
                o.site(ps.f, st, f"start = {src(case)[:70]}{where}")


def _weakened(reg, pattern):
    """a dominating condition `G or X` (true) whose disjunct G is the guard `pattern`: the statement also runs when the guard is
    false and X holds.  Returns the disjunction or None"""
    for t, pol in reg['other']:
        core, p2 = t, pol
        while isinstance(core, ast.UnaryOp) and isinstance(core.op, ast.Not):
            core, p2 = core.operand, not p2
        if isinstance(core, ast.BoolOp) and isinstance(core.op, ast.Or) and p2 and any(match(pattern, v) for v in core.values):
            return core
    return None


def _start_raised(ps, case, fill):
    """the leaf start is a local with several definitions: one of them `x = max(x, ..)` (or `x = max(.., x)`) taken after the
    definition that holds the fill result - the start moves later than the first reserved day.  Returns that statement"""
    names = [x.id for x in ast.walk(case) if isinstance(x, ast.Name) and len(ps.fl.defs_of(x.id)) > 1 and x.id not in ps.f.params]
    for nm in names:
        defs = ps.fl.defs_of(nm)
        fills = [d for d in defs if d.kind == 'assign' and d.value is not None and any(
            isinstance(x, ast.Call) and isinstance(x.func, ast.Attribute) and unmangle(x.func.attr) == fill.name for x in ast.walk(d.value))]
        if not fills:
            continue
        for d in defs:
            if d in fills or d.kind != 'assign' or d.value is None or d.node is None:
                continue
            args = facts.flatten_lattice(d.value, 'max')
            if args and len(args) > 1 and any(isinstance(a, ast.Name) and a.id == nm for a in args) and \
                    ps.cfg.can_reach(fills[0].node, d.node):
                return d.stmt
    return None


def fixed_dates(ctx, o, ps: PassShape):
    for attr in ('start', 'end'):
        for st, tgt, val, reg in ps.stores(attr):
            w = _weakened(reg, f"{ps.task}.milestone") if reg['milestone'] is None else None
            if w is not None:
                o.refute(ps.f, st, st, f"task.{attr} is written under `{src(w)[:90]}`: the milestone branch (which overwrites both dates) also runs "
                                       f"for tasks that are not milestones, so a user-fixed {attr} is not kept")
                continue
            w = _weakened(reg, f"{ps.task}.{attr} is None") if reg['milestone'] is False and reg['is_none'].get(attr) is None else None
            if w is not None:
                o.refute(ps.f, st, st, f"task.{attr} is written under `{src(w)[:90]}`: also when the user fixed it ({attr} is not None)")
                continue
            if reg['milestone'] is True:
                continue
            if reg['milestone'] is None and reg['other']:
                o.undecided(ps.f, st, st, f"task.{attr} is written under " + ', '.join(facts.cond_texts(reg['other']))[:100] +
                            ", which the rule cannot classify as milestone / non-milestone")
                continue
            if reg['milestone'] is None:
                o.refute(ps.f, st, st, f"task.{attr} is written outside the milestone / non-milestone split")
                continue
            if reg['is_none'].get(attr) is True:
                o.site(ps.f, st, f"task.{attr} written under `{attr} is None`")
            elif reg['other'] and reg['is_none'].get(attr) is None:
                o.undecided(ps.f, st, st, f"task.{attr} is written under " + ', '.join(facts.cond_texts(reg['other']))[:100] +
                            f": cannot tell whether that implies `{attr} is None`")
            else:
                o.refute(ps.f, st, st, f"task.{attr} is overwritten although the user may have fixed it (store not guarded by `{attr} is None`)")
