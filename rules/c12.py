"""C12 - WBS.critical_path() returns exactly the zero-float leaves of the dependency network.   (DESIGN.md section 5, C12)

Decided (structural clauses, each a necessary condition of the property; anchor class CriticalPathCalculator, found from
WBS.critical_path through the call graph, so renaming its private methods does not matter):

  C12.no-float-eq  the zero-slack selection test is a tolerance comparison with a positive *absolute* tolerance
                   (`==`/`!=`/truthiness, `<= 0`, and math.isclose without abs_tol - a relative tolerance against 0 is an
                   exact comparison - are refuted)
  C12.registered   every predecessor id handed to the arc builder was inserted (recursively) before, consists of leaves
                   only (so the summary early-return of the insert cannot skip it), the arc table is keyed by the same
                   attribute on both sides and written unconditionally, each task is inserted once
  C12.leaf-arcs    only tasks without children become arcs; one arc = two fresh registered nodes joined by a link that
                   carries max((estimate or 0) - (spent or 0), 0); every task of the WBS is offered to the builder
  C12.passes       link adjacency, zero-length dependency arcs pred.end -> start, earliest = max fold (0 at sources) over
                   incoming links of earliest(link.start) + units, latest = min fold over outgoing links of
                   latest(link.end) - units with the node's earliest time at the sink, one common sink, forward pass
                   before backward pass before selection, slack = latest(end) - earliest(start) - units, result in arc
                   order
  C12.pure         writes*(WBS.critical_path) is empty: every store in its reach goes to objects the call allocates; every
                   return of WBS.critical_path is <new calculator>.calc() (no result kept on the WBS / memoised)
  C12.inherit      arcs come from predecessors of the task *and of all its ancestors*, each expanded to its leaves

Round 3 additions:
  * helpers the reference tree does not have and that are called inside an expression (statements + one final return,
    `for n in self.__nodes + [self.__attach_terminal_nodes()]`) are spliced into their callers before anything is analysed
    (c12_util.hoist_helpers; sa.normalize only splices calls that are a whole statement);
  * C12.inherit: a test of the drawn tasks themselves (`[l for l in leaves(p) if len(l.successors) == 0]`, `if p.spent:
    continue`) narrows the dependency sources -> REFUTED; a non-emptiness / not-None test of the very collection the elements
    are drawn from (`if t.predecessors:`) is discharged;
  * C12.passes: first-element test of the running minimum by truthiness (`min(acc or T, T)`, `if not acc:`) -> REFUTED (0 is a
    legal latest time); a guard clause `if len(node.<links>) == 0: node.<field> = D; return` next to the fold is the fold's
    default; link adjacency written as `+= [link]` / extend / insert; dependency loop over `list(param)` / a hoisted local;
  * C12.leaf-arcs: the calculator's task argument may be `self.tasks`, a copy of it, or its leaf-only selection; a selection by
    any other test of the task (`if (t.estimate or 0) > (t.spent or 0)`) -> REFUTED; nodes created in place
    (`n = _PNode(); self.__nodes.append(n)`, also through aliases and tuple assignment) count as fresh registered nodes;
    the constructor's insert loop may range over `tasks if end_date is None else [...]`;
  * C12.registered: the `already inserted` test may be a guard clause, the condition the whole body is nested under, a test
    at every call site, or a test of the arc table;
  * verdict discipline: "construct not found" refutations (no sink, no dependency arcs, adjacency lists, leaf guard, memo
    guard, insert loop) are REFUTED only under a closed-world argument (every statement / call of the function is accounted
    for), otherwise UNDECIDED; an unusual common *source* (start value, link length, attached nodes) is never a violation,
    because the source is redundant (nodes without incoming links start at the 0 of the forward fold anyway).

Round 4 additions:
  * helpers of the reference tree moved between class and module level (`__connect` -> `_connect`, also under another name)
    are new names for sa.normalize and get folded away; when the anchors are not found and reference functions are missing in
    the module, the sources are parsed again with the new functions kept (first those with the bare name of a missing one,
    then all new functions of the module); connect helper and passes may be module-level functions or static methods;
  * the calculator constructor is the one whose object gets a method called (`_ImmutableTaskList(..)` in the entry is not);
  * C12.leaf-arcs: work term `<C> if task.<attribute other than estimate/spent/children> else <work term>` (milestones given
    zero length) -> REFUTED; `E - S if E > S else 0` and `0 if task.estimate is None else max(task.estimate - .., 0)` are
    understood; the constructor's insert condition is judged as it reads without end date (`True if self.<end> is None else
    ..`, `self.<end> is None or ..`), a remaining test of the task itself -> REFUTED;
  * C12.passes: a dependency arc added only under a test of the predecessor's own link (`if link.units == 0: continue`) ->
    REFUTED (the chain through that predecessor is cut), other conditions UNDECIDED; `for p in dict.fromkeys(param)`;
  * C12.inherit: a return of WBS.critical_path that bypasses the calculator under a test that reads predecessors / successors
    of the leaf tasks only -> REFUTED (dependencies declared on summaries are ignored); other bypasses stay UNDECIDED (C12.pure),
    except the empty result for a WBS without tasks.

Round 5 additions:
  * the dependency links may be made by the insert itself after the arc builder returned the task's arc (`work =
    self.__add_work(id, units)` ... `for pid in p_ids: connect(self.<links>[pid].end, work.start, 0)`, usually a spliced
    __add_dependencies helper): _dep_site finds the hosting function, `work.start` is the arc's start when the builder returns the
    link it registered; "no dependency arcs" is refuted only when neither the builder nor the insert creates further links;
  * the connect helper may be a method of the node class (`start.connect_to(end, units)`, receiver bound to the start role);
    with several methods called by the insert the arc builder is the one that creates network objects;
  * folds written as `vals = [..]; for ..: vals.append(T); x = max(vals)` / `min(vals) if len(vals) > 0 else D` / `D if not vals
    else min(vals)`; terminal nodes wired in one pass over self.<nodes> with the emptiness tests inside the loop;
  * RelEval: a reassigned task parameter (`while parent is not None: ..; parent = parent.parent`) climbs the ancestors; the
    exit test of a while loop that lies behind is not a path condition;
  * C12.inherit: a list that comes out of the calculator's own state (returned by a helper that keeps it, or read from a
    self.<table>) and is extended in place for one task leaks into the next tasks -> REFUTED (UNDECIDED under a test of that
    list: a cache fill);
  * C12.leaf-arcs: an end date handed to the calculator that is not None (`self.end`) -> REFUTED when the constructor visibly
    filters the inserted tasks by that date; a name / conditional value stays UNDECIDED.
  Not followed (UNDECIDED): memo tables (`self.<cache>[key]`) as the source of the predecessor list even when used correctly.

Round 6 additions:
  * the link class may register a new link on its end nodes itself (`_PLink.__init__` appends self to start.<out> / end.<in>): the
    constructor then plays the connect role (Roles.connect_is_ctor; constructor calls are its call sites); `_PNode(0)` as the
    common source when the node constructor copies the argument into the earliest-time field;
  * argument-less one-expression methods / properties of the node and link class (`n.is_source()`) are replaced by their body
    when the terminal-node filters are read (the selection already went through the Expander);
  * the arc builder may receive the task and key the arc by `task.id`; an arc that carries its task (`link.task = task`,
    unconditional) may be the selected element (`v.task` over values()/items());
  * the constructor's insert condition is expanded first (hoisted `flag = end_date is not None`, continue guards);
  * C12.pure: a memoising decorator (lru_cache / cache / cached_property) on a function in the reach of WBS.critical_path inside
    the calculator module -> REFUTED (results keyed by task objects survive the call and go stale);
  * work term `max(estimate, spent)` -> REFUTED.

Round 7 addition:
  * C12.pure: an attribute store on an object whose package class overrides __setattr__ is a call of that method (sa.effects
    sees a raw write to the freshly allocated receiver and drops it); `path.length = x` on an _ImmutableTaskList reaches
    `t.__setattr__(key, value)` for every task of the list -> REFUTED; the guards of the __setattr__ body on the attribute name
    (`key.startswith('_')`) are evaluated for the stored name, so `path._x = ..` stays on the list object.

Round 8 additions:
  * dataclass network classes: the generated __init__ is written out in the parsed tree (_synth_dataclass_inits);
  * passes that hand back the memoised time (`return node.<field>` on every path): `self.__forward(link.start) + link.units` is
    read as link.start.<field> + link.units, the recursive call being the read;
  * RelEval: explicit-stack traversals (`pending = [task]; while pending: cur = pending.pop(); .. pending.extend(cur.children)`):
    the popped element ranges over the seeds and all their descendants; leaf tests through a local alias of cur.children;
  * constructor: `seeds = [t for t in tasks if <cond>]; for s in seeds: insert(s)` - the filters are conditions of the insert;
  * C12.passes: nodes joined to the sink chosen by the tasks' declared successors / predecessors instead of the network's link
    lists -> REFUTED;
  * C12.pure: writes to a module-level table (a process-wide cache) are not WBS state; a write whose receiver's origin was lost
    is judged by the receiver's class (network classes: fine; task / list classes: REFUTED; unknown: UNDECIDED).

Round 9 additions:
  * conditions that are boolean conditional expressions (a folded predicate helper: `False if task.children else task.id not in
    self.<tasks>`) are read as and / or everywhere conditions are gathered (U.bool_ifexp, _nconds), negated conjunctions by
    De Morgan; the leaf / `already inserted` tests may live in such a predicate evaluated by the callers or by the insert;
  * the link's length field is found by role (third plain copy next to start / end: `duration`), call arguments left out take
    the callee's default (`connect(a, b)` with `units=0`), generator leaf helpers (yield / yield from) are evaluated like list
    builders;
  * C12.leaf-arcs: with several arc-builder calls in the insert, one reached under `task has children` -> REFUTED (a summary
    becomes a work); C12.passes: the dependency loop as a whole under a test of the inserted task (`if started: return` with
    started = spent > 0) -> REFUTED, `if not predecessors: return` accepted; a constant empty result of calc under a test of node
    times (`if length == 0: return []`) -> REFUTED, under `no arcs at all` accepted.

Round 10 additions:
  * pass loops over `itertools.chain(self.<nodes>, (end,))` / tuples; an iterable part the rule cannot relate to the node list
    is UNDECIDED, not "pass not run for every node";
  * the passes may be methods of the node class (`n.resolve_start()`, recursion through `link.start.resolve_start()`): the
    receiver is the node argument;
  * terminal candidates taken from the arcs (`[w.end for w in self.<links>.values() if len(w.end.<outgoing>) == 0]`) when nodes
    are only made by the arc builder;
  * C12.inherit: the ancestors' predecessors contributing only under a test of the task's own links / amounts (`if not
    any(p.parent in parents for p in task.predecessors)`, `if task.estimate`) -> REFUTED; `if task.parent is not None` in front
    of the walk over task.all_parents and `if task.predecessors:` are discharged.

Round 11 additions:
  * RelEval: accumulator passing - `self.__collect_leaves(p, predecessors)` as a statement, the helper appending to the list it
    is handed (append / extend / +=, the list handed on to itself at the same position): a recursive helper is verified as the
    leaf collection by the same induction as the list-returning one, anything else about the list parameter is UNDECIDED;
    C12.pure: a container write through a parameter is fine when every caller hands in a list it allocated itself;
  * a calculator without node registry: calc derives the node list from the arc table (start and end node of every arc:
    loop with two appends / extend / +=, two-generator comprehension, `[l.start ..] + [l.end ..]`, aliases) - read as the node
    list (_derive_node_list) when only the arc builder and calc make nodes; other reads of the arc table in calc with
    unregistered nodes are UNDECIDED, no registry and no such read stays REFUTED;
  * RelEval: `name = [p for p in name if C]` narrows what the list held before; a `not in` test against a local collection drawn
    from the (all_)successors of the listed tasks themselves (a "transitive reduction" in the wrong direction: the later,
    binding predecessor is dropped) is a test of the drawn tasks -> C12.inherit REFUTED; the same against all_predecessors
    stays UNDECIDED; `id(t)` is read as t, `set()` / `list()` as empty;
  * a pass rewritten as a topological (Kahn) sweep is not modelled (anchors fail -> exit 2), except for one shape-visible defect:
    readiness counter = number of DISTINCT neighbour nodes, decremented once per link -> C12.passes REFUTED
    (_sweep_counter_mismatch).

Not decided: exactness of the longest-path result as a number (magnitude of the tolerance - a constant above 1e-3 is
reported UNDECIDED -, float rounding inside the folds), "never empty when the WBS has a leaf" (follows from the clauses,
not checked on its own), acyclicity handling (the property quantifies over acyclic WBSs), the end_date != None mode
(not used by WBS.critical_path), tasks outside the WBS reached through predecessors (F18, no rule), a leaf-expansion helper
that the relation evaluator cannot verify (UNDECIDED, never a verdict).

Engine notes (worked around here, sa/* untouched):
  * sa.effects drops writes to objects allocated by the call chain; the calculator is such an object but the tasks it
    holds are not, so C12.pure also judges every call edge that leaves alg/critical_path.py with a non-empty write summary
    at the call site (receiver / argument provenance inside the calculator), and every direct write by receiver type.
  * list building code (`x = []; for ..: x += f(p)`; comprehensions; `while t: .. t = t.parent`) is abstracted by the
    relation-path evaluator of rules/c12_util.py (RelEval), max/min accumulators by recognise_fold; both are local helpers.
"""
from __future__ import annotations

import ast
from typing import Dict, List, Optional, Tuple

from sa import facts
from sa.cfg import cfg_of
from sa.effects import Effects
from sa.flow import flow_of, Expander
from sa.model import AnalysisError, Func, unmangle, walk_no_nested, src
from sa.pat import match, same
from sa.types import base
from . import c12_util as U
from .c12_util import Unknown, RelEval, lin, lin_text, empty_test, leaf_test, none_test, bind_args

ENTRY = 'wbs.WBS.critical_path'


# ---------------------------------------------------------------------------------------------------------------------
# role discovery
class Roles:
    """functions of the calculator by the role they play (names are not relied upon)"""

    def __init__(self, ctx):
        prog, cg = ctx.prog, ctx.cg
        self.ctx = ctx
        self.entry = prog.func(ENTRY)
        ctor = _calculator_ctors(cg, self.entry)
        if len(ctor) != 1:
            raise AnalysisError(f"{ENTRY} does not construct exactly one calculator object")
        self.ctor_call = ctor[0].node
        self.init = ctor[0].targets[0]
        self.cls = self.init.cls
        self.mod = self.init.module
        calls = [ci for ci in cg.calls_in(self.entry) if ci.kind == 'call' and ci.targets and ci.targets[0].cls == self.cls]
        if len(calls) != 1:
            raise AnalysisError(f"{ENTRY} does not call exactly one method of {self.cls}")
        self.calc_call = calls[0].node
        self.calc = calls[0].targets[0]
        ins = {t.qual: t for _, t in self.self_calls(self.init) if t.kind == 'method'}
        if len(ins) != 1:
            raise AnalysisError(f"{self.init.qual} does not call exactly one insert method")
        self.insert = next(iter(ins.values()))
        others = {t.qual: t for _, t in self.self_calls(self.insert) if t is not self.insert}
        adders = [t for t in others.values() if t.kind == 'method' and t.cls == self.cls]
        if len(adders) > 1:
            # the arc builder is the one that creates network objects (directly or through the helpers it calls)
            def builds(t, depth=0):
                if any(c.kind == 'ctor' and c.targets and c.targets[0].module is self.mod for c in cg.calls_in(t)):
                    return True
                return depth < 2 and any(builds(t2, depth + 1) for _, t2 in self.self_calls(t) if t2 is not t)
            adders = [t for t in adders if builds(t)]
        if len(adders) != 1:
            raise AnalysisError(f"{self.insert.qual}: cannot identify the arc builder (methods called: {sorted(others)})")
        self.add = adders[0]
        self.connect = self.new_node = None
        self.node_cls = None
        for _, t in self.self_calls(self.add):
            ctors = [c for c in cg.calls_in(t) if c.kind == 'ctor' and c.targets and c.targets[0].module is self.mod]
            if len(ctors) == 1 and len(t.params) >= 3:
                self.connect, self.link_cls = t, ctors[0].targets[0].cls
            elif len(ctors) == 1:
                self.new_node, self.node_cls = t, ctors[0].targets[0].cls
        self.connect_is_ctor = False
        if self.connect is None:
            # the link class may register a new link on its end nodes itself: `_PLink(units, start, end)` is the connect step
            for ci in cg.calls_in(self.add):
                if ci.kind == 'ctor' and ci.targets and ci.targets[0].module is self.mod and len(ci.targets[0].params) >= 4:
                    li = ci.targets[0]
                    appends = [c for c in facts.calls_named(li, 'append') if c.args and isinstance(c.args[0], ast.Name)
                               and c.args[0].id == li.self_name and isinstance(c.func.value, ast.Attribute)
                               and isinstance(c.func.value.value, ast.Name) and c.func.value.value.id in li.params[1:]]
                    augs = [n for n in walk_no_nested(li.node) if isinstance(n, ast.AugAssign) and isinstance(n.op, ast.Add)
                            and isinstance(n.target, ast.Attribute) and isinstance(n.target.value, ast.Name)
                            and n.target.value.id in li.params[1:] and isinstance(n.value, (ast.List, ast.Tuple))
                            and len(n.value.elts) == 1 and isinstance(n.value.elts[0], ast.Name) and n.value.elts[0].id == li.self_name]
                    if len(appends) + len(augs) >= 2:
                        self.connect, self.link_cls, self.connect_is_ctor = li, li.cls, True
                        break
        if self.connect is None:
            raise AnalysisError(f"{self.add.qual}: no helper that constructs a link between two nodes")
        if self.node_cls is None:
            # no fresh-node helper: the arc builder creates its nodes itself (`n = _PNode(); self.__nodes.append(n)`)
            own = {c.targets[0].cls for c in cg.calls_in(self.add) if c.kind == 'ctor' and c.targets
                   and c.targets[0].module is self.mod and c.targets[0].cls not in (self.link_cls, self.cls)}
            if len(own) != 1:
                raise AnalysisError(f"{self.add.qual}: cannot identify the node class of the network (neither a fresh-node helper "
                                    f"nor constructor calls of one module class: {sorted(own)})")
            self.node_cls = next(iter(own))
        passes = []
        for c, t in self.self_calls(self.calc):
            if t.kind in ('method', 'static', 'function') and t not in passes \
                    and t not in (self.connect, self.new_node, self.insert, self.add) and _pass_field(t) is not None:
                passes.append(t)
        if len(passes) != 2:
            raise AnalysisError(f"{self.calc.qual}: expected two passes storing a node field, found {[p.qual for p in passes]}")
        self.passes = passes

    def self_calls(self, f: Func) -> List[Tuple[ast.Call, Func]]:
        out = []
        for ci in self.ctx.cg.calls_in(f):
            if ci.kind == 'ctor' and getattr(self, 'connect_is_ctor', False) and isinstance(ci.node, ast.Call) and ci.targets \
                    and ci.targets[0] is self.connect:
                out.append((ci.node, ci.targets[0]))
            if ci.kind == 'call' and isinstance(ci.node, ast.Call):
                for t in ci.targets:
                    # methods of the calculator, private helpers that were moved to module level, methods of the other classes
                    # of the module (`start.connect_to(end, units)` on the node class)
                    if t is not None and t.module is self.mod and (t.cls == self.cls or (t.cls is None and t.kind == 'function')
                                                                   or (t.cls is not None and t.kind == 'method' and ci.resolved)):
                        out.append((ci.node, t))
        return out

    def calls_to(self, f: Func, target: Func) -> List[ast.Call]:
        return [c for c, t in self.self_calls(f) if t is target]


def _subscript_stores(f: Func):
    """(stmt, table attribute expr, key, value) of every `X.attr[key] = value` in f"""
    out = []
    for n in walk_no_nested(f.node):
        if isinstance(n, ast.Assign) and len(n.targets) == 1 and isinstance(n.targets[0], ast.Subscript) \
                and isinstance(n.targets[0].value, ast.Attribute):
            out.append((n, n.targets[0].value, n.targets[0].slice, n.value))
    return out


def _nconds(prog, f: Func, node, typer=None, expand=True):
    """facts.node_conditions with boolean conditional expressions written as and / or and split into their conjuncts"""
    out = []
    for t, p in facts.node_conditions(prog, f, node, typer, expand=expand):
        out += facts.split_conj(U.bool_ifexp(t), p)
    return out


def _calculator_ctors(cg, entry: Func):
    """constructor calls in the entry whose object gets a method called (the calculator), not result wrappers like
    _ImmutableTaskList(..)"""
    ctors = [ci for ci in cg.calls_in(entry) if ci.kind == 'ctor' and ci.targets]
    used = {t.cls for ci in cg.calls_in(entry) if ci.kind == 'call' for t in ci.targets if t is not None and t.cls}
    picked = [ci for ci in ctors if ci.targets[0].cls in used]
    return picked if picked else ctors


def _node_param(p: Func) -> Optional[str]:
    """the node parameter of a pass: first parameter after self (methods) or the first one (static / module level)"""
    if p.kind == 'method' and len(p.params) == 1:
        return p.params[0]          # a method of the node class itself: `n.resolve_start()`
    i = 1 if p.kind in ('method', 'getter', 'setter') else 0
    return p.params[i] if len(p.params) > i else None


def _pass_node_arg(c: ast.Call, p: Func) -> Optional[ast.AST]:
    """the node a pass is applied to at call c: the receiver for a method of the node class, else the first argument"""
    if p.kind == 'method' and len(p.params) == 1:
        return c.func.value if isinstance(c.func, ast.Attribute) else None
    return c.args[0] if c.args else None


def _inline_fresh_nodes(R: 'Roles', f: Func) -> Dict[str, Tuple[ast.Call, Optional[str]]]:
    """locals of f bound exactly once, outside loops and branches, to `<NodeCls>()`: name -> (constructor call, attribute of the
    calculator list the object is appended to unconditionally | None)"""
    cfg, fl = cfg_of(f), flow_of(f)
    out: Dict[str, Tuple[ast.Call, Optional[str]]] = {}
    for n in walk_no_nested(f.node):
        if isinstance(n, ast.Assign) and len(n.targets) == 1 and isinstance(n.targets[0], ast.Name) \
                and match(f"{R.node_cls}()", n.value):
            nm = n.targets[0].id
            sn = cfg.node_of(n)
            if len(fl.defs_of(nm)) != 1 or sn is None or cfg.conditions(sn) or cfg.enclosing_fors(sn):
                continue
            out[nm] = (n.value, None)
    for c in facts.calls_named(f, 'append'):
        rv = c.func.value
        if isinstance(rv, ast.Attribute) and isinstance(rv.value, ast.Name) and rv.value.id == f.self_name and len(c.args) == 1 \
                and isinstance(c.args[0], ast.Name) and c.args[0].id in out:
            cn = cfg.node_containing(c)
            if cn is not None and cfg.is_reachable(cn) and not cfg.conditions(cn) and not cfg.enclosing_fors(cn):
                out[c.args[0].id] = (out[c.args[0].id][0], rv.attr)
    return out


def _param_loops(ctx, f: Func) -> List[Tuple[ast.For, str]]:
    """for loops of f that range over one of its parameters, possibly through a hoisted local or a list()/set()/sorted()/
    tuple()/reversed() wrapper: [(loop, parameter name)]"""
    out = []
    cfg = cfg_of(f)
    ex = Expander(ctx.prog, f, ctx.typer, inline=False)
    for n in walk_no_nested(f.node):
        if not isinstance(n, ast.For):
            continue
        it = n.iter
        hdr = cfg.node_of(n)
        if not (isinstance(it, ast.Name) and it.id in f.params) and hdr is not None:
            try:
                it = ex.expand(it, hdr)
            except Exception:       # noqa: BLE001
                it = n.iter
        for _ in range(3):
            if isinstance(it, ast.Call) and isinstance(it.func, ast.Name) and it.func.id in ('list', 'tuple', 'set', 'sorted', 'reversed',
                                                                                           'frozenset', 'iter') and len(it.args) == 1:
                it = it.args[0]
            elif match("dict.fromkeys($x)", it):            # each element once, order kept
                it = it.args[0]
        if isinstance(it, ast.Name) and it.id in f.params and it.id != f.self_name:
            out.append((n, it.id))
    return out


def _dep_site(ctx, R: 'Roles', model) -> Optional[dict]:
    """where the zero-length dependency links are made: dict(host, loop, pred_param)
    host = the arc builder (loop over its predecessor parameter) or the insert itself (`work = self.__add_work(id, units)`
    followed by a loop `for pid in p_ids: connect(self.<links>[pid].end, work.start, 0)`, pred_param None)"""
    if 'dep_site' in model:
        return model['dep_site']
    site = None
    loops = _param_loops(ctx, R.add)
    if loops:
        site = dict(host=R.add, loop=loops[-1][0], pred_param=loops[-1][1])
    else:
        cfg = cfg_of(R.insert)
        found = []
        for c in R.calls_to(R.insert, R.connect):
            fors = cfg.enclosing_fors(cfg.node_containing(c))
            if fors and not any(fors[-1] is f_ for f_ in found):
                found.append(fors[-1])
        if len(found) == 1:
            site = dict(host=R.insert, loop=found[0], pred_param=None)
    model['dep_site'] = site
    return site


def _unpacked(fl, name: ast.Name, at) -> Optional[ast.AST]:
    """the element of the right-hand tuple bound to `name` by its unique reaching definition `a, b = X, Y`"""
    d = fl.unique_def(name.id, at) if at is not None else None
    st = getattr(d, 'stmt', None)
    if d is None or d.kind != 'unpack' or not isinstance(st, ast.Assign) or len(st.targets) != 1:
        return None
    tg, val = st.targets[0], st.value
    if isinstance(tg, (ast.Tuple, ast.List)) and isinstance(val, (ast.Tuple, ast.List)) and len(tg.elts) == len(val.elts):
        for t, v in zip(tg.elts, val.elts):
            if isinstance(t, ast.Name) and t.id == name.id and not isinstance(v, ast.Starred):
                return v
    return None


def _before(cfg, a, b) -> bool:
    """a executes before b and never after it"""
    return a is not None and b is not None and cfg.can_reach(a, b) and not cfg.can_reach(b, a)


def _before_in_iteration(cfg, a, b, hdr) -> bool:
    """inside one loop iteration a precedes b (a reaches b without passing the loop header, not the other way round)"""
    if a is None or b is None:
        return False
    fwd = cfg._reachable_from(a, avoid={hdr.id})
    back = cfg._reachable_from(b, avoid={hdr.id})
    return b.id in fwd and a.id not in back


def _keep_sets(ctx) -> List[set]:
    """a function of the reference tree that was moved between class and module level (`CriticalPathCalculator.__connect` ->
    `_connect`) is a new name for sa.normalize, which therefore folds it into its callers - and the anchors of the rules
    (connect helper, passes) are gone.  When functions of the reference tree are missing in the calculator's module, the
    program can be parsed again with some of the new functions kept.  Returns the sets to try, in order: the new functions
    that carry the bare name of a missing one; every new function of the module."""
    prog = ctx.prog
    try:
        from sa import normalize
        from sa.model import Program
        base_funcs = normalize.baseline().get('functions')
    except Exception:       # noqa: BLE001
        return []
    if not base_funcs:
        return []
    entry = prog.funcs.get(ENTRY)
    if entry is None:
        return []
    ctor = _calculator_ctors(ctx.cg, entry)
    if len(ctor) != 1:
        return []
    modname = ctor[0].targets[0].module.name
    missing = [q for q in base_funcs if q.startswith(modname + '.') and q not in prog.funcs]
    if not missing:
        return []
    bare = {q.split('.')[-1].lstrip('_') for q in missing}
    overrides = {m.rel: m.src for m in prog.modules.values()}
    overrides.update(prog.texts)
    raw = Program(prog.repo, overrides, normalise=False)
    new_funcs = [f for f in raw.all_funcs() if f.module.name == modname and f.qual not in base_funcs
                 and f.kind in ('function', 'method', 'static')]
    by_name = {f.qual for f in new_funcs if f.name.lstrip('_') in bare}
    every = {f.qual for f in new_funcs}
    out = []
    if by_name:
        out.append(by_name)
    if every and every != by_name:
        out.append(every)
    return out


def _reparse_keeping(ctx, keep: set):
    """ctx.prog / typer / cg for the same sources, normalised with the functions `keep` left unfolded"""
    from sa import normalize
    from sa.model import Program
    from sa.types import Typer, CallGraph
    prog = ctx.prog
    base_funcs = normalize.baseline()['functions']
    overrides = {m.rel: m.src for m in prog.modules.values()}
    overrides.update(prog.texts)
    added = keep - base_funcs
    base_funcs |= added
    try:
        new = Program(prog.repo, overrides)
    finally:
        base_funcs -= added
    new._c12_protected = set(keep)
    new.normalisation_log = list(new.normalisation_log) + [f"c12: kept new helper {q} (a function of the reference tree is missing)"
                                                           for q in sorted(keep)]
    ctx.prog = new
    ctx.typer = Typer(new)
    ctx.cg = CallGraph(new, ctx.typer)


def _synth_dataclass_inits(ctx):
    """`@dataclass class _PLink: units: float; start: _PNode; end: _PNode` has no __init__ in the source; the generated one is
    written out (in the parsed tree of this run) so that constructor calls resolve and the field <- parameter copies are visible:
    fields without default and fields with a plain default become parameters, `field(default_factory=F)` fields get `F()`"""
    prog = ctx.prog
    if getattr(prog, '_c12_dataclass_inits', False):
        return
    prog._c12_dataclass_inits = True
    entry = prog.funcs.get(ENTRY)
    if entry is None:
        return
    ctor = _calculator_ctors(ctx.cg, entry)
    if len(ctor) != 1:
        return
    mod = ctor[0].targets[0].module
    for ci in list(prog.classes.values()):
        if ci.module is not mod or ci.dataclass_frozen is None or '__init__' in ci.methods:
            continue
        params, defaults, body = [ast.arg(arg='self')], [], []
        ok = True
        for st in ci.node.body:
            if not isinstance(st, ast.AnnAssign) or not isinstance(st.target, ast.Name):
                continue
            if 'ClassVar' in src(st.annotation):
                continue
            name = st.target.id
            v = st.value
            tgt = ast.Attribute(value=ast.Name(id='self', ctx=ast.Load()), attr=name, ctx=ast.Store())
            if isinstance(v, ast.Call) and getattr(v.func, 'id', getattr(v.func, 'attr', None)) == 'field':
                kws = {k.arg: k.value for k in v.keywords}
                if 'default_factory' in kws:
                    fac = kws['default_factory']
                    val = ast.List(elts=[], ctx=ast.Load()) if getattr(fac, 'id', None) == 'list' else \
                        ast.Dict(keys=[], values=[]) if getattr(fac, 'id', None) == 'dict' else ast.Call(func=fac, args=[], keywords=[])
                    body.append(ast.Assign(targets=[tgt], value=val))
                    continue
                if kws.get('init') is not None and isinstance(kws['init'], ast.Constant) and kws['init'].value is False:
                    if 'default' in kws:
                        body.append(ast.Assign(targets=[tgt], value=kws['default']))
                    continue
                v = kws.get('default')
            if v is None and defaults:
                ok = False          # a field without default after one with default: not a valid dataclass
                break
            params.append(ast.arg(arg=name, annotation=st.annotation))
            if v is not None:
                defaults.append(v)
            body.append(ast.Assign(targets=[tgt], value=ast.Name(id=name, ctx=ast.Load())))
        if not ok:
            continue
        fd = ast.FunctionDef(name='__init__', args=ast.arguments(posonlyargs=[], args=params, vararg=None, kwonlyargs=[],
                                                                 kw_defaults=[], kwarg=None, defaults=defaults),
                             body=body or [ast.Pass()], decorator_list=[], returns=None, type_comment=None)
        try:
            fd.type_params = []
        except Exception:       # noqa: BLE001
            pass
        ast.copy_location(fd, ci.node)
        ast.fix_missing_locations(fd)
        ci.node.body.append(fd)
        f = Func(f"{ci.qual}.__init__", '__init__', fd, mod, ci.name, 'method', None, None)
        prog.funcs[f.qual] = f
        prog._by_node[id(fd)] = f
        ci.methods['__init__'] = f
        prog.normalisation_log = list(getattr(prog, 'normalisation_log', [])) + [f"c12: wrote out the dataclass __init__ of {ci.name}"]


def _hoist(ctx):
    """before anything of the calculator is analysed: helpers that the reference tree does not have and that are called inside
    an expression (`for n in self.__nodes + [self.__attach_terminal_nodes()]`) are spliced into their callers, so that the
    rules see the statements where they expect them (sa.normalize does this only for calls that are a whole statement)"""
    prog, cg = ctx.prog, ctx.cg
    if getattr(prog, '_c12_hoisted', False):
        return
    prog._c12_hoisted = True
    try:
        from sa import normalize
        base_funcs = normalize.baseline().get('functions') or set()
    except Exception:       # noqa: BLE001
        return
    if not base_funcs:
        return
    entry = prog.func(ENTRY)
    ctor = _calculator_ctors(cg, entry)
    if len(ctor) != 1:
        return
    init = ctor[0].targets[0]
    hosts = [f for f in prog.all_funcs() if f.module is init.module and f.cls == init.cls and f.kind in ('method', 'static')]
    log = U.hoist_helpers(prog, hosts, init.cls, init.module, set(base_funcs) | set(getattr(prog, '_c12_protected', ())))
    if log:
        # nothing of the hosts has been analysed yet at this point; drop whatever an engine cache may hold all the same
        import sa.cfg as _cfgm
        import sa.flow as _flowm
        for h in hosts:
            getattr(ctx.typer, '_local_cache', {}).pop(id(h.node), None)
            getattr(cg, '_calls', {}).pop(h.qual, None)
            getattr(_cfgm, '_CFG_CACHE', {}).pop(id(h.node), None)
            getattr(_flowm, '_FLOWS', {}).pop(id(h.node), None)
        prog.normalisation_log = list(getattr(prog, 'normalisation_log', [])) + ['c12: ' + l for l in log]


def _sweep_counter_mismatch(ctx):
    """a pass written as a topological (Kahn) sweep - the rules have no model of it, the calculator stays UNDECIDED - except for
    one defect that is visible in the shape alone: the readiness counter of a node is initialised with the number of DISTINCT
    neighbour nodes (`len(set(id(l.start) for l in n.<links>))`) but decremented once per LINK (`for l in node.<links>:
    W[id(l.end)] -= 1`).  Two links between the same pair of nodes exist whenever a predecessor is collected twice (a link of
    the task that repeats one declared on an ancestor summary; a predecessor that is also a leaf of a summary predecessor), so
    the node is released before its other neighbours are done and its time is handed on too early -> REFUTED (C12.passes)."""
    prog = ctx.prog
    entry = prog.funcs.get(ENTRY)
    if entry is None:
        return
    ctor = _calculator_ctors(ctx.cg, entry)
    if len(ctor) != 1 or not ctor[0].targets:
        return
    mod = ctor[0].targets[0].module

    def distinct_count(e):
        """(link list attribute, counted side) for len(set(<l.side | id(l.side)> for l in n.<attr>)) / len({.. for l in n.<attr>})"""
        m_ = match("len(set($g))", e) or match("len(frozenset($g))", e)
        g = m_['g'] if m_ else (e.args[0] if match("len($s)", e) and isinstance(e.args[0], ast.SetComp) else None)
        if not isinstance(g, (ast.GeneratorExp, ast.ListComp, ast.SetComp)) or len(g.generators) != 1 or g.generators[0].ifs:
            return None
        gen = g.generators[0]
        elt = g.elt
        if isinstance(elt, ast.Call) and isinstance(elt.func, ast.Name) and elt.func.id == 'id' and len(elt.args) == 1:
            elt = elt.args[0]
        if isinstance(gen.target, ast.Name) and isinstance(gen.iter, ast.Attribute) and isinstance(elt, ast.Attribute) \
                and isinstance(elt.value, ast.Name) and elt.value.id == gen.target.id:
            return gen.iter.attr, elt.attr
        return None

    for f in prog.all_funcs():
        if f.module is not mod or not isinstance(f.node, (ast.FunctionDef, ast.AsyncFunctionDef)):
            continue
        counters = {}       # table name -> (count expr, link list attr, side)
        for n in walk_no_nested(f.node):
            if isinstance(n, ast.Assign) and len(n.targets) == 1:
                tg, v = n.targets[0], n.value
                if isinstance(tg, ast.Name) and isinstance(v, ast.DictComp):
                    dc = distinct_count(v.value)
                    if dc:
                        counters[tg.id] = (v.value,) + dc
                elif isinstance(tg, ast.Subscript) and isinstance(tg.value, ast.Name):
                    dc = distinct_count(v)
                    if dc:
                        counters[tg.value.id] = (v,) + dc
        if not counters:
            continue
        cfg = cfg_of(f)
        ex = Expander(prog, f, ctx.typer, inline=False)
        for n in walk_no_nested(f.node):
            if not (isinstance(n, ast.AugAssign) and isinstance(n.op, ast.Sub) and facts.const_num(n.value) == 1
                    and isinstance(n.target, ast.Subscript) and isinstance(n.target.value, ast.Name) and n.target.value.id in counters):
                continue
            sn = cfg.node_of(n)
            fors = cfg.enclosing_fors(sn) if sn is not None else []
            if not fors or not isinstance(fors[-1].target, ast.Name) or not isinstance(fors[-1].iter, ast.Attribute):
                continue
            lv = fors[-1].target.id
            try:
                key = ex.expand(n.target.slice, sn, stop={lv})
            except Exception:       # noqa: BLE001
                key = n.target.slice
            per_link = any(isinstance(x, ast.Attribute) and isinstance(x.value, ast.Name) and x.value.id == lv for x in ast.walk(key))
            if not per_link:
                continue
            cnt, attr, side = counters[n.target.value.id]
            o = ctx.ob('passes', 'R8',
                       "earliest = max over incoming links of earliest(start)+units (0 at sources); latest = min over outgoing "
                       "links of latest(end)-units (project length at the common sink)", floor=1)
            o.refute(f, cnt, cnt,
                     f"topological sweep: the readiness counter `{n.target.value.id}` of a node starts at `{src(cnt)[:90]}`, the number "
                     f"of DISTINCT `.{side}` nodes of its `.{attr}`, but `{src(n)[:60]}` takes one off for every link of "
                     f"`{src(fors[-1].iter)}`: two links between the same pair of nodes (a predecessor collected twice - the task's own "
                     f"link repeats one declared on an ancestor summary) release the node while another of its neighbours is still "
                     f"waiting, and its time is handed on too early; expected the number of links, `len(n.{attr})`")
            return


# ---------------------------------------------------------------------------------------------------------------------
def check(ctx):
    ctx.assume("the WBS is acyclic (quantifier of C12); Task.all_parents / predecessors / children are the relations of C01")
    ctx.assume("term expansion assumes no aliasing writes between a definition and its use inside one function")
    R = None
    first_error = None
    try:
        _synth_dataclass_inits(ctx)
        _hoist(ctx)
        R = Roles(ctx)
    except AnalysisError as e:
        first_error = e
    if R is None:
        # anchors not found: a helper of the reference tree may have been moved (and then folded away by the normaliser)
        try:
            attempts = _keep_sets(ctx)
        except AnalysisError:
            attempts = []
        for keep in attempts:
            try:
                _reparse_keeping(ctx, keep)
                _synth_dataclass_inits(ctx)
                _hoist(ctx)
                R = Roles(ctx)
                break
            except AnalysisError:
                R = None
    if R is None:
        try:
            _sweep_counter_mismatch(ctx)
        except Exception:       # noqa: BLE001 - a best-effort look at a shape the rules have no model of
            pass
        o = ctx.ob('no-float-eq', 'R8', "calculator anchors", floor=1)
        o.fail(str(first_error))
        return

    model: Dict[str, object] = {}
    try:
        _discover(ctx, R, model)
    except AnalysisError as e:
        o = ctx.ob('no-float-eq', 'R8', "calculator anchors", floor=1)
        o.fail(str(e))
        return

    def guarded(o, fn):
        """like ctx.guarded, and a crash of one rule body does not take the verdicts of the others with it"""
        try:
            fn(o)
        except AnalysisError as e:
            o.fail(str(e))
        except Exception as e:      # noqa: BLE001 - reported as ANALYSIS-ERROR of this obligation, never as a verdict
            import traceback
            tb = traceback.extract_tb(e.__traceback__)[-1]
            o.fail(f"rule body crashed: {type(e).__name__}: {e} (c12.py:{tb.lineno})")

    o_arc = ctx.ob('leaf-arcs', 'R8',
                   "only tasks without children become arcs; an arc is a link of max((estimate or 0) - (spent or 0), 0) units "
                   "between two fresh registered nodes, stored in the arc table under the task id; every WBS task is offered "
                   "to the builder", floor=7)
    guarded(o_arc, lambda o: _leaf_arcs(ctx, R, model, o))

    o_inh = ctx.ob('inherit', 'R8',
                   "the arc builder receives the predecessors of the task and of all its ancestors (all_parents), each "
                   "expanded to its leaf tasks", floor=3)
    o_reg = ctx.ob('registered', 'R7',
                   "every predecessor id handed to the arc builder is a key of the arc table: it was inserted before, is a "
                   "leaf (the summary early-return cannot skip it), the table is keyed alike on both sides and written "
                   "unconditionally; a task is inserted once", floor=5)
    guarded(o_inh, lambda o: _inherit_registered(ctx, R, model, o_inh, o_reg))
    if not o_inh.error:
        guarded(o_inh, lambda o: _entry_shortcuts(ctx, R, o))
    if not o_inh.error:
        guarded(o_inh, lambda o: _shared_list_leak(ctx, R, model, o))
    if o_inh.error and not o_reg.error:
        o_reg.fail(o_inh.error)

    o_pass = ctx.ob('passes', 'R8',
                    "earliest = max over incoming links of earliest(start)+units (0 at sources); latest = min over outgoing "
                    "links of latest(end)-units (project length at the common sink); slack = latest(end)-earliest(start)-units; "
                    "result = tasks of the selected arcs in arc order", floor=12)
    o_eq = ctx.ob('no-float-eq', 'R8',
                  "the zero-slack selection is a comparison with a positive absolute tolerance, never an exact ==/!= (or a "
                  "relative tolerance against 0) between float terms", floor=1)
    guarded(o_pass, lambda o: _passes(ctx, R, model, o_pass, o_eq))
    if o_pass.error and not o_eq.error and not o_eq.sites:
        o_eq.fail(o_pass.error)

    o_pure = ctx.ob('pure', 'R9a', "no store to Task/WBS state (or any object not allocated by the call) in the reach of "
                                   "WBS.critical_path", floor=8)
    guarded(o_pure, lambda o: _pure(ctx, R, o))


# ---------------------------------------------------------------------------------------------------------------------
def _discover(ctx, R: Roles, model):
    """best-effort facts about the calculator shared by the obligations (no verdicts here); attributes that cannot be
    identified get a placeholder that matches nothing"""
    _network_model(ctx, R, model, None)
    via = model['connect_fields']
    add, ins, con, init = R.add, R.insert, R.connect, R.init
    acfg = cfg_of(add)
    for st, table, key, val in _subscript_stores(add):
        if isinstance(key, ast.Name) and key.id in add.params and isinstance(table.value, ast.Name) \
                and table.value.id == add.self_name:
            model.setdefault('links_attr', table.attr)
            model.setdefault('arc_store', st)
            model.setdefault('id_param', key.id)
        elif isinstance(key, ast.Attribute) and isinstance(key.value, ast.Name) and key.value.id in add.params \
                and key.value.id != add.self_name and isinstance(table.value, ast.Name) and table.value.id == add.self_name:
            model.setdefault('links_attr', table.attr)
            model.setdefault('arc_store', st)
            model.setdefault('id_param', key.value.id)
            model.setdefault('key_sub', key.attr)
    if R.new_node is not None:
        for c in facts.calls_named(R.new_node, 'append'):
            rv = c.func.value
            if isinstance(rv, ast.Attribute) and isinstance(rv.value, ast.Name) and rv.value.id == R.new_node.self_name:
                model.setdefault('nodes_attr', rv.attr)
    else:
        for nm, (_, at_) in _inline_fresh_nodes(R, add).items():
            if at_ is not None:
                model.setdefault('nodes_attr', at_)
    if 'nodes_attr' not in model and 'links_attr' in model:
        _derive_node_list(ctx, R, model)
    for c in R.calls_to(add, con):
        if not acfg.enclosing_fors(acfg.node_containing(c)):
            b = bind_args(c, con)
            model.setdefault('arc_start', b.get(via.get('start')))
            model.setdefault('arc_end', b.get(via.get('end')))
    ds_ = _dep_site(ctx, R, model)
    if ds_ is not None:
        model.setdefault('dep_loop', ds_['loop'])
        model.setdefault('pred_param', ds_['pred_param'])
    calls = R.calls_to(ins, add)
    if len(calls) == 1:
        model['add_call'] = calls[0]
    task_p = ins.params[1] if len(ins.params) > 1 else None
    model['task_param'] = task_p
    for st, table, key, val in _subscript_stores(ins):
        if isinstance(val, ast.Name) and val.id == task_p:
            model.setdefault('tasks_attr', table.attr)
            model.setdefault('tasks_store', (st, key))
    if 'add_call' in model and 'id_param' in model:
        ia = bind_args(model['add_call'], add).get(model['id_param'])
        if ia is not None:
            iax = Expander(ctx.prog, ins, ctx.typer).expand(ia)
            m = match(f"{task_p}.$k", iax)
            if m and not model.get('key_sub'):
                model['key_attr'] = m['k']
            elif model.get('key_sub') and match(task_p, iax):
                model['key_attr'] = model['key_sub']
    end_p = init.params[2] if len(init.params) > 2 else None
    earg = bind_args(R.ctor_call, init).get(end_p) if end_p else None
    model['end_param'] = end_p
    model['end_none'] = earg is None or (isinstance(earg, ast.Constant) and earg.value is None)
    for k in ('links_attr', 'nodes_attr', 'tasks_attr'):
        model.setdefault(k, '_unidentified_' + k)


ARC_NODES = '_c12_arc_nodes'


def _derive_node_list(ctx, R: Roles, model):
    """a calculator without node registry: calc may derive the node list from the arc table - the start and the end node of every
    registered arc, which are all nodes there are when only the arc builder (and calc, for the terminal nodes) makes nodes.
    Recognised at the top level of calc:  `N = []; for l in self.<links>.values(): N.append(l.start); N.append(l.end)` (also
    extend / += with both), `N = [n for l in self.<links>.values() for n in (l.start, l.end)]`, `N = [l.start for l in ..] +
    [l.end for l in ..]`, and plain aliases / list() copies of such a local.  The reads of these locals are then written
    `self.<ARC_NODES>` (in the parsed tree of this run), so that the clauses about the node list apply to them unchanged."""
    prog = ctx.prog
    calc, add = R.calc, R.add
    links_attr = model['links_attr']
    sn = calc.self_name
    if not isinstance(calc.node, ast.FunctionDef) or sn is None:
        return
    for f_ in prog.all_funcs():
        if f_.module is R.mod and f_ not in (add, R.new_node, calc) and any(
                c_.kind == 'ctor' and c_.targets and c_.targets[0].cls == R.node_cls for c_ in ctx.cg.calls_in(f_)):
            return          # nodes are made elsewhere too: the arcs do not cover them
    body = calc.node.body

    def arcs(it) -> bool:
        return bool(match(f"{sn}.{links_attr}.values()", it) or match(f"list({sn}.{links_attr}.values())", it))

    def sides(elts, lv) -> Optional[List[str]]:
        out = []
        for e_ in elts:
            m_ = match(f"{lv}.$side", e_)
            if not m_ or m_['side'] not in ('start', 'end'):
                return None
            out.append(m_['side'])
        return out

    def mutated_outside(nm: str, own: List[ast.AST]) -> bool:
        inside = {id(x) for s_ in own for x in ast.walk(s_)}
        for n_ in walk_no_nested(calc.node):
            if id(n_) in inside:
                continue
            if isinstance(n_, ast.Call) and isinstance(n_.func, ast.Attribute) and isinstance(n_.func.value, ast.Name) \
                    and n_.func.value.id == nm and n_.func.attr in ('append', 'extend', 'insert', 'remove', 'pop', 'clear', 'sort',
                                                                     'reverse'):
                return True
            if isinstance(n_, (ast.AugAssign, ast.Delete)) and any(isinstance(x, ast.Name) and x.id == nm and
                                                                   isinstance(x.ctx, (ast.Store, ast.Del)) for x in ast.walk(n_)):
                return True
            if isinstance(n_, ast.Name) and n_.id == nm and isinstance(n_.ctx, ast.Store):
                return True
        return False

    def target_name(st_) -> Optional[str]:
        if isinstance(st_, ast.Assign) and len(st_.targets) == 1 and isinstance(st_.targets[0], ast.Name):
            return st_.targets[0].id
        if isinstance(st_, ast.AnnAssign) and isinstance(st_.target, ast.Name) and st_.value is not None:
            return st_.target.id
        return None

    def both_sides_expr(v) -> bool:
        if isinstance(v, ast.ListComp) and len(v.generators) == 2:
            g0, g1 = v.generators
            if isinstance(g0.target, ast.Name) and isinstance(g1.target, ast.Name) and not g0.ifs and not g1.ifs and arcs(g0.iter) \
                    and isinstance(g1.iter, (ast.Tuple, ast.List)) and isinstance(v.elt, ast.Name) and v.elt.id == g1.target.id:
                s_ = sides(g1.iter.elts, g0.target.id)
                return s_ is not None and sorted(s_) == ['end', 'start']
        if isinstance(v, ast.BinOp) and isinstance(v.op, ast.Add):
            got = []
            for part in (v.left, v.right):
                if not (isinstance(part, ast.ListComp) and len(part.generators) == 1):
                    return False
                g0 = part.generators[0]
                if not (isinstance(g0.target, ast.Name) and not g0.ifs and arcs(g0.iter)):
                    return False
                s_ = sides([part.elt], g0.target.id)
                if s_ is None:
                    return False
                got += s_
            return sorted(got) == ['end', 'start']
        return False

    complete: Dict[str, List[ast.AST]] = {}
    for i, st in enumerate(body):
        if isinstance(st, ast.For) and isinstance(st.target, ast.Name) and arcs(st.iter) and not st.orelse:
            lv = st.target.id
            got: Dict[str, List[str]] = {}
            ok = True
            for b in st.body:
                recv = elts = None
                if isinstance(b, ast.Expr) and isinstance(b.value, ast.Call) and isinstance(b.value.func, ast.Attribute) \
                        and isinstance(b.value.func.value, ast.Name) and len(b.value.args) == 1 and not b.value.keywords:
                    a0 = b.value.args[0]
                    if b.value.func.attr == 'append':
                        recv, elts = b.value.func.value.id, [a0]
                    elif b.value.func.attr == 'extend' and isinstance(a0, (ast.List, ast.Tuple)):
                        recv, elts = b.value.func.value.id, a0.elts
                elif isinstance(b, ast.AugAssign) and isinstance(b.op, ast.Add) and isinstance(b.target, ast.Name) \
                        and isinstance(b.value, (ast.List, ast.Tuple)):
                    recv, elts = b.target.id, b.value.elts
                s_ = sides(elts, lv) if recv is not None else None
                if s_ is None:
                    ok = False
                    break
                got.setdefault(recv, []).extend(s_)
            if not ok or len(got) != 1:
                continue
            (nm, ss), = got.items()
            inits = [s_ for s_ in body[:i] if target_name(s_) == nm]
            if sorted(ss) != ['end', 'start'] or len(inits) != 1:
                continue
            iv = inits[0].value
            if not (match("[]", iv) or match("list()", iv)) or mutated_outside(nm, [inits[0], st]):
                continue
            complete[nm] = [inits[0], st]
        else:
            nm = target_name(st)
            if nm is None or nm in complete:
                continue
            v = st.value
            alias = v.id if isinstance(v, ast.Name) else (v.args[0].id if match("list($x)", v) and isinstance(v.args[0], ast.Name)
                                                          else None)
            if (both_sides_expr(v) or (alias is not None and alias in complete)) and not mutated_outside(nm, [st]):
                complete[nm] = [st]
    if not complete:
        return
    builders = {id(s_) for own in complete.values() for s_ in own}

    class _Reads(ast.NodeTransformer):
        def visit_Name(self, n_):
            if isinstance(n_.ctx, ast.Load) and n_.id in complete:
                return ast.copy_location(ast.Attribute(value=ast.Name(id=sn, ctx=ast.Load()), attr=ARC_NODES, ctx=ast.Load()), n_)
            return n_

        def visit_Lambda(self, n_):
            return n_

        def visit_FunctionDef(self, n_):
            return n_

    tr = _Reads()
    for k, st in enumerate(body):
        if id(st) not in builders:
            body[k] = ast.fix_missing_locations(tr.visit(st))
    import sa.cfg as _cfgm
    import sa.flow as _flowm
    getattr(ctx.typer, '_local_cache', {}).pop(id(calc.node), None)
    getattr(ctx.cg, '_calls', {}).pop(calc.qual, None)
    getattr(_cfgm, '_CFG_CACHE', {}).pop(id(calc.node), None)
    getattr(_flowm, '_FLOWS', {}).pop(id(calc.node), None)
    model['nodes_attr'] = ARC_NODES
    model['derived_nodes'] = sorted(complete)
    prog.normalisation_log = list(getattr(prog, 'normalisation_log', [])) + [
        f"c12: {calc.qual}: local(s) {', '.join(sorted(complete))} hold the start and end node of every registered arc - read as the "
        f"calculator's node list"]


def _arc_table_reads(R: Roles, model) -> int:
    """how often calc reads the arc table (the reference tree: once, in the selection loop)"""
    la = model.get('links_attr')
    return sum(1 for n_ in walk_no_nested(R.calc.node) if isinstance(n_, ast.Attribute) and n_.attr == la
               and isinstance(n_.value, ast.Name) and n_.value.id == R.calc.self_name)


# ---------------------------------------------------------------------------------------------------------------------
# C12.leaf-arcs
def _network_model(ctx, R: Roles, model, o):
    """field names of the link / node classes and the adjacency kept by the connect helper (filled once)"""
    if 'link_fields' in model:
        return
    prog = ctx.prog
    linit = prog.find_method(R.link_cls, '__init__')
    if linit is None:
        raise AnalysisError(f"{R.link_cls}.__init__ not found")
    # link field -> constructor parameter
    fld: Dict[str, str] = {}
    for st, tgt, val in facts.attr_stores(linit):
        if isinstance(tgt.value, ast.Name) and tgt.value.id == linit.self_name and isinstance(val, ast.Name) \
                and val.id in linit.params:
            fld[tgt.attr] = val.id
    # the length field may carry another name (`duration`): it is the third plain copy next to start / end
    if 'units' not in fld and {'start', 'end'} <= set(fld) and len(fld) == 3:
        uf_ = next(k for k in fld if k not in ('start', 'end'))
        model['units_field'] = uf_
        fld['units'] = fld[uf_]
    model['link_init'] = linit
    model['link_fields'] = fld
    con = R.connect
    if R.connect_is_ctor:
        # the constructor is the connect step: its parameters are the roles, `self` stands for the new link
        model['connect_ctor'] = ast.Name(id=linit.self_name, ctx=ast.Load())
        model['connect_fields'] = dict(fld)
        return
    ctors = [c for c in facts.calls_named(con, R.link_cls)]
    if len(ctors) != 1:
        raise AnalysisError(f"{con.qual} does not construct exactly one {R.link_cls}")
    b = bind_args(ctors[0], linit)
    # link field -> connect parameter
    via: Dict[str, str] = {}
    for f_, p in fld.items():
        a = b.get(p)
        if isinstance(a, ast.Name) and a.id in con.params:
            via[f_] = a.id
    model['connect_ctor'] = ctors[0]
    model['connect_fields'] = via


def _leaf_arcs(ctx, R: Roles, model, o):
    prog = ctx.prog
    ins, add, con = R.insert, R.add, R.connect
    cfg = cfg_of(ins)
    _network_model(ctx, R, model, o)
    fld, via = model['link_fields'], model['connect_fields']

    # (1) link constructor keeps start / end / units apart
    linit = model['link_init']
    want = {'start', 'end', 'units'}
    if not want <= set(fld):
        o.undecided(linit, linit.node, f"{R.link_cls}.__init__", f"link fields start/end/units are not plain copies of constructor "
                                                                  f"parameters (found {sorted(fld)})")
        return
    if len({fld[k] for k in want}) != 3:
        o.refute(linit, linit.node, f"{R.link_cls}.__init__", "two of the link fields start/end/units are copies of the same parameter")
        return
    if not want <= set(via) or len({via[k] for k in want}) != 3:
        o.refute(con, model['connect_ctor'], model['connect_ctor'],
                 f"the link is not built from three distinct parameters (start, end, units) of {con.name}: got {via}")
        return
    o.site(linit, linit.node, f"link fields {{{', '.join(f'{k}<-{fld[k]}' for k in sorted(want))}}}; {con.name}: "
                              f"{{{', '.join(f'{k}<-{via[k]}' for k in sorted(want))}}}")
    p_start, p_end, p_units = via['start'], via['end'], via['units']
    model['connect_params'] = (p_start, p_end, p_units)

    # (2) arc builder: two fresh nodes, one link with the units parameter, stored under the id parameter
    acfg = cfg_of(add)
    exa = Expander(prog, add, ctx.typer, inline=False)
    stores = _subscript_stores(add)
    arc_store = None
    for st, table, key, val in stores:
        v = exa.expand(val, acfg.node_of(st))
        if isinstance(v, ast.Call) and any(c is val or same(c, v) for c in R.calls_to(add, con)) or \
                (isinstance(v, ast.Call) and isinstance(v.func, ast.Attribute) and unmangle(v.func.attr) == con.name) or \
                (isinstance(v, ast.Call) and isinstance(v.func, ast.Name) and con.cls is None and v.func.id == con.name) or \
                (isinstance(v, ast.Call) and isinstance(v.func, ast.Name) and R.connect_is_ctor and v.func.id == R.link_cls):
            arc_store = (st, table, key, v)
    if arc_store is None:
        o.undecided(add, add.node, add.name, "no `self.<table>[id] = <link built by the connect helper>` store found")
        return
    st, table, key, linkcall = arc_store
    cb = bind_args(linkcall, con)
    model['links_attr'] = table.attr
    model['arc_store'] = st
    key_sub = None
    if isinstance(key, ast.Attribute) and isinstance(key.value, ast.Name) and key.value.id in add.params \
            and key.value.id != add.self_name:
        # the builder receives the task itself and keys the arc by one of its attributes: self.<links>[task.id] = link
        id_param, key_sub = key.value.id, key.attr
    elif isinstance(key, ast.Name) and key.id in add.params:
        id_param = key.id
    else:
        o.undecided(add, st, st, "arc table key is not a parameter of the arc builder")
        return
    model['key_sub'] = key_sub
    # `link.task = task`: the arc may carry its task
    for st2, tgt2, val2 in facts.attr_stores(add):
        n2 = acfg.node_of(st2)
        if key_sub and isinstance(val2, ast.Name) and val2.id == id_param and isinstance(tgt2.value, ast.Name) and n2 is not None \
                and not acfg.conditions(n2) and not acfg.enclosing_fors(n2) and same(exa.expand(tgt2.value, n2), linkcall):
            model['link_task_attr'] = tgt2.attr
    conds = acfg.conditions(acfg.node_of(st))
    if conds:
        o.refute(add, st, st, "the arc table entry is written only under a condition (" +
                 ', '.join(facts.cond_texts(conds)) + "): some inserted tasks have no arc")
        return
    u = cb.get(p_units)
    if not (isinstance(u, ast.Name) and u.id in add.params and u.id != id_param):
        o.refute(add, st, linkcall, f"the arc's link does not carry the units parameter of {add.name} (units argument is "
                                    f"`{src(u) if u is not None else '-'}`)")
        return
    units_param = u.id
    s_arg, e_arg = cb.get(p_start), cb.get(p_end)
    orig = [c for c in R.calls_to(add, con) if not acfg.enclosing_fors(acfg.node_containing(c))]
    oc = bind_args(orig[0], con) if orig else {}
    fla = flow_of(add)
    inline_nodes = _inline_fresh_nodes(R, add)
    fresh = []
    inline_attrs = []
    for a, pn in ((s_arg, p_start), (e_arg, p_end)):
        ok = False
        if isinstance(a, ast.Name) and orig:
            a = _unpacked(fla, a, acfg.node_containing(orig[0])) or a      # `first, last = self.__new_node(), self.__new_node()`
        if isinstance(a, ast.Call):
            tg = [t for c, t in R.self_calls(add) if c is a or same(c, a)]
            ok = bool(tg) and R.new_node is not None and tg[0] is R.new_node
            oa = oc.get(pn)
            at_o = acfg.node_containing(orig[0]) if orig else None
            for _ in range(4):          # `start = node` aliases of the created node
                if isinstance(oa, ast.Name) and oa.id not in inline_nodes and at_o is not None:
                    d_ = fla.unique_def(oa.id, at_o)
                    if d_ is not None and d_.kind == 'assign' and isinstance(d_.value, ast.Name) and d_.node is not None \
                            and len(fla.defs_of(oa.id)) == 1:
                        oa, at_o = d_.value, d_.node
                        continue
                break
            if not ok and match(f"{R.node_cls}()", a) and isinstance(oa, ast.Name) and oa.id in inline_nodes:
                # the node is created in place: `n = _PNode(); self.<nodes>.append(n)`
                ok = True
                inline_attrs.append((oa.id, inline_nodes[oa.id][1]))
        fresh.append(ok)
    if not all(fresh):
        o.undecided(add, st, linkcall, "start / end of the arc are not results of the fresh-node helper")
        return
    derived = model.get('derived_nodes')
    for nm, at_ in inline_attrs:
        if at_ is None and derived:
            continue        # no registry: calc takes the nodes from the arcs (start / end of the link stored above)
        if at_ is None and _arc_table_reads(R, model) > 1:
            o.undecided(add, st, nm, f"the freshly created node `{nm}` is not appended to a node list of the calculator; calc reads the "
                                     f"arc table in a way the rule cannot relate to `the start and end node of every arc`")
            return
        if at_ is None:
            o.refute(add, st, nm, f"the freshly created node `{nm}` is not (unconditionally) appended to the calculator's node list: "
                                  f"the passes never visit it")
            return
    # distinct nodes: the two arguments must come from two different calls of the fresh-node helper

    def origin(a, at):
        for _ in range(6):
            if isinstance(a, ast.Name):
                d = fla.unique_def(a.id, at)
                if d is not None and d.kind == 'unpack':
                    u_ = _unpacked(fla, a, at)
                    if u_ is None:
                        return None
                    a, at = u_, d.node
                    continue
                if d is None or d.kind != 'assign':
                    return None
                a, at = d.value, d.node
            else:
                return id(a)
        return None
    if orig:
        at0 = acfg.node_containing(orig[0])
        o1, o2 = origin(oc.get(p_start), at0), origin(oc.get(p_end), at0)
        if o1 is not None and o1 == o2:
            o.refute(add, st, orig[0], "the arc starts and ends in the same node: the work has no length in the network")
            return
    model['arc_start'] = oc.get(p_start)
    model['arc_end'] = oc.get(p_end)
    nn = R.new_node
    nodes_attr = None
    if len(inline_attrs) == 2:
        if inline_attrs[0][1] != inline_attrs[1][1]:
            o.undecided(add, st, linkcall, "the two nodes of the arc are registered in two different lists")
            return
        nodes_attr = inline_attrs[0][1] or (ARC_NODES if derived else None)
    elif inline_attrs or nn is None:
        o.undecided(add, st, linkcall, "the nodes of the arc are created in two different ways")
        return
    else:
        rets = [n for n in walk_no_nested(nn.node) if isinstance(n, ast.Return)]
        exn = Expander(prog, nn, ctx.typer, inline=False)
        ok_ret = len(rets) == 1 and rets[0].value is not None and match(f"{R.node_cls}()", exn.expand(rets[0].value))
        for c in facts.calls_named(nn, 'append'):
            if isinstance(c.func.value, ast.Attribute) and isinstance(c.func.value.value, ast.Name) and \
                    c.func.value.value.id == nn.self_name and c.args and ok_ret and same(c.args[0], rets[0].value) \
                    and not cfg_of(nn).conditions(cfg_of(nn).node_containing(c)):
                nodes_attr = c.func.value.attr
        if not ok_ret:
            o.undecided(nn, nn.node, nn.name, f"fresh-node helper does not return a new {R.node_cls}()")
            return
        if nodes_attr is None and derived:
            nodes_attr = ARC_NODES
        elif nodes_attr is None and _arc_table_reads(R, model) > 1:
            o.undecided(nn, nn.node, nn.name, "a freshly created node is not appended to a node list of the calculator; calc reads the "
                                              "arc table in a way the rule cannot relate to `the start and end node of every arc`")
            return
        if nodes_attr is None:
            o.refute(nn, nn.node, nn.name, "a freshly created node is not (unconditionally) appended to the calculator's node list: "
                                           "the passes never visit it")
            return
    model['nodes_attr'] = nodes_attr
    model['id_param'], model['units_param'] = id_param, units_param
    o.site(add, st, f"arc: {src(st)} with link {con.name}(new node, new node, {units_param}); " + (
        f"no node registry: calc takes the nodes from the arcs (local {', '.join(derived)})" if nodes_attr == ARC_NODES else
        f"nodes registered in self.{unmangle(nodes_attr)}"))

    # (3) in the insert: the arc builder call, its work term, its leaf guard
    calls = R.calls_to(ins, add)
    if len(calls) != 1:
        # several places that build arcs: is one of them reached for a task WITH children?
        named = False
        for c_ in calls:
            ia_ = bind_args(c_, add).get(id_param)
            xk = Expander(prog, ins, ctx.typer, inline=False).expand(ia_, cfg.node_containing(c_)) if ia_ is not None else None
            owner_ = xk.value if isinstance(xk, ast.Attribute) else xk
            if not isinstance(owner_, ast.Name):
                continue
            for t_, p_ in _nconds(prog, ins, c_, ctx.typer, expand=False):
                lt_ = leaf_test(t_, p_)
                if lt_ and isinstance(lt_[0], ast.Name) and lt_[0].id == owner_.id and not lt_[1]:
                    named = True
                    o.refute(ins, c_, c_, f"`{src(c_)[:70]}` builds an arc for `{owner_.id}` under `{'' if p_ else 'not '}{src(t_)[:50]}`: a task "
                                          f"WITH children becomes a work of the network (and can be reported as critical); only leaf "
                                          f"tasks are works, a summary predecessor is replaced by its leaves")
        if not named:
            o.undecided(ins, ins.node, ins.name, f"{len(calls)} calls of the arc builder in the insert (expected one)")
        return
    call = calls[0]
    model['add_call'] = call
    ab = bind_args(call, add)
    task_p = ins.params[1] if len(ins.params) > 1 else None
    model['task_param'] = task_p
    cn = cfg.node_containing(call)
    conds = _nconds(prog, ins, call, ctx.typer)
    leaf_ok = None
    for t, p in conds:
        lt = leaf_test(t, p)
        if lt and isinstance(lt[0], ast.Name) and lt[0].id == task_p:
            leaf_ok = lt[1] if leaf_ok is None else (leaf_ok and lt[1])
            if not lt[1]:
                o.refute(ins, call, t, "the arc builder is reached only for tasks WITH children (leaf test has the wrong "
                                       "polarity): summaries become arcs, leaves do not")
                return
    if leaf_ok is None:
        # the guard may sit at the call sites instead: a leaf test of the argument, or an argument drawn from a leaf expansion
        ev = _releval(ctx, R, model)
        missing = []
        for owner in (R.init, ins):
            for c in R.calls_to(owner, ins):
                arg = c.args[0] if c.args else None
                cs = _nconds(prog, owner, c, ctx.typer)
                if any((lambda lt: lt and lt[1] and arg is not None and same(lt[0], arg))(leaf_test(t, p)) for t, p in cs):
                    continue
                if owner is R.init and model.get('end_none') and any(
                        (lambda nt: nt and isinstance(nt[0], ast.Name) and nt[0].id == model.get('end_param') and not nt[1])(
                            none_test(t, p)) for t, p in cs):
                    continue        # call site of the end_date mode, not used by WBS.critical_path
                if owner is ins and arg is not None:
                    try:
                        ps = U.normalise(ev.contribution(cfg.node_containing(c), ast.List(elts=[arg], ctx=ast.Load()), cn))
                        if ps and all(k and k[-1] in ('leaves', 'leaf?') for k in ps):
                            continue
                    except Unknown:
                        pass
                missing.append(c)
        if missing:
            # a test of the children that the rule cannot read is not "no test"
            seen_children = [t for t, p in conds if any(isinstance(x, ast.Attribute) and x.attr in U.CHILD_ATTRS for x in ast.walk(t))]
            for r_ in [n for n in walk_no_nested(ins.node) if isinstance(n, ast.Return)]:
                rn_ = cfg.node_of(r_)
                if rn_ is not None and not cfg.can_reach(cn, rn_):
                    seen_children += [t for t, p in cfg.conditions(rn_)
                                      if any(isinstance(x, (ast.Attribute, ast.Name)) and
                                             getattr(x, 'attr', getattr(x, 'id', '')) in U.CHILD_ATTRS + ('is_leaf', 'is_summary')
                                             for x in ast.walk(t))]
            if seen_children:
                o.undecided(ins, call, seen_children[0], f"the condition `{src(seen_children[0])[:70]}` looks at the task's children in a "
                                                         f"form the rule cannot read as `task has no children`")
                return
            o.refute(ins, call, 'leaf guard', f"nothing stops a task with children from becoming an arc: neither {ins.name} nor "
                                              f"its call site `{src(missing[0])}` tests `len(task.children) == 0`")
            return
    o.site(ins, call, "arc creation guarded by `task has no children`")

    # work term
    w = ab.get(units_param)
    if w is None:
        o.undecided(ins, call, call, "units argument of the arc builder not found")
        return
    ex = Expander(prog, ins, ctx.typer)
    wt = ex.expand(w, cn)
    verdict, msg = _work_term(wt, task_p)
    if verdict == 'ok':
        o.site(ins, call, f"work term {src(wt)[:100]}")
    elif verdict == 'bad':
        o.refute(ins, call, w, f"work term is `{src(wt)[:120]}`: {msg}; expected max((estimate or 0) - (spent or 0), 0)")
    else:
        o.undecided(ins, call, w, f"work term `{src(wt)[:120]}`: {msg}")
    # id argument
    ia = ab.get(id_param)
    if ia is not None and model.get('key_sub') is None and match(f"{task_p}.id", ex.expand(ia, cn)):
        o.site(ins, call, f"arc keyed by {task_p}.id")
        model['key_attr'] = 'id'
    elif ia is not None and model.get('key_sub') == 'id' and match(task_p, ex.expand(ia, cn)):
        o.site(ins, call, f"arc keyed by {task_p}.id (the arc builder receives the task)")
        model['key_attr'] = 'id'
    else:
        o.undecided(ins, call, ia if ia is not None else call, "arc key is not `task.id`")

    # (4) every task handed to the constructor is offered to the insert (end_date None mode); WBS passes all its tasks
    init = R.init
    icfg = cfg_of(init)
    tb = bind_args(R.ctor_call, init)
    tasks_p = init.params[1] if len(init.params) > 1 else None
    end_p = init.params[2] if len(init.params) > 2 else None
    targ = tb.get(tasks_p)
    earg = tb.get(end_p) if end_p else None
    model['end_none'] = earg is None or (isinstance(earg, ast.Constant) and earg.value is None)
    model['end_param'] = end_p
    exe = Expander(prog, R.entry, ctx.typer, inline=False)
    tv = exe.expand(targ) if targ is not None else None
    self_e = R.entry.self_name
    if tv is not None and match(f"{self_e}.tasks", tv):
        o.site(R.entry, R.ctor_call, f"calculator receives {self_e}.tasks (all tasks of the WBS)")
    elif tv is not None and (match(f"{self_e}.roots", tv) or match(f"{self_e}.roots.$_", tv) or match(f"{self_e}.tasks($*_)", tv)
                             or match(f"{self_e}.tasks[$_]", tv)):
        o.refute(R.entry, R.ctor_call, targ, f"the calculator is given `{src(tv)}`, not all tasks of the WBS: leaves outside "
                                             f"that selection never become arcs")
    else:
        verdict = _task_selection(tv, self_e) if tv is not None else None
        if verdict is None:
            o.undecided(R.entry, R.ctor_call, R.ctor_call, "first constructor argument is not `self.tasks`")
        elif verdict[0] == 'ok':
            o.site(R.entry, R.ctor_call, f"calculator receives {verdict[1]}")
        elif verdict[0] == 'bad':
            o.refute(R.entry, R.ctor_call, verdict[2],
                     f"the calculator is seeded only with the tasks of {self_e}.tasks that pass `{src(verdict[2])[:80]}`: a leaf "
                     f"that fails the test becomes an arc only if a seeded task depends on it, so it can never be reported (a "
                     f"zero-length / finished task at the end of the longest chain; a WBS where every task fails it gives an empty "
                     f"result)")
        else:
            o.undecided(R.entry, R.ctor_call, verdict[2], f"the calculator is given a selection of {self_e}.tasks under a condition "
                                                          f"the rule cannot judge: {src(verdict[2])[:80]}")
    if not model['end_none']:
        # a value for the end date switches the calculator to its date-filtered mode; is that visible in the constructor?
        gate = None
        ev_ = exe.expand(earg) if earg is not None else None
        provably_value = ev_ is not None and not (isinstance(ev_, ast.Constant) and ev_.value is None) and \
            not isinstance(ev_, (ast.IfExp, ast.BoolOp, ast.Name))
        for c in R.calls_to(init, ins):
            fors_ = icfg.enclosing_fors(icfg.node_containing(c))
            lv0 = fors_[-1].target.id if fors_ and isinstance(fors_[-1].target, ast.Name) else None
            atoms_ = []
            for t, p in _nconds(prog, init, c, ctx.typer, expand=False):
                atoms_ += facts.split_conj(t, p)
            if lv0 is None or not any((lambda nt: nt and isinstance(nt[0], ast.Name) and nt[0].id == end_p and not nt[1])(none_test(t, p))
                                      for t, p in atoms_):
                continue
            for t, p in atoms_:
                names_ = {x.id for x in ast.walk(t) if isinstance(x, ast.Name)}
                if lv0 in names_ and end_p in names_ and any(isinstance(x, ast.Attribute) and isinstance(x.value, ast.Name)
                                                               and x.value.id == lv0 for x in ast.walk(t)):
                    gate = (c, t, p)
        if gate is not None and provably_value:
            o.refute(R.entry, R.ctor_call, earg,
                     f"WBS.critical_path hands `{src(earg)}` to the calculator as end date: with an end date the constructor inserts "
                     f"only the tasks with `{'' if gate[2] else 'not '}{src(gate[1])[:60]}` (and what they depend on) and calc keeps only "
                     f"the chains that end at that date - the property is the critical path of the whole network (end date None)")
        else:
            o.undecided(R.entry, R.ctor_call, R.ctor_call, "end_date argument is not None: the date-filtered mode is not modelled")
    hit = False
    filtered = []           # (call, test) insert calls that are live with end_date None but skip tasks by a test of the task
    unclear = []            # (call, why)
    exi = Expander(prog, init, ctx.typer, inline=False)
    tasks_attr = model.get('tasks_attr')
    end_attr_ = None
    for st_, tgt_, val_ in facts.attr_stores(init):
        if isinstance(val_, ast.Name) and val_.id == end_p and isinstance(tgt_.value, ast.Name) and tgt_.value.id == init.self_name \
                and not icfg.conditions(icfg.node_of(st_)) and not icfg.enclosing_fors(icfg.node_of(st_)):
            end_attr_ = tgt_.attr

    def all_tasks(it, depth=0) -> bool:
        """the iterable is the whole tasks parameter when no end date was given"""
        for _ in range(3):
            m_ = match("list($x)", it) or match("tuple($x)", it) or match("iter($x)", it)
            if not m_:
                break
            it = m_['x']
        if isinstance(it, ast.Name) and it.id == tasks_p:
            return True
        if isinstance(it, ast.IfExp) and depth < 3:
            nt_ = none_test(it.test, True)
            if nt_ and isinstance(nt_[0], ast.Name) and nt_[0].id == end_p:
                return all_tasks(it.body if nt_[1] else it.orelse, depth + 1)
        return False

    for c in R.calls_to(init, ins):
        n = icfg.node_containing(c)
        fors = icfg.enclosing_fors(n)
        if not (fors and isinstance(fors[-1].target, ast.Name) and c.args and isinstance(c.args[0], ast.Name)
                and c.args[0].id == fors[-1].target.id):
            unclear.append((c, "the insert call is not applied to the variable of an enclosing for loop"))
            continue
        lv_ = fors[-1].target.id
        cs = []
        for t, p in _nconds(prog, init, c, ctx.typer, expand=False):
            tn_ = icfg.node_containing(t)
            try:
                # `flag = end_date is not None` hoisted; fields of the calculator (self.<tasks>) keep their name
                locals_ = {x.id for x in ast.walk(t) if isinstance(x, ast.Name)} - {lv_, init.self_name} - set(init.params)
                tx_ = exi.expand(t, tn_, stop={lv_, init.self_name}) if tn_ is not None and locals_ else t
            except Exception:       # noqa: BLE001
                tx_ = t
            cs += facts.split_conj(_reduce_when_none(tx_, end_p, end_attr_), p)
        # dead when no end date was given?
        if any(_dead_when_none(t, p, end_p, end_attr_) for t, p in cs):
            continue
        try:
            itx = exi.expand(fors[-1].iter, icfg.node_of(fors[-1]))
        except Exception:       # noqa: BLE001
            itx = fors[-1].iter
        cparts = facts.comp_parts(itx)
        if not all_tasks(itx) and cparts and isinstance(cparts[1], ast.Name) and isinstance(cparts[0], ast.Name) \
                and cparts[0].id == cparts[1].id and all_tasks(cparts[2]):
            # `seeds = [t for t in tasks if <cond>]; for seed in seeds: insert(seed)`: the filters are conditions of the insert
            from sa.flow import subst as _subst
            for flt_ in cparts[3]:
                fx_ = _subst(flt_, {cparts[1].id: ast.Name(id=lv_, ctx=ast.Load())})
                cs += facts.split_conj(_reduce_when_none(fx_, end_p, end_attr_), True)
            if any(_dead_when_none(t, p, end_p, end_attr_) for t, p in cs):
                continue
        elif not all_tasks(itx):
            unclear.append((c, f"the loop ranges over `{src(itx)[:60]}`, not plainly over `{tasks_p}`"))
            continue
        rest = []
        for t, p in cs:
            lt = leaf_test(t, p)
            if lt and lt[1] and same(lt[0], c.args[0]):
                continue        # a `task has no children` filter of the inserted task loses nothing: summaries never become arcs
            mt_ = _member_test(t, p, lv_)
            if mt_ and not mt_[3] and mt_[1] == tasks_attr:
                continue        # `if t.id not in self.<tasks>`: the insert's own "already inserted" test moved to the call site
            if _conds_hold_when_none([(t, p)], end_p, end_attr_):
                continue
            rest.append((t, p))
        if not rest:
            hit = True
            o.site(init, c, f"every element of `{tasks_p}` is inserted when {end_p} is None")
            continue
        ef = [(t, p) for t, p in rest if U.element_filter(t, {lv_}) is not None]
        if ef:
            filtered.append((c, ef[0]))
        else:
            unclear.append((c, "the insert call runs under a condition the rule cannot judge: " + ', '.join(facts.cond_texts(rest))))
    if not hit:
        calls_i = R.calls_to(init, ins)
        foreign = [t for _, t in R.self_calls(init) if t is not ins]
        if filtered and not unclear:
            c, (t, p) = filtered[0]
            o.refute(init, c, c, f"with {end_p}=None not every task of `{tasks_p}` is inserted: the insert call is skipped unless "
                                 f"`{'' if p else 'not '}{src(t)[:70]}`")
        elif not calls_i and not foreign:
            o.refute(init, init.node, init.name, "the constructor inserts no task")
        elif unclear:
            o.undecided(init, unclear[0][0], unclear[0][0], f"cannot establish that every task is inserted when {end_p} is None: "
                                                            + unclear[0][1])
        else:
            o.undecided(init, init.node, init.name, f"cannot establish that every task is inserted when {end_p} is None")


def _task_selection(tv: ast.AST, self_e: str):
    """the calculator's task argument as a selection of self.tasks:
    ('ok', text, None) all tasks, possibly without summaries | ('bad', text, test) filtered by a test of the task itself |
    ('unknown', text, test) | None: not a selection of self.tasks at all"""
    for _ in range(3):
        m = match("list($x)", tv) or match("tuple($x)", tv) or match("_ImmutableTaskList($x)", tv) or match("_to_list($x)", tv)
        if not m:
            break
        tv = m['x']
    if match(f"{self_e}.tasks", tv):
        return 'ok', f"{self_e}.tasks (all tasks of the WBS)", None
    if isinstance(tv, ast.Call) and isinstance(tv.func, ast.Name) and tv.func.id == 'filter' and len(tv.args) == 2 \
            and not tv.keywords and isinstance(tv.args[0], ast.Lambda) and len(tv.args[0].args.args) == 1 \
            and not tv.args[0].args.defaults:
        tgt = ast.Name(id=tv.args[0].args.args[0].arg, ctx=ast.Load())
        elt, it, ifs = tgt, tv.args[1], [tv.args[0].body]
    else:
        parts = facts.comp_parts(tv)
        if not parts:
            return None
        elt, tgt, it, ifs = parts
    if not (isinstance(tgt, ast.Name) and isinstance(elt, ast.Name) and elt.id == tgt.id and match(f"{self_e}.tasks", it)):
        return None
    atoms = []
    for c in ifs:
        atoms += facts.split_conj(c, True)
    unknown = None
    for a, p in atoms:
        lt = leaf_test(a, p)
        if lt and isinstance(lt[0], ast.Name) and lt[0].id == tgt.id:
            if lt[1]:
                continue                    # summaries never become arcs: leaving them out loses nothing
            return 'bad', src(tv), a       # only summaries
        nt = none_test(a, p)
        if nt and isinstance(nt[0], ast.Name) and nt[0].id == tgt.id and not nt[1]:
            continue                        # `t is not None`
        if U.element_filter(a, {tgt.id}) is not None:
            return 'bad', src(tv), (a if p else ast.UnaryOp(op=ast.Not(), operand=a))
        unknown = unknown or a
    if unknown is not None:
        return 'unknown', src(tv), unknown
    return 'ok', f"every task of {self_e}.tasks" + (" that has no children" if atoms else ""), ('leaf-only' if atoms else None)


def _is_end(e: ast.AST, end_p, end_attr=None) -> bool:
    """the end_date parameter of the constructor, or the calculator field it is copied to"""
    return (isinstance(e, ast.Name) and e.id == end_p) or bool(end_attr and match(f"self.{end_attr}", e))


def _conds_hold_when_none(conds, end_p, end_attr=None) -> bool:
    """all path conditions are implied by `end_p is None`"""
    def implied(t, p) -> bool:
        if isinstance(t, ast.Constant) and isinstance(t.value, bool):
            return t.value == p
        if isinstance(t, ast.UnaryOp) and isinstance(t.op, ast.Not):
            return implied(t.operand, not p)
        if isinstance(t, ast.BoolOp):
            conj = isinstance(t.op, ast.And) == p      # (a and b) true / (a or b) false: every part needed
            parts = [implied(v, p) for v in t.values]
            return all(parts) if conj else any(parts)
        if isinstance(t, ast.IfExp):
            # `True if self.<end> is None else t.end == self.<end>` (a folded predicate helper): the branch taken without end date
            nt_ = none_test(t.test, True)
            if nt_ and _is_end(nt_[0], end_p, end_attr):
                return implied(t.body if nt_[1] else t.orelse, p)
            return False
        nt = none_test(t, p)
        return bool(nt and _is_end(nt[0], end_p, end_attr) and nt[1])
    return all(implied(t, p) for t, p in conds)


def _reduce_when_none(t: ast.AST, end_p, end_attr=None) -> ast.AST:
    """the condition as it reads when no end date was given: `A if <end> is None else B` -> A (inside not / and / or too)"""
    if isinstance(t, ast.IfExp):
        nt = none_test(t.test, True)
        if nt and _is_end(nt[0], end_p, end_attr):
            return _reduce_when_none(t.body if nt[1] else t.orelse, end_p, end_attr)
        return t
    if isinstance(t, ast.UnaryOp) and isinstance(t.op, ast.Not):
        return ast.copy_location(ast.UnaryOp(op=ast.Not(), operand=_reduce_when_none(t.operand, end_p, end_attr)), t)
    if isinstance(t, ast.BoolOp):
        return ast.copy_location(ast.BoolOp(op=t.op, values=[_reduce_when_none(v, end_p, end_attr) for v in t.values]), t)
    return t


def _dead_when_none(t, p, end_p, end_attr=None) -> bool:
    """the condition cannot hold when no end date was given"""
    return _conds_hold_when_none([(t, not p)], end_p, end_attr)


def _default_zero(e: ast.AST, task_p: str) -> Optional[Tuple[str, str]]:
    """('estimate'|'spent', 'ok'|'nodefault'|'baddefault')"""
    for attr in ('estimate', 'spent'):
        a = f"{task_p}.{attr}"
        if match(a, e):
            return attr, 'nodefault'
        for pat in (f"{a} or $d", f"{a} if {a} is not None else $d", f"$d if {a} is None else {a}", f"{a} if {a} else $d",
                    f"$d if not {a} else {a}"):
            m = match(pat, e)
            if m:
                c = facts.const_num(m['d'])
                return attr, ('ok' if c is not None and c == 0 else 'baddefault')
        m = match(f"getattr({task_p}, '{attr}', $_) or $d", e)
        if m:
            c = facts.const_num(m['d'])
            return attr, ('ok' if c is not None and c == 0 else 'baddefault')
    return None


def _work_term(wt: ast.AST, task_p: str) -> Tuple[str, str]:
    # `<C> if task.<other attribute> else <work term>`: the duration of some tasks does not come from estimate / spent at all
    if isinstance(wt, ast.IfExp):
        read = {n.attr for n in ast.walk(wt.test) if isinstance(n, ast.Attribute) and isinstance(n.value, ast.Name)
                and n.value.id == task_p}
        free = {n.id for n in ast.walk(wt.test) if isinstance(n, ast.Name)} - {task_p, 'len', 'bool', 'abs', 'getattr'}
        if read and not free and not (read & {'estimate', 'spent', 'children', 'all_children'}):
            va, vb = _work_term(wt.body, task_p), _work_term(wt.orelse, task_p)
            if va[0] == 'ok' and vb[0] == 'ok':
                return 'ok', ''
            for v_, br, when in ((va, wt.body, src(wt.test)), (vb, wt.orelse, 'not ' + src(wt.test))):
                if v_[0] != 'ok' and (facts.const_num(br) is not None or v_[0] == 'bad'):
                    return 'bad', (f"for a task with `{when[:60]}` the length of the arc is `{src(br)[:60]}`"
                                   + (f" ({v_[1]})" if v_[0] == 'bad' else '') +
                                   f": every leaf lasts max(estimate - spent, 0), whatever its {', '.join(sorted(read))}")
            return 'unknown', "work term depends on `" + src(wt.test)[:60] + "` in a way the rule cannot judge"
    # `0 if task.estimate is None else max(task.estimate - .., 0)`: without an estimate nothing remains (spent is not negative)
    if isinstance(wt, ast.IfExp):
        nt = none_test(wt.test, True)
        if nt and match(f"{task_p}.estimate", nt[0]):
            when_none, other = (wt.body, wt.orelse) if nt[1] else (wt.orelse, wt.body)
            if facts.const_num(when_none) == 0:
                class _Def(ast.NodeTransformer):
                    def visit_Attribute(self, n):
                        if match(f"{task_p}.estimate", n):
                            return ast.BoolOp(op=ast.Or(), values=[n, ast.Constant(value=0)])
                        return self.generic_visit(n)
                import copy as _copy
                return _work_term(_Def().visit(_copy.deepcopy(other)), task_p)
    inner = None
    clamp = None
    # `E - S if E > S else 0`
    for pat in ("$x - $y if $x > $y else $z", "$x - $y if $x >= $y else $z", "$z if $x <= $y else $x - $y", "$z if $x < $y else $x - $y",
                "$x - $y if $y < $x else $z", "$x - $y if $y <= $x else $z", "$z if $y >= $x else $x - $y", "$z if $y > $x else $x - $y"):
        m = match(pat, wt)
        if m and facts.const_num(m['z']) is not None:
            inner, clamp = ast.BinOp(left=m['x'], op=ast.Sub(), right=m['y']), facts.const_num(m['z'])
            break
    m = match("max($a, $b)", wt) if inner is None else None
    if m:
        ca, cb = facts.const_num(m['a']), facts.const_num(m['b'])
        if ca is None and cb is None:
            da, db = _default_zero(m['a'], task_p), _default_zero(m['b'], task_p)
            if da is not None and db is not None and {da[0], db[0]} == {'estimate', 'spent'}:
                return 'bad', "the larger of estimate and spent, not their difference clamped at 0"

        if cb is not None and ca is None:
            inner, clamp = m['a'], cb
        elif ca is not None and cb is None:
            inner, clamp = m['b'], ca
    if inner is None:
        for pat in ("$x if $x > $c else $z", "$x if $x >= $c else $z", "$z if $x < $c else $x", "$z if $x <= $c else $x",
                    "$x if $c < $x else $z", "$x if $c <= $x else $z", "$z if $c > $x else $x", "$z if $c >= $x else $x"):
            m = match(pat, wt)
            if m and facts.const_num(m['z']) is not None and facts.const_num(m['c']) is not None:
                if facts.const_num(m['z']) != facts.const_num(m['c']):
                    return 'unknown', f"threshold {facts.const_num(m['c'])} and replacement value {facts.const_num(m['z'])} differ"
                inner, clamp = m['x'], facts.const_num(m['z'])
                break
    if inner is None:
        core = wt
        bad_wrap = None
        m = match("abs($x)", wt)
        if m:
            core, bad_wrap = m['x'], "abs() mirrors overspent work instead of clamping it at 0"
        m2 = match("min($a, $b)", wt)
        if m2:
            return 'bad', "min() instead of max(): the remaining work is never positive"
        parts = _diff_parts(core, task_p)
        if parts is not None:
            return 'bad', bad_wrap or "the remaining work is not clamped at 0 (negative duration for overspent tasks)"
        return 'unknown', "not a recognised remaining-work expression"
    if clamp != 0:
        return 'bad', f"clamped at {clamp} instead of 0"
    parts = _diff_parts(inner, task_p)
    if parts is None:
        return 'unknown', "argument of the clamp is not a difference of estimate and spent"
    pos, neg, states = parts
    if pos == ['estimate'] and neg == ['spent']:
        if states['estimate'] == 'ok' and states['spent'] == 'ok':
            return 'ok', ''
        for k in ('estimate', 'spent'):
            if states[k] == 'nodefault':
                return 'bad', f"a missing {k} (None) is not counted as 0"
            if states[k] == 'baddefault':
                return 'bad', f"a missing {k} defaults to a value other than 0"
    if pos == ['spent'] and neg == ['estimate']:
        return 'bad', "operands swapped: spent - estimate"
    if pos == ['estimate'] and not neg:
        return 'bad', "spent time is not subtracted"
    return 'bad', f"remaining work is built from +{pos} -{neg}"


def _diff_parts(e: ast.AST, task_p: str):
    """+/- decomposition into estimate / spent atoms: (positive attrs, negative attrs, default states) or None"""
    pos, neg, states = [], [], {}
    ok = [True]

    def rec(x, s):
        if isinstance(x, ast.BinOp) and isinstance(x.op, (ast.Add, ast.Sub)):
            rec(x.left, s)
            rec(x.right, s if isinstance(x.op, ast.Add) else -s)
            return
        d = _default_zero(x, task_p)
        if d is None:
            ok[0] = False
            return
        (pos if s > 0 else neg).append(d[0])
        states[d[0]] = d[1]
    rec(e, 1)
    if not ok[0] or not (pos or neg):
        return None
    return sorted(pos), sorted(neg), states


# ---------------------------------------------------------------------------------------------------------------------
# C12.inherit + C12.registered
def _leaf_helper_checker(ctx, R: Roles, cache: dict):
    """callable(call, caller) -> True iff the call targets a function verified to return the leaf tasks below (or equal
    to) its argument"""
    prog = ctx.prog

    def target_of(call: ast.Call, caller: Func) -> Optional[Func]:
        for ci in ctx.cg.calls_in(caller):
            if ci.node is call and ci.kind == 'call' and ci.resolved and len(ci.targets) == 1:
                return ci.targets[0]
        # the call may sit in a copy made by expansion: resolve by name
        fn = call.func
        name = unmangle(fn.attr) if isinstance(fn, ast.Attribute) else (fn.id if isinstance(fn, ast.Name) else None)
        if name is None:
            return None
        m = prog.find_method(R.cls, name)
        if m is not None and isinstance(fn, ast.Attribute):
            return m
        q = R.mod.name + '.' + name
        return prog.funcs.get(q)

    def verify(h: Func) -> bool:
        if h.qual in cache:
            return cache[h.qual][0]
        cache[h.qual] = (True, 'assumed (recursive)')     # provisional: the recursive call inside h denotes `leaves`
        params = [p for p in h.params if p != h.self_name and p != 'cls']
        if len(params) != 1 or isinstance(h.node, ast.Lambda):
            cache[h.qual] = (False, 'not a one-parameter function')
            return False
        ev = RelEval(ctx, h, params[0], checker)
        cfg = cfg_of(h)
        total: U.Paths = {}
        try:
            rets = [n for n in walk_no_nested(h.node) if isinstance(n, ast.Return) and n.value is not None]
            yields = [n for n in walk_no_nested(h.node) if isinstance(n, (ast.Yield, ast.YieldFrom))]
            if yields and not rets:
                # a generator: what it yields, one by one (`yield t`) or from another iterable (`yield from f(ch)`)
                for y in yields:
                    yn = cfg.node_containing(y)
                    if yn is None or y.value is None:
                        raise Unknown(y, "bare yield")
                    if isinstance(y, ast.Yield):
                        total = U._union(total, ev.contribution(yn, ast.List(elts=[y.value], ctx=ast.Load()), None))
                    else:
                        total = U._union(total, ev.contribution(yn, y.value, None))
            else:
                if not rets or yields:
                    raise Unknown(h.node, "no return")
                for r in rets:
                    total = U._union(total, ev.contribution(cfg.node_of(r), r.value, None))
        except Unknown as e:
            cache[h.qual] = (False, e.msg)
            return False
        got = U.normalise(total)
        ok = set(got) == {('leaf?',), ('children', 'leaves')} and all(U.unconditional(c) for c in got.values())
        alt = set(got) == {('leaves',)} and all(U.unconditional(c) for c in got.values())
        cache[h.qual] = (ok or alt, ', '.join(U.path_text(k, params[0]) for k in sorted(got)))
        return ok or alt

    def checker(call: ast.Call, caller: Func) -> bool:
        t = target_of(call, caller)
        if t is None or t.module is not R.mod:
            return False
        return verify(t)

    checker.resolve = target_of
    checker.cache = cache
    return checker


def _releval(ctx, R: Roles, model) -> RelEval:
    if 'releval' not in model:
        model['leaf_cache'] = {}
        model['releval'] = RelEval(ctx, R.insert, model['task_param'], _leaf_helper_checker(ctx, R, model['leaf_cache']))
    return model['releval']




def _inherit_registered(ctx, R: Roles, model, o_inh, o_reg):
    prog = ctx.prog
    ins, add = R.insert, R.add
    cfg = cfg_of(ins)
    if 'add_call' not in model:
        raise AnalysisError(f"{ins.qual}: expected exactly one call of the arc builder")
    call = model['add_call']
    task_p = model['task_param']
    an = cfg.node_containing(call)
    # the predecessor parameter of the arc builder = the one it iterates to add dependency arcs
    acfg = cfg_of(add)
    site = _dep_site(ctx, R, model)
    if site is None:
        o_inh.undecided(add, add.node, add.name, "the arc builder does not iterate one of its parameters to add dependency arcs")
        o_reg.undecided(add, add.node, add.name, "the arc builder does not iterate one of its parameters to add dependency arcs")
        return
    dep_host = site['host']
    model['dep_loop'] = site['loop']
    model['pred_param'] = pred_param = site['pred_param']
    ev = _releval(ctx, R, model)
    cache = model['leaf_cache']
    if dep_host is add:
        ids_arg, ids_at = bind_args(call, add).get(pred_param), an
    else:
        # the insert links the predecessors itself, after the arc builder returned the task's arc
        ids_arg, ids_at = site['loop'].iter, cfg.node_of(site['loop'])
    try:
        ids = U.normalise(ev.contribution(ids_at, ids_arg, an))
    except Unknown as e:
        for o in (o_inh, o_reg):
            o.undecided(ins, e.node if hasattr(e.node, 'lineno') else call, e.node if isinstance(e.node, ast.AST) else call,
                        "predecessor list of the arc: " + e.msg)
        return
    key_attrs = {(k[-1][1:] if k and k[-1].startswith('@') else None) for k in ids}
    objs: U.Paths = {}
    for k, c in ids.items():
        objs = U._union(objs, {(k[:-1] if k and k[-1].startswith('@') else k): c})
    objs = U.normalise(objs)
    desc = ', '.join(U.path_text(k, task_p) for k in sorted(objs)) or '(nothing)'

    # ------------------------------------------------------------------ C12.inherit
    o = o_inh
    owners: Dict[tuple, List[tuple]] = {}
    weird = []
    for k in objs:
        if k.count('predecessors') == 1:
            i = k.index('predecessors')
            owners.setdefault(k[:i], []).append(k[i + 1:])
        else:
            weird.append(k)
    for k in weird:
        if any(op.startswith('@') for op in k):
            o.undecided(ins, call, U.path_text(k, task_p), "dependency arcs keyed through an attribute chain")
        elif all(op in U.RELS or op in ('leaves', 'leaf?', 'nonleaf?') for op in k):
            o.refute(ins, call, U.path_text(k, task_p), f"dependency arcs are drawn from `{U.path_text(k, task_p)}`, which is not a "
                                                         f"predecessor set of the task or of one of its ancestors")
        else:
            o.undecided(ins, call, U.path_text(k, task_p), "unrecognised source of dependency arcs")
    cond_paths = [k for k, c in objs.items() if not U.unconditional(c)]
    if () not in owners:
        o.refute(ins, call, 'own predecessors', f"the task's own predecessors are not read (arc sources: {desc})")
    elif not any(k[:1] == ('predecessors',) and not U.unconditional(objs[k]) for k in objs):
        o.site(ins, call, f"own predecessors: {U.path_text(('predecessors',), task_p)}")
    if ('all_parents',) not in owners:
        seen = ', '.join(U.path_text(k, task_p) for k in sorted(owners)) or 'none'
        o.refute(ins, call, 'predecessors of ancestors',
                 f"predecessors declared on ancestor summaries are not inherited: predecessor owners read are [{seen}], expected the "
                 f"task and every element of {task_p}.all_parents")
    elif not any(k[:2] == ('all_parents', 'predecessors') and not U.unconditional(objs[k]) for k in objs):
        o.site(ins, call, f"ancestors' predecessors: {U.path_text(('all_parents', 'predecessors'), task_p)}")
    for ow in owners:
        if ow not in ((), ('all_parents',), ('parent',)):
            o.refute(ins, call, U.path_text(ow + ('predecessors',), task_p),
                     f"predecessors of `{U.path_text(ow, task_p)}` are turned into dependency arcs of the task: they do not bind it")
    bad_tail = False
    for ow, tails in owners.items():
        for t in tails:
            if t == ('leaves',):
                continue
            bad_tail = True
            full = U.path_text(ow + ('predecessors',) + t, task_p)
            if t == () or t == ('nonleaf?',):
                o.refute(ins, call, full, f"a predecessor that is a summary task is not expanded to its leaf tasks (`{full}` is used "
                                          f"as is): the dependency never reaches the leaves it binds")
            elif t in (('children',), ('all_children',), ('leaf?',), ('all_children', 'leaf?'), ('children', 'leaves'),
                       ('children', 'leaf?'), ('all_children', 'leaves')):
                o.refute(ins, call, full, f"predecessors are replaced by `{full}`, which is not the set of their leaf tasks "
                                          f"(leaf predecessors themselves / deeper leaves are lost or summaries kept)")
            else:
                o.undecided(ins, call, full, "unrecognised expansion of a predecessor")
    if not bad_tail and owners:
        helpers = [f"{q.split('.')[-1]}: {v[1]}" for q, v in cache.items() if v[0]]
        o.site(ins, call, "each predecessor expanded to its leaves" + (f" (helper {'; '.join(helpers)})" if helpers else ''))
    for k in cond_paths:
        # a test of the drawn tasks themselves (`[l for l in leaves(p) if len(l.successors) == 0]`) narrows the set: the tasks
        # that fail it are not bound by the dependency.  (Complementary filters of one path have been merged by _simplify.)
        filt = sorted({a for alt in objs[k] for a in alt if U.is_filter_atom(a)})
        if filt:
            shown = filt[0].replace(U.FILTER_MARK, '', 1)
            o.refute(ins, call, f"{U.path_text(k, task_p)} if {shown}",
                     f"the dependency sources `{U.path_text(k, task_p)}` are narrowed by a test of the tasks themselves (`{shown}`): "
                     f"the tasks that fail it get no dependency arc, but a predecessor (and, for a summary, every one of its leaves) "
                     f"binds the task")
            continue
        own_ = sorted({a for alt in objs[k] for a in alt if U.is_own_atom(a)})
        if own_ and k[:1] in (('all_parents',), ('parent',)):
            shown = own_[0].replace(U.OWN_MARK, '', 1)
            o.refute(ins, call, f"{U.path_text(k, task_p)} if {shown}",
                     f"`{U.path_text(k, task_p)}` (the predecessors declared on the ancestor summaries) become dependency arcs only when "
                     f"`{shown}`, a test of the task's own links / amounts: a dependency declared on a summary task binds all its "
                     f"leaves, whatever else a leaf is linked to")
            continue
        o.undecided(ins, call, U.path_text(k, task_p), f"`{U.path_text(k, task_p)}` contributes only under a condition the rule cannot "
                                                        f"discharge: {U.cond_text(objs[k]).replace(U.OWN_MARK, '')}")

    # ------------------------------------------------------------------ C12.registered
    o = o_reg
    # (R1) everything whose id is handed over was inserted before the arc builder runs
    inserted: U.Paths = {}
    order_ok = True
    rec_calls = R.calls_to(ins, ins)
    try:
        for c in rec_calls:
            n = cfg.node_containing(c)
            if not _before(cfg, n, an):
                order_ok = False
                continue
            if c.args:
                inserted = U._union(inserted, ev.contribution(n, ast.List(elts=[c.args[0]], ctx=ast.Load()), an))
        inserted = U.normalise(inserted)
    except Unknown as e:
        o.undecided(ins, call, e.node if isinstance(e.node, ast.AST) else call, "recursive insert: " + e.msg)
        return
    # `if p.id not in self.<tasks>: self.__insert_task(p)`: a task that fails the test has been inserted earlier
    import re as _re
    tab_ = _re.escape(str(model.get('tasks_attr')))
    memo_atom = _re.compile(r"^(\w+\.\w+ not in self\." + tab_ + r"(\.keys\(\))?|not \w+\.\w+ in self\." + tab_ +
                            r"(\.keys\(\))?|self\." + tab_ + r"\.get\(\w+\.\w+\) is None)$")
    inserted = {k: U._simplify([frozenset(a for a in alt if not memo_atom.match(a)) for alt in c]) for k, c in inserted.items()}
    missing = [k for k in objs if k not in inserted or (U.unconditional(objs[k]) and not U.unconditional(inserted[k]))]
    if not rec_calls:
        o.refute(ins, call, 'recursive insert', "predecessors are never inserted: their ids are not keys of the arc table "
                                                "(KeyError in the arc builder)")
    elif not order_ok:
        o.refute(ins, call, 'recursive insert', "a predecessor is inserted only after the arc builder looked its id up in the arc table")
    elif missing:
        o.refute(ins, call, U.path_text(missing[0], task_p),
                 f"ids of `{U.path_text(missing[0], task_p)}` are handed to the arc builder but these tasks are not (unconditionally) "
                 f"inserted before (inserted: {', '.join(U.path_text(k, task_p) for k in sorted(inserted)) or 'nothing'})")
    else:
        o.site(ins, call, f"every task whose id is handed over is inserted first ({len(rec_calls)} recursive call site)")

    # (R2) early returns of the insert: only `has children` and `already inserted`; predecessors are leaves
    early = []
    memo = None
    unknown_ret = False
    tasks_attr = model.get('tasks_attr')
    for r in [n for n in walk_no_nested(ins.node) if isinstance(n, ast.Return)]:
        rn = cfg.node_of(r)
        if rn is None or not cfg.is_reachable(rn) or cfg.can_reach(an, rn):
            continue
        cs = []
        for t, p in cfg.conditions(rn):
            t = U.bool_ifexp(t)         # `if not self.__wanted(task): return` folded to `not (False if task.children else ..)`
            while isinstance(t, ast.UnaryOp) and isinstance(t.op, ast.Not):
                t, p = t.operand, not p
            if not p and isinstance(t, ast.BoolOp) and isinstance(t.op, ast.And):
                # not (a and b) = not a or not b
                t, p = ast.copy_location(ast.BoolOp(op=ast.Or(), values=[ast.UnaryOp(op=ast.Not(), operand=v) for v in t.values]), t), True
            cs.append((t, p))
        atoms = []
        for t, p in cs:
            atoms += facts.split_conj(t, p)
        kinds = set()
        for t, p in atoms:
            lt = leaf_test(t, p)
            if lt and isinstance(lt[0], ast.Name) and lt[0].id == task_p:
                kinds.add('summary' if not lt[1] else 'leaf')
                continue
            mt = _member_test(t, p, task_p)
            if mt and mt[3]:
                kinds.add('memo')
                memo = (r, mt[1], mt[2])
                continue
            kinds.add('?')
        if kinds <= {'summary', 'memo', 'leaf'} and ('summary' in kinds or 'memo' in kinds) and len(cs) >= 1:
            # with an or-condition (`if summary or seen: return`) the atoms are disjuncts, not conjuncts
            early.append(('summary' if 'summary' in kinds else 'memo', r))
        else:
            # `if a or b: return`
            ors = [t for t, p in cs if p and isinstance(t, ast.BoolOp) and isinstance(t.op, ast.Or)]
            okor = False
            for t in ors:
                ks = set()
                for v in t.values:
                    lt = leaf_test(v, True)
                    if lt and isinstance(lt[0], ast.Name) and lt[0].id == task_p and not lt[1]:
                        ks.add('summary')
                        continue
                    mt = _member_test(v, True, task_p)
                    if mt and mt[3]:
                        ks.add('memo')
                        memo = (r, mt[1], mt[2])
                        continue
                    ks.add('?')
                if ks <= {'summary', 'memo'}:
                    okor = True
                    early.append(('summary+memo', r))
            if not okor:
                unknown_ret = True
                o.undecided(ins, r, 'return', "early return of the insert under a condition that is neither `task has children` nor "
                                              "`task already inserted`: " + ', '.join(facts.cond_texts(cs)))
    # nesting instead of guard clauses: `if len(task.children) == 0 and task.id not in self.<tasks>: <body>`
    nested_leaf = False
    nested_memo = None
    for t, p in _nconds(prog, ins, call, ctx.typer, expand=False):
        for a_, ap_ in facts.split_conj(t, p):
            lt = leaf_test(a_, ap_)
            if lt and isinstance(lt[0], ast.Name) and lt[0].id == task_p and lt[1]:
                nested_leaf = True
            mt = _member_test(a_, ap_, task_p)
            if mt and not mt[3]:
                nested_memo = (a_, mt[1], mt[2])
    nonleaf = [k for k in objs if not (k and k[-1] in ('leaves', 'leaf?'))]
    has_summary_return = any('summary' in k for k, _ in early) or nested_leaf
    if nonleaf and has_summary_return:
        o.refute(ins, call, U.path_text(nonleaf[0], task_p),
                 f"`{U.path_text(nonleaf[0], task_p)}` may contain tasks with children; the insert returns early for those without "
                 f"registering an arc, so the arc builder's lookup of their id raises KeyError")
    elif not unknown_ret:
        o.site(ins, call, "predecessor ids belong to leaf tasks; early returns: " + ', '.join(k for k, _ in early))

    # (R3) arc table written unconditionally before the lookups, keyed by the same attribute as the ids handed over
    links_attr = model.get('links_attr')
    st = model.get('arc_store')
    loop = model.get('dep_loop')
    if st is None or links_attr is None:
        o.undecided(add, add.node, add.name, "arc table store not identified")
    else:
        lookups = [n for n in walk_no_nested(loop) if isinstance(n, ast.Subscript) and isinstance(n.ctx, ast.Load)
                   and isinstance(n.value, ast.Attribute) and n.value.attr == links_attr]
        good = [n for n in lookups if isinstance(n.slice, ast.Name) and isinstance(loop.target, ast.Name)
                and n.slice.id == loop.target.id]
        if not good:
            o.undecided(dep_host, loop, loop, "dependency loop does not look the predecessor up in the arc table by its id")
        elif dep_host is add and not _before(acfg, acfg.node_of(st), acfg.node_of(loop)):
            o.refute(add, st, st, "the task's own arc is registered after (or inside) the dependency loop")
        elif dep_host is not add and not _before(cfg, an, cfg.node_of(loop)):
            o.refute(ins, call, call, "the task's own arc is registered (by the arc builder) after or inside the dependency loop")
        else:
            o.site(add, st, f"arc table self.{unmangle(links_attr)} written unconditionally before the lookups `{src(good[0])}`")
    ka = model.get('key_attr')
    if key_attrs == {'id'} and ka == 'id':
        o.site(ins, call, "table key and predecessor keys are both `.id`")
    elif len(key_attrs) == 1 and ka and key_attrs != {ka}:
        o.refute(ins, call, ids_arg, f"arc table is keyed by `.{ka}` but predecessors are looked up by `.{next(iter(key_attrs))}`")
    else:
        o.undecided(ins, call, ids_arg, "cannot establish that predecessor keys and table keys are the same attribute")

    # (R4) inserted once: memo test dominates the memo store and the arc builder
    ts = model.get('tasks_store')
    if memo is None and nested_memo is not None:
        # the body of the insert is nested under the `not yet inserted` test
        a_, tab_a, key_a = nested_memo
        if ts is None or tab_a != tasks_attr or not match(f"{task_p}.{key_a}", ts[1]):
            o.refute(ins, a_, 'memo guard', f"the `already inserted` test reads self.{unmangle(str(tab_a))} by `.{key_a}` but the insert "
                                            f"records the task elsewhere / under another key: the guard never fires")
        elif any(_member_test(x_, xp_, task_p) for t, p in cfg.conditions(cfg.node_of(ts[0])) for x_, xp_ in facts.split_conj(t, p)):
            o.site(ins, a_, f"inserted once: the task is recorded and its arc built only under `{src(a_)[:60]}`")
        else:
            o.undecided(ins, ts[0], ts[0], "the arc is built under the `not yet inserted` test but the task is recorded outside of it")
    elif memo is None:
        # the test may sit at the call sites: `if p.id not in self.<tasks>: self.__insert_task(p)`
        guarded_, bare_ = [], []
        for owner in (R.init, ins):
            for c in R.calls_to(owner, ins):
                arg = c.args[0] if c.args else None
                cs_ = []
                for t, p in _nconds(prog, owner, c, ctx.typer, expand=False):
                    cs_ += facts.split_conj(t, p)
                if owner is R.init and model.get('end_none') and any(
                        (lambda nt: nt and isinstance(nt[0], ast.Name) and nt[0].id == model.get('end_param') and not nt[1])(
                            none_test(t, p)) for t, p in cs_):
                    continue        # call site of the end_date mode
                mts = [mt for mt in (_member_test(t, p) for t, p in cs_) if mt and not mt[3] and isinstance(arg, ast.Name)
                       and mt[0] == arg.id]
                ok_ = [mt for mt in mts if mt[1] == tasks_attr and ts is not None and match(f"{task_p}.{mt[2]}", ts[1])]
                (guarded_ if ok_ else bare_).append(c)
        other_tests = [n for n in walk_no_nested(ins.node) if isinstance(n, ast.Compare) and isinstance(n.ops[0], (ast.In, ast.NotIn))
                       and any(isinstance(x, ast.Attribute) and x.attr == tasks_attr for x in ast.walk(n))]
        if guarded_ and not bare_:
            o.site(ins, guarded_[0], f"inserted once: every call of {ins.name} is guarded by `x.id not in self.{unmangle(str(tasks_attr))}`")
        elif unknown_ret or (other_tests and not guarded_):
            o.undecided(ins, ins.node, 'memo guard', "no recognised `already inserted` test; a membership test of the task table is "
                                                     "present in a form the rule does not follow")
        elif guarded_:
            o.refute(ins, bare_[0], bare_[0], f"`{src(bare_[0])}` inserts without the `already inserted` test the other call sites "
                                              f"make: a task reachable over two ways is inserted twice and its second arc hides the "
                                              f"first")
        else:
            o.refute(ins, ins.node, 'memo guard', f"no `if {task_p}.id in self.<tasks>: return` guard: a task reachable over two "
                                                  f"dependency chains is inserted twice and its second arc hides the first")
    elif memo[1] == model.get('links_attr') and memo[2] == model.get('key_attr') and memo[1] != tasks_attr:
        # `if task.id in self.<arc table>: return`: the arc is registered (unconditionally, R3) under the same key once the
        # predecessors are in; on an acyclic WBS the recursion in between never comes back to the task
        o.site(ins, memo[0], f"inserted once: `{task_p}.{memo[2]} in self.{unmangle(str(memo[1]))}` (the arc table) tested on entry")
    elif ts is None or memo[1] != tasks_attr or not match(f"{task_p}.{memo[2]}", ts[1]):
        o.refute(ins, memo[0], 'memo guard', f"the `already inserted` test reads self.{unmangle(str(memo[1]))} by `.{memo[2]}` but the "
                                             f"insert records the task elsewhere / under another key: the guard never fires")
    else:
        mn, sn = cfg.node_of(memo[0]), cfg.node_of(ts[0])
        if _before(cfg, mn, sn) or cfg.dominates(cfg.node_containing(_test_of(cfg, memo[0])), sn):
            o.site(ins, memo[0], f"inserted once: `{task_p}.{memo[2]} in self.{unmangle(tasks_attr)}` tested before the task is recorded")
        else:
            o.refute(ins, ts[0], ts[0], "the task is recorded as inserted before the `already inserted` test: every task is skipped")


def _member_test(t: ast.AST, pol: bool, var: Optional[str] = None):
    """(object name, table attribute, key attribute, is_member) for `x.k in self.tab` / `x.k not in self.tab` / `.keys()` /
    `self.tab.get(x.k) is (not) None` under the given polarity; x must be `var` when given"""
    while isinstance(t, ast.UnaryOp) and isinstance(t.op, ast.Not):
        t, pol = t.operand, not pol
    m = None
    member = pol
    if isinstance(t, ast.Compare) and len(t.ops) == 1 and isinstance(t.ops[0], (ast.In, ast.NotIn)):
        pos = ast.Compare(left=t.left, ops=[ast.In()], comparators=t.comparators)
        m = match("$x.$k in self.$tab", pos) or match("$x.$k in self.$tab.keys()", pos)
        if isinstance(t.ops[0], ast.NotIn):
            member = not pol
    else:
        m = match("self.$tab.get($x.$k) is not None", t)
        if not m:
            m = match("self.$tab.get($x.$k) is None", t)
            if m:
                member = not pol
    if not m or not isinstance(m['x'], ast.Name) or (var is not None and m['x'].id != var):
        return None
    return m['x'].id, m['tab'], m['k'], member


def _shared_list_leak(ctx, R: Roles, model, o):
    """`preds = self.__cached(task.parent)` followed by `preds += ..` / `preds.append(..)`: when the helper hands out a list it
    keeps in the calculator (a per-parent cache), the in-place extension lands in the cache and the next task that gets the same
    list inherits predecessors that are not its own"""
    prog, ins = ctx.prog, R.insert
    cfg, fl = cfg_of(ins), flow_of(ins)

    def stored_return(h: Func):
        """a return of h whose value is (an element of) a container held by the calculator, not a copy"""
        exh = Expander(prog, h, ctx.typer, inline=False)
        hcfg = cfg_of(h)
        for r in [n for n in walk_no_nested(h.node) if isinstance(n, ast.Return) and n.value is not None]:
            rn = hcfg.node_of(r)
            if rn is None or not hcfg.is_reachable(rn):
                continue
            v = r.value
            if isinstance(v, ast.Name):
                d = fl_h.unique_def(v.id, rn)
                if d is not None and d.kind == 'assign' and d.value is not None:
                    v = d.value
            for _ in range(2):
                m = match("$x.get($*a)", v) or match("$x.setdefault($*a)", v)
                if m:
                    v = m['x']
                elif isinstance(v, ast.Subscript):
                    v = v.value
            if isinstance(v, ast.Attribute) and isinstance(v.value, ast.Name) and v.value.id == h.self_name:
                return r
        return None

    def self_load(v: ast.AST) -> bool:
        """v reads (an element of) a container the calculator keeps: self.X[..], self.X.get(..), self.X.setdefault(..), self.X"""
        for _ in range(2):
            m = match("$x.get($*a)", v) or match("$x.setdefault($*a)", v)
            if m:
                v = m['x']
            elif isinstance(v, ast.Subscript):
                v = v.value
        return isinstance(v, ast.Attribute) and isinstance(v.value, ast.Name) and v.value.id == ins.self_name

    def origin(name: str, at, depth=0):
        """('helper', h, return) | ('load', expr, None) when some definition of `name` reaching `at` is a list the calculator keeps"""
        if depth > 4 or at is None:
            return None
        for d in fl.reaching(name, at):
            if d.kind != 'assign' or d.value is None or d.node is None:
                continue
            v = d.value
            if isinstance(v, ast.Name) and v.id != name:
                got = origin(v.id, d.node, depth + 1)
                if got:
                    return got
            elif isinstance(v, ast.Call):
                targets = [t for c, t in R.self_calls(ins) if c is v and t.cls == R.cls and t.kind == 'method' and t is not ins]
                if len(targets) == 1:
                    nonlocal fl_h
                    fl_h = flow_of(targets[0])
                    sr = stored_return(targets[0])
                    if sr is not None:
                        return 'helper', targets[0], sr
                if self_load(v):
                    return 'load', v, None
            elif self_load(v) and isinstance(v, ast.Subscript):
                return 'load', v, None
        return None

    fl_h = None
    for n in walk_no_nested(ins.node):
        mut = None
        if isinstance(n, ast.AugAssign) and isinstance(n.target, ast.Name) and isinstance(n.op, ast.Add):
            mut, mn, nm = n, cfg.node_of(n), n.target.id
        elif isinstance(n, ast.Call) and isinstance(n.func, ast.Attribute) and isinstance(n.func.value, ast.Name) and \
                n.func.attr in ('append', 'extend', 'insert'):
            mut, mn, nm = n, cfg.node_containing(n), n.func.value.id
        if mut is None or mn is None or not cfg.is_reachable(mn):
            continue
        got = origin(nm, mn)
        if not got:
            continue
        # `lst = self.<cache>.setdefault(key, []); if not lst: <fill lst>`: filling a fresh entry is what a cache does
        fill_guard = False
        for t, p in cfg.conditions(mn):
            for a_, ap_ in facts.split_conj(t, p):
                et, nt = empty_test(a_, ap_), none_test(a_, ap_)
                if (et and isinstance(et[0], ast.Name) and et[0].id == nm) or (nt and isinstance(nt[0], ast.Name) and nt[0].id == nm) \
                        or (isinstance(a_, ast.Name) and a_.id == nm):
                    fill_guard = True
        if fill_guard:
            o.undecided(ins, mut, mut, f"`{src(mut)[:60]}` extends a list kept in the calculator under a test of that list: cannot tell "
                                       f"a cache fill from a leak between tasks")
            return
        if got[0] == 'helper':
            h, sr = got[1], got[2]
            o.refute(ins, mut, mut, f"`{src(mut)[:60]}` extends in place the list that {h.name} returned; {h.name} hands out a list it "
                                    f"keeps in the calculator (`{src(sr)[:60]}`), so what is added for this task stays in the kept list "
                                    f"and is inherited by every later task that gets the same list (siblings take over each other's "
                                    f"own predecessors)")
        else:
            o.refute(ins, mut, mut, f"`{src(mut)[:60]}` extends in place a list read from the calculator's own state "
                                    f"(`{src(got[1])[:60]}`): what is added for this task stays in the kept list and is inherited by "
                                    f"every later task that reads the same entry")
        return


def _entry_shortcuts(ctx, R: Roles, o):
    """returns of WBS.critical_path that do not come from the calculator: a shortcut taken when "there are no dependencies"
    must look at the dependencies of the summary tasks too (they bind all their leaves)"""
    prog, entry = ctx.prog, R.entry
    ecfg = cfg_of(entry)
    ex = Expander(prog, entry, ctx.typer, inline=False)
    self_e = entry.self_name
    for r in [n for n in walk_no_nested(entry.node) if isinstance(n, ast.Return) and n.value is not None]:
        rn = ecfg.node_of(r)
        if rn is None or not ecfg.is_reachable(rn):
            continue
        v = ex.expand(r.value, rn)
        if any(isinstance(n, ast.Call) and getattr(n.func, 'id', None) == R.cls for n in ast.walk(v)):
            continue                    # built by the calculator
        for t, p in ecfg.conditions(rn):
            tn = ecfg.node_containing(t)
            te = ex.expand(t, tn) if tn is not None else t
            for comp in [n for n in ast.walk(te) if isinstance(n, (ast.GeneratorExp, ast.ListComp, ast.SetComp))]:
                if len(comp.generators) != 1 or not isinstance(comp.generators[0].target, ast.Name):
                    continue
                g = comp.generators[0]
                var = g.target.id
                sel = _task_selection(g.iter, self_e)
                if not sel or sel[0] != 'ok' or sel[2] != 'leaf-only':
                    continue
                body = [comp.elt] + list(g.ifs)
                reads = {n.attr for b in body for n in ast.walk(b) if isinstance(n, ast.Attribute) and isinstance(n.value, ast.Name)
                         and n.value.id == var}
                if reads & {'predecessors', 'successors', 'all_predecessors', 'all_successors'} and \
                        not reads & {'all_parents', 'parent'}:
                    dep = sorted(reads & {'predecessors', 'successors', 'all_predecessors', 'all_successors'})[0]
                    o.refute(entry, r, comp, f"WBS.critical_path returns `{src(r.value)[:60]}` without building the network when "
                                             f"`{'' if p else 'not '}{src(t)[:70]}`; that test reads `.{dep}` of the tasks without "
                                             f"children only, so dependencies declared on summary tasks (which bind all their "
                                             f"leaves) are ignored on this path")


def _test_of(cfg, ret: ast.Return):
    """the test expression of the branch that leads to this return"""
    n = cfg.node_of(ret)
    cs = cfg.conditions(n)
    return cs[-1][0] if cs else ret


# ---------------------------------------------------------------------------------------------------------------------
# C12.passes + C12.no-float-eq
def _passes(ctx, R: Roles, model, o, o_eq):
    prog = ctx.prog
    _network_model(ctx, R, model, o)
    con, add, calc = R.connect, R.add, R.calc
    via = model['connect_fields']
    if not {'start', 'end', 'units'} <= set(via):
        o.undecided(con, con.node, con.name, "link construction not understood (see leaf-arcs)")
        return
    p_start, p_end, p_units = via['start'], via['end'], via['units']

    # ---- adjacency kept by the connect helper
    ccfg = cfg_of(con)
    exc = Expander(prog, con, ctx.typer, inline=False)
    adj = {}
    understood = set()          # statements of the connect helper the rule has accounted for

    def is_link(v_, at_):
        v_ = exc.expand(v_, at_)
        return same(v_, model['connect_ctor']) or (isinstance(v_, ast.Call) and getattr(v_.func, 'id', None) == R.link_cls)

    def one_elt(e_):
        return e_.elts[0] if isinstance(e_, (ast.List, ast.Tuple)) and len(e_.elts) == 1 else None

    for n_ in walk_no_nested(con.node):
        recv = elt_ = None
        stn = ccfg.node_containing(n_) if isinstance(n_, ast.expr) else (ccfg.node_of(n_) if isinstance(n_, ast.stmt) else None)
        if isinstance(n_, ast.Call) and isinstance(n_.func, ast.Attribute) and n_.args and not n_.keywords:
            nm_ = n_.func.attr
            if nm_ == 'append' and len(n_.args) == 1:
                recv, elt_ = n_.func.value, n_.args[0]
            elif nm_ == 'insert' and len(n_.args) == 2:
                recv, elt_ = n_.func.value, n_.args[1]
            elif nm_ == 'extend' and len(n_.args) == 1:
                recv, elt_ = n_.func.value, one_elt(n_.args[0])
        elif isinstance(n_, ast.AugAssign) and isinstance(n_.op, ast.Add):
            recv, elt_ = n_.target, one_elt(n_.value)                       # X.links += [link]
        elif isinstance(n_, ast.Assign) and len(n_.targets) == 1 and isinstance(n_.value, ast.BinOp) and isinstance(n_.value.op, ast.Add) \
                and same(n_.targets[0], n_.value.left):
            recv, elt_ = n_.targets[0], one_elt(n_.value.right)             # X.links = X.links + [link]
        if recv is None or elt_ is None or stn is None:
            continue
        if isinstance(recv, ast.Attribute) and isinstance(recv.value, ast.Name) and recv.value.id in con.params and is_link(elt_, stn):
            adj.setdefault(recv.value.id, []).append((recv.attr, n_))
            understood.add(id(ccfg.nodes[stn.id].ast))
    out_attr = [a for a, _ in adj.get(p_start, [])]
    in_attr = [a for a, _ in adj.get(p_end, [])]
    adj_ok = False
    # closed world: every other statement of the helper is the link construction, a return or a docstring
    other = [st_ for st_ in con.node.body if id(st_) not in understood and not isinstance(st_, (ast.Return, ast.Pass)) and
             not (isinstance(st_, ast.Expr) and isinstance(st_.value, ast.Constant)) and
             not (isinstance(st_, (ast.Assign, ast.AnnAssign)) and st_.value is not None and isinstance(st_.value, ast.Call) and
                  getattr(st_.value.func, 'id', None) == R.link_cls)]
    if (len(out_attr) == 0 or len(in_attr) == 0) and other:
        o.undecided(con, other[0], con.name, f"how {con.name} records a new link in its end nodes is not understood "
                                             f"(`{src(other[0])[:70]}`)")
    elif len(out_attr) != 1 or len(in_attr) != 1:
        o.refute(con, con.node, con.name, f"a new link is not appended to exactly one list of its start node and one list of its end "
                                          f"node (start: {out_attr}, end: {in_attr})")
    elif out_attr[0] == in_attr[0]:
        o.refute(con, con.node, con.name, f"outgoing and incoming links share the list `{out_attr[0]}`")
    else:
        adj_ok = True
    if adj_ok:
        OUT, IN = out_attr[0], in_attr[0]
        rets = [n for n in walk_no_nested(con.node) if isinstance(n, ast.Return) and n.value is not None]
        if R.connect_is_ctor:
            o.site(con, con.node, f"a new {R.link_cls}(units, start, end) appends itself to start.{OUT} and end.{IN}")
        elif not (rets and all(same(exc.expand(r.value), model['connect_ctor']) or
                             getattr(getattr(exc.expand(r.value), 'func', None), 'id', None) == R.link_cls for r in rets)):
            o.undecided(con, con.node, con.name, "connect helper does not return the link it created")
        else:
            o.site(con, con.node, f"link(start,end,units) appended to start.{OUT} and end.{IN}")
    else:
        OUT, IN = 'forward_links', 'backward_links'     # the readers' convention; the remaining clauses are still checked

    # ---- dependency arcs: pred.end -> start, 0 units
    site = _dep_site(ctx, R, model)
    loop = site['loop'] if site else None
    dep_host = site['host'] if site else add
    real_add = add
    links_attr = model.get('links_attr')
    arc_start = model.get('arc_start')
    is_start = (lambda e_, at_: (same(e_, arc_start) if arc_start is not None else None))
    if dep_host is not add:
        # `work = self.__add_work(id, units)` ... `connect(self.<links>[pid].end, work.start, 0)`: the arc builder must return
        # the arc it registered; its `.start` is then the start node of the task's arc
        exadd = Expander(prog, real_add, ctx.typer, inline=False)
        st_arc = model.get('arc_store')
        rets_ = [r_ for r_ in walk_no_nested(real_add.node) if isinstance(r_, ast.Return)]
        returns_arc = bool(rets_) and st_arc is not None and all(
            r_.value is not None and same(exadd.expand(r_.value, cfg_of(real_add).node_of(r_)),
                                          exadd.expand(st_arc.value, cfg_of(real_add).node_of(st_arc))) for r_ in rets_)
        exh_ = Expander(prog, dep_host, ctx.typer, inline=False)

        def is_start(e_, at_):          # noqa: F811
            x_ = exh_.expand(e_, at_)
            m_ = match("$w.$f", x_)
            if not m_ or not isinstance(m_['w'], ast.Call) or not returns_arc:
                return None
            if not any(c_ is m_['w'] or same(c_.func, m_['w'].func) for c_ in R.calls_to(dep_host, real_add)):
                return None
            return m_['f'] == 'start'
        add = dep_host                  # the statements below talk about the function that hosts the dependency loop
    exa = Expander(prog, add, ctx.typer, inline=False)
    acfg = cfg_of(add)
    dep_calls = [c for c in R.calls_to(add, con) if loop is not None and any(c is x for x in ast.walk(loop))]
    if loop is None or not dep_calls or (arc_start is None and dep_host is real_add):
        # closed world: besides the arc's own link neither the builder nor the insert creates a link or calls anything that could
        n_links = len(R.calls_to(real_add, con)) + len(R.calls_to(R.insert, con))
        foreign = [t for _, t in R.self_calls(real_add) if t is not con and t is not R.new_node] + \
                  [t for _, t in R.self_calls(R.insert) if t not in (R.insert, real_add, con) and R.calls_to(t, con)]
        if n_links <= 1 and not foreign and arc_start is not None:
            o.refute(add, add.node, 'dependency arcs', "the arc builder adds no link between a predecessor's arc and the task's arc")
        else:
            o.undecided(add, add.node, 'dependency arcs', "where the arc builder links a predecessor's arc to the task's arc is not "
                                                          "understood (no loop over the predecessor parameter with a connect call)")
    if loop is not None and dep_calls and dep_host is real_add and model.get('add_call') is not None:
        # the loop as a whole must run for every task: `if started: return` in front of it drops all dependency arcs of some
        lh_ = acfg.node_of(loop)
        ab_ = bind_args(model['add_call'], real_add)
        ins_ = R.insert
        exi_ = Expander(prog, ins_, ctx.typer)
        icfg_ = cfg_of(ins_)
        from sa.flow import subst as _subst
        for t_, p_ in (acfg.conditions(lh_) if lh_ is not None else []):
            for a_, ap_ in facts.split_conj(exa.expand(t_, acfg.node_containing(t_)) if acfg.node_containing(t_) is not None else t_, p_):
                et_ = empty_test(a_, ap_)
                if et_ and not et_[1] and isinstance(et_[0], ast.Name) and et_[0].id == site.get('pred_param'):
                    continue            # `if predecessors:` - nothing to link otherwise
                b_, bp_ = a_, ap_
                while isinstance(b_, ast.UnaryOp) and isinstance(b_.op, ast.Not):
                    b_, bp_ = b_.operand, not bp_
                if isinstance(b_, ast.Name) and b_.id == site.get('pred_param') and bp_:
                    continue
                names_ = {x.id for x in ast.walk(a_) if isinstance(x, ast.Name)}
                if names_ and names_ <= set(ab_) - {real_add.self_name}:
                    # a test of the builder's own parameters: read it with the arguments of the insert
                    at_ = icfg_.node_containing(model['add_call'])
                    ax_ = _subst(a_, {k: exi_.expand(v, at_) for k, v in ab_.items() if k in names_})
                    tp_ = model.get('task_param')
                    rd_ = {x.attr for x in ast.walk(ax_) if isinstance(x, ast.Attribute) and isinstance(x.value, ast.Name) and x.value.id == tp_}
                    free_ = {x.id for x in ast.walk(ax_) if isinstance(x, ast.Name)} - {tp_, 'len', 'abs', 'bool', 'max', 'min'}
                    if rd_ and not free_ and not rd_ & {'children', 'all_children'}:
                        o.refute(add, loop, a_, f"the dependency arcs of a task are added only when `{'' if ap_ else 'not '}{src(a_)[:50]}`, "
                                                f"i.e. `{'' if ap_ else 'not '}{src(ax_)[:70]}` for the inserted task: the other tasks get no "
                                                f"link from their (own or inherited) predecessors and float to time 0; every predecessor "
                                                f"binds the task whatever its {', '.join(sorted(rd_))}")
                        continue
                o.undecided(add, loop, a_, f"the dependency loop runs only under `{'' if ap_ else 'not '}{src(a_)[:70]}`")
    for c in dep_calls:
        b = bind_args(c, con)
        s = exa.expand(b.get(p_start), acfg.node_containing(c)) if b.get(p_start) is not None else None
        e = b.get(p_end)
        u = b.get(p_units)
        lv = loop.target.id if isinstance(loop.target, ast.Name) else '?'
        m = match(f"self.{links_attr}[{lv}].$side", s) if s is not None else None
        uc = facts.const_num(u) if u is not None else None
        # conditions inside the loop: every predecessor must be linked
        lhdr = acfg.node_of(loop)
        cn_ = acfg.node_containing(c)
        inner = []
        for t_, p_ in acfg.conditions(cn_):
            tn_ = acfg.node_containing(t_)
            if tn_ is not None and lhdr is not None and acfg.dominates(lhdr, tn_) and tn_ is not lhdr:
                inner += facts.split_conj(exa.expand(t_, tn_), p_)
        skipped = False
        for t_, p_ in inner:
            reads_link = any(match(f"self.{links_attr}[{lv}].$f", x) or match(f"self.{links_attr}[{lv}].$f.$g", x) for x in ast.walk(t_))
            names_ = {x.id for x in ast.walk(t_) if isinstance(x, ast.Name)} - {'self', lv, 'len', 'abs', 'bool'}
            skipped = True
            if reads_link and not names_:
                o.refute(add, c, t_, f"the dependency arc of a predecessor is added only when `{'' if p_ else 'not '}{src(t_)[:70]}`: a "
                                     f"predecessor that fails the test is not linked, so the task no longer waits for it nor for what "
                                     f"that predecessor waits for (the chain through it is cut)")
            else:
                o.undecided(add, c, t_, f"the dependency arc is added under a condition the rule cannot judge: "
                                        f"{'' if p_ else 'not '}{src(t_)[:70]}")
        if skipped:
            continue
        into_start = is_start(e, acfg.node_containing(c)) if e is not None else None
        if m and m['side'] == 'end' and into_start and uc == 0:
            o.site(add, c, f"dependency arc {src(s)} -> {src(e)} with 0 units")
        elif m and m['side'] == 'start':
            o.refute(add, c, c, "dependency arc leaves the START node of the predecessor's arc: the successor may begin before "
                                "the predecessor's work is done")
        elif m and e is not None and into_start is False:
            o.refute(add, c, c, f"dependency arc enters `{src(e)}` instead of the start node of the task's arc")
        elif s is not None and e is not None and match(f"self.{links_attr}[{lv}].$side", exa.expand(e, acfg.node_containing(c))):
            o.refute(add, c, c, "dependency arc points from the task to its predecessor (direction reversed)")
        elif m and uc is not None and uc != 0:
            o.refute(add, c, c, f"dependency arc has length {uc} instead of 0")
        else:
            o.undecided(add, c, c, "dependency arc not in the form connect(self.<links>[p].end, start, 0)")

    # ---- the two passes
    nodes_attr = model.get('nodes_attr')
    ccfg2 = cfg_of(calc)
    pass_calls = []
    for p in R.passes:
        cs = R.calls_to(calc, p)
        pass_calls.append((p, cs))
    # which pass is the forward one: by what it computes (max / incoming links / link.start), call order breaks ties
    def fwd_score(pc):
        text = src(pc[0].node)
        return (text.count('max(') - text.count('min(')) + (text.count('.' + IN) - text.count('.' + OUT)) + \
               (text.count('.start.') - text.count('.end.'))
    by_line = sorted(pass_calls, key=lambda pc: min((c.lineno for c in pc[1]), default=0))
    first = sorted(by_line, key=lambda pc: -fwd_score(pc))
    fwd, bwd = first[0][0], first[1][0]
    fn, bn = [ccfg2.node_containing(c) for c in first[0][1]], [ccfg2.node_containing(c) for c in first[1][1]]
    if fn and bn and all(_before(ccfg2, b, a) for a in fn for b in bn):
        o.refute(calc, first[1][1][0], 'pass order', f"the backward pass ({bwd.name}) runs before the forward pass ({fwd.name}): the sink's "
                                                     f"earliest time (project length) is not known when latest times are derived from it")
    elif not all(_before(ccfg2, a, b) for a in fn for b in bn):
        o.undecided(calc, calc.node, calc.name, "the two passes are not called in two consecutive loops")
        return
    ES = _pass_field(fwd)
    LF = _pass_field(bwd)
    if ES is None or LF is None or ES == LF:
        o.undecided(calc, calc.node, calc.name, f"the passes do not store one node field each (found {ES}, {LF})")
        return
    model['ES'], model['LF'] = ES, LF
    UF = model.get('units_field', 'units')
    _check_pass(ctx, R, o, fwd, 'forward', field=ES, op='max', links=IN, far='start', sign=+1, other_links=OUT, ES=ES, UF=UF)
    _check_pass(ctx, R, o, bwd, 'backward', field=LF, op='min', links=OUT, far='end', sign=-1, other_links=IN, ES=ES, UF=UF)

    # ---- orchestration in calc
    exk = Expander(prog, calc, ctx.typer, inline=False)
    node_cls = R.node_cls

    def fresh_node(name_node) -> bool:
        if not isinstance(name_node, ast.Name):
            return False
        v = exk.expand(name_node)
        return bool(match(f"{node_cls}()", v) or match(f"{node_cls}($*a)", v))

    def ctor_zero(name_node) -> bool:
        """`begin = _PNode(0)` where the node constructor copies that argument into the earliest-time field"""
        v = exk.expand(name_node)
        ninit = prog.find_method(node_cls, '__init__')
        if not (isinstance(v, ast.Call) and ninit is not None and len(v.args) + len(v.keywords) == 1):
            return False
        b_ = bind_args(v, ninit)
        for st_, tgt_, val_ in facts.attr_stores(ninit, ES):
            if isinstance(val_, ast.Name) and val_.id in b_ and facts.const_num(b_[val_.id]) == 0 and \
                    isinstance(tgt_.value, ast.Name) and tgt_.value.id == ninit.self_name:
                return True
        return False

    sink = None
    for c in R.calls_to(calc, con):
        b = bind_args(c, con)
        s, e, u = b.get(p_start), b.get(p_end), b.get(p_units)
        n = ccfg2.node_containing(c)
        fors = ccfg2.enclosing_fors(n)
        if not fors or not isinstance(fors[-1].target, ast.Name):
            o.undecided(calc, c, c, "link added outside a loop over nodes")
            continue
        lv = fors[-1].target.id
        it = exk.expand(fors[-1].iter, ccfg2.node_of(fors[-1]))
        parts = facts.comp_parts(it)
        flt = None
        if parts and isinstance(parts[1], ast.Name) and match(parts[1].id, parts[0]) and \
                match(f"self.{nodes_attr}", parts[2]) and len(parts[3]) == 1:
            et = empty_test(_inline_graph_predicates(prog, R, parts[3][0]), True)
            if et and et[1] and isinstance(et[0], ast.Attribute) and isinstance(et[0].value, ast.Name) and \
                    et[0].value.id == parts[1].id:
                flt = et[0].attr
        elif parts and isinstance(parts[1], ast.Name) and len(parts[3]) == 1 and (
                match(f"self.{model.get('links_attr')}.values()", parts[2]) or match(f"list(self.{model.get('links_attr')}.values())", parts[2])):
            # the candidates are taken from the arcs: `[w.end for w in self.<links>.values() if len(w.end.<outgoing>) == 0]`.  Every
            # registered node is the start or the end node of one arc (nodes are only made by the arc builder); an arc's start node
            # always has an outgoing link and its end node an incoming one, so (end, outgoing) / (start, incoming) lose nothing
            wv = parts[1].id
            me_ = match(f"{wv}.$side", parts[0])
            et = empty_test(_inline_graph_predicates(prog, R, parts[3][0]), True)
            makers = [f_ for f_ in prog.all_funcs() if f_.module is R.mod and f_ is not add and f_ is not R.new_node and (
                (R.new_node is not None and R.calls_to(f_, R.new_node)) or
                (f_.cls == R.cls and f_ is not calc and any(c_.kind == 'ctor' and c_.targets and c_.targets[0].cls == R.node_cls
                                                          for c_ in ctx.cg.calls_in(f_))))]
            if me_ and et and et[1] and not makers and match(f"{wv}.{me_['side']}.$a", et[0]):
                a_ = et[0].attr
                if (me_['side'], a_) in (('end', OUT), ('start', IN)):
                    flt = a_
        elif match(f"self.{nodes_attr}", it) or match(f"list(self.{nodes_attr})", it):
            # one pass over all nodes, the emptiness test as a condition inside the loop:
            # `for n in self.<nodes>: if len(n.<incoming>) == 0: connect(begin, n, 0)`
            hdr_ = ccfg2.node_of(fors[-1])
            inner_ = []
            for t_, p_ in ccfg2.conditions(n):
                tn_ = ccfg2.node_containing(t_)
                if tn_ is not None and hdr_ is not None and ccfg2.dominates(hdr_, tn_) and tn_ is not hdr_:
                    inner_ += facts.split_conj(exk.expand(t_, tn_, stop={lv}), p_)
            if len(inner_) == 1:
                et = empty_test(_inline_graph_predicates(prog, R, inner_[0][0]), inner_[0][1])
                if et and et[1] and isinstance(et[0], ast.Attribute) and isinstance(et[0].value, ast.Name) and et[0].value.id == lv:
                    flt = et[0].attr
        uc = facts.const_num(u) if u is not None else None
        if isinstance(s, ast.Name) and s.id == lv and fresh_node(e):
            # node -> sink
            sink = e
            if uc != 0:
                # the same length on every link into the sink moves the project length and takes it off again on the way back
                o.undecided(calc, c, c, f"link to the common sink has length `{src(u)}` instead of 0 (a uniform shift, not judged)")
            elif flt == OUT:
                o.site(calc, c, f"every node without outgoing links is joined to the common sink `{src(e)}` by a 0-length link")
            elif flt == IN:
                o.refute(calc, c, c, f"the common sink is attached to the nodes without INCOMING links (`{IN}` empty): chain ends "
                                     f"keep their own length as latest time")
            else:
                rel_reads = sorted({x.attr for x in ast.walk(it) if isinstance(x, ast.Attribute)
                                    and x.attr in ('successors', 'predecessors', 'all_successors', 'all_predecessors')})
                topo_reads = any(isinstance(x, ast.Attribute) and x.attr in (OUT, IN) for x in ast.walk(it))
                if rel_reads and not topo_reads:
                    o.refute(calc, c, it, f"the nodes joined to the common sink are chosen by the tasks' declared `.{rel_reads[0]}` "
                                          f"(`{src(it)[:80]}`), not by the network (`len(n.{OUT}) == 0`): a work whose successors are "
                                          f"all outside the network (removed from the WBS, another WBS) has no outgoing link and is "
                                          f"not joined to the sink either, so it takes its own earliest time as latest time and "
                                          f"looks critical whatever its length")
                else:
                    o.undecided(calc, c, c, "nodes joined to the sink are not `[n for n in self.<nodes> if len(n.<outgoing>) == 0]`")
        elif isinstance(e, ast.Name) and e.id == lv and fresh_node(s):
            # source -> node (optional: sources get 0 anyway)
            zero_set = ctor_zero(s)
            for st, tgt, val in facts.attr_stores(calc, ES):
                if isinstance(tgt.value, ast.Name) and tgt.value.id == s.id:
                    cv = facts.const_num(val)
                    if cv == 0:
                        zero_set = True
                    else:
                        # every node hangs below the common source: a positive constant shifts all times alike, a negative one is
                        # clipped by the 0 start value of the forward fold - the floats do not change either way.  Not the
                        # documented shape, but not demonstrably wrong.
                        zero_set = True
                        o.undecided(calc, st, st, f"the common source starts at `{src(val)}` instead of 0 (a uniform shift of all "
                                                  f"times as long as every chain starts at the common source)")
            # (the common source is redundant: a node without incoming links starts at the 0 of the forward fold anyway, so
            #  an unusual source is reported as not understood, never as a violation)
            if uc != 0:
                o.undecided(calc, c, c, f"link from the common source has length `{src(u)}` instead of 0 (a uniform shift, not judged)")
            elif flt == IN and zero_set:
                o.site(calc, c, f"common source `{s.id}` at 0 joined to every node without incoming links")
            elif flt == OUT:
                o.undecided(calc, c, c, f"the common source is attached to the nodes without OUTGOING links")
            elif not zero_set:
                o.undecided(calc, c, c, f"the common source `{s.id}` is given no earliest time in calc (the forward pass has to compute it)")
            else:
                o.undecided(calc, c, c, "nodes joined to the source are not `[n for n in self.<nodes> if len(n.<incoming>) == 0]`")
        else:
            o.undecided(calc, c, c, "link added in calc is neither source->node nor node->sink")
    unread_joins = [c for c in R.calls_to(calc, con) if not ccfg2.enclosing_fors(ccfg2.node_containing(c))] or \
        [t for _, t in R.self_calls(calc) if t not in (con, fwd, bwd) and R.calls_to(t, con)]
    if sink is None and (unread_joins or o.unknown):
        o.undecided(calc, calc.node, 'common sink', "no link `node -> fresh sink node` recognised in a loop of calc, but links are "
                                                    "created in a form the rule does not follow")
    elif sink is None:
        o.refute(calc, calc.node, 'common sink', "no common sink node: every chain end takes its own earliest time as latest time, so "
                                                 "the last task of every chain looks critical whatever its length")
    # pass loops: forward over all nodes and the sink, backward over all nodes
    for (p, cs), what in ((first[0], 'forward'), (first[1], 'backward')):
        covered_nodes = covered_sink = False
        odd_parts = []
        for c in cs:
            n = ccfg2.node_containing(c)
            fors = ccfg2.enclosing_fors(n)
            pa_ = _pass_node_arg(c, p)
            if not fors or not (isinstance(pa_, ast.Name) and isinstance(fors[-1].target, ast.Name)
                                and pa_.id == fors[-1].target.id):
                if pa_ is not None and sink is not None and same(pa_, sink) and not ccfg2.conditions(n):
                    covered_sink = True
                continue
            if ccfg2.conditions(n):
                o.undecided(calc, c, c, f"{what} pass is called under a condition")
                continue
            it = exk.expand(fors[-1].iter, ccfg2.node_of(fors[-1]))
            for part in _concat_parts(it):
                if match(f"self.{nodes_attr}", part):
                    covered_nodes = True
                elif isinstance(part, (ast.List, ast.Tuple)):
                    for el in part.elts:
                        if sink is not None and (same(el, sink) or same(exk.expand(el), exk.expand(sink))):
                            covered_sink = True
                else:
                    odd_parts.append(part)
        if not covered_nodes and odd_parts:
            o.undecided(calc, cs[0] if cs else calc.node, f"{what} loop", f"the {what} pass ranges over `{src(odd_parts[0])[:60]}`, which "
                                                                           f"the rule cannot relate to self.{unmangle(nodes_attr or '?')}")
        elif what == 'forward' and covered_nodes and sink is not None and not covered_sink and odd_parts:
            o.undecided(calc, cs[0], f"{what} loop", f"cannot tell whether `{src(odd_parts[0])[:60]}` brings the common sink into the "
                                                     f"forward pass")
        elif not covered_nodes and (not nodes_attr or nodes_attr.startswith('_unidentified_')):
            o.undecided(calc, cs[0] if cs else calc.node, f"{what} loop", f"the calculator's node list was not identified (see "
                                                                           f"C12.leaf-arcs): cannot tell what the {what} pass ranges over")
        elif not covered_nodes:
            o.refute(calc, cs[0] if cs else calc.node, f"{what} loop", f"the {what} pass is not run for every node of self.{unmangle(nodes_attr or '?')}")
        elif what == 'forward' and sink is not None and not covered_sink:
            o.refute(calc, cs[0], cs[0], "the forward pass is never run for the common sink: the project length (its earliest time) is "
                                         "missing when the backward pass starts from it")
        else:
            o.site(calc, cs[0], f"{what} pass over self.{unmangle(nodes_attr)}" + (" + sink" if what == 'forward' and covered_sink else ''))
    # joins happen before the passes
    join_nodes = [ccfg2.node_containing(c) for c in R.calls_to(calc, con)]
    if join_nodes and fn and not all(_before(ccfg2, j, f) for j in join_nodes for f in fn):
        o.refute(calc, first[0][1][0], 'order', "source / sink links are added after the forward pass started")

    # ---- selection, slack, result
    sel = _selection(ctx, R, model, o)
    if sel is None:
        if not o_eq.sites and not o_eq.refuted and not o_eq.unknown:
            o_eq.undecided(calc, calc.node, calc.name, "selection loop not recognised (see C12.passes)")
        return
    if not all(_before(ccfg2, b, sel['node']) for b in bn):
        o.refute(calc, sel['stmt'], 'order', "the selection reads latest times before the backward pass has run")
    lv = sel['link_var']
    want = sorted([(+1, f"{lv}.end.{LF}"), (-1, f"{lv}.start.{ES}"), (-1, f"{lv}.{model.get('units_field', 'units')}")])
    tests = []
    consts = {}
    for st_ in R.mod.tree.body:
        if isinstance(st_, ast.Assign) and len(st_.targets) == 1 and isinstance(st_.targets[0], ast.Name) \
                and facts.const_num(st_.value) is not None:
            consts[st_.targets[0].id] = st_.value
    from sa.flow import subst
    for t, p in sel['conds']:
        t = subst(t, consts) if consts else t       # module level numeric constants (EPS = 1e-9)
        tt = _tolerance_test(t, p, lv)
        if tt is not None and not any(isinstance(n, ast.Attribute) and n.attr in (ES, LF) for n in ast.walk(tt[1])):
            tt = None       # looks at the link but not at its times: not the slack test
        tests.append((t, p, tt))
    slack_tests = [x for x in tests if x[2] is not None]
    if not slack_tests:
        if sel['conds']:
            o_eq.undecided(calc, sel['stmt'], sel['stmt'], "selection condition is not a recognised test of a slack term: " +
                           ', '.join(facts.cond_texts(sel['conds'])))
            o.undecided(calc, sel['stmt'], sel['stmt'], "slack term not found in the selection condition")
        else:
            o.refute(calc, sel['stmt'], sel['stmt'], "every arc is selected: there is no zero-slack test")
            o_eq.refute(calc, sel['stmt'], sel['stmt'], "every arc is selected: there is no zero-slack test")
        return
    for t, p, tt in slack_tests:
        kind, term, msg = tt
        l = lin(term)
        if l == want:
            o.site(calc, sel['stmt'], f"slack = {lin_text(l)}")
        elif l is not None and all(_link_atom(a, lv) for _, a in l):
            o.refute(calc, sel['stmt'], term, f"slack term is `{lin_text(l)}`; expected `{lin_text(want)}` "
                                              f"(latest(end) - earliest(start) - units)")
        else:
            o.undecided(calc, sel['stmt'], term, f"tested term `{src(term)[:100]}` is not a +/- combination of link times")
        if kind == 'ok':
            o_eq.site(calc, sel['stmt'], f"tolerance test: {src(t)[:110]}")
        elif kind == 'bad':
            o_eq.refute(calc, sel['stmt'], t, msg)
        else:
            o_eq.undecided(calc, sel['stmt'], t, msg)
    others = [x for x in tests if x[2] is None]
    for t, p, _ in others:
        o.undecided(calc, sel['stmt'], t, "additional selection condition besides the slack test: " + ('' if p else 'not ') + src(t)[:80])
    # result element and order
    tasks_attr = model.get('tasks_attr')
    elt = sel['elt']
    kv = sel['key_var']
    links_attr = model.get('links_attr')
    if kv is not None and match(f"self.{tasks_attr}[{kv}]", elt):
        if sel['iter_kind'] in ('items', 'keys'):
            o.site(calc, sel['stmt'], f"selected element self.{unmangle(tasks_attr)}[{kv}] in arc-table order")
        else:
            o.undecided(calc, sel['stmt'], elt, "arc table not iterated by items()/keys")
    elif model.get('link_task_attr') and sel.get('link_var') and match(f"{sel['link_var']}.{model['link_task_attr']}", elt):
        # the arc carries its task (`link.task = task` in the arc builder)
        if sel['iter_kind'] in ('items', 'keys', 'values'):
            o.site(calc, sel['stmt'], f"selected element {src(elt)} (the task stored on the arc) in arc-table order")
        else:
            o.undecided(calc, sel['stmt'], elt, "arc table not iterated by items()/keys/values")
    elif isinstance(elt, ast.Subscript) and match(f"self.{tasks_attr}[$k]", elt):
        o.refute(calc, sel['stmt'], elt, f"the selected arc's task is looked up by `{src(elt.slice)}`, not by the arc's key")
    else:
        o.undecided(calc, sel['stmt'], elt, "selected element is not self.<tasks>[key of the arc]")
    rv = sel['ret_value']
    if match(f"_ImmutableTaskList({sel['list']})", rv) or match(sel['list'], rv) or match(f"list({sel['list']})", rv) \
            or match(f"_ImmutableTaskList(list({sel['list']}))", rv):
        o.site(calc, sel['ret'], f"returns {src(rv)} (arc order kept)")
    elif any(isinstance(n, ast.Call) and getattr(n.func, 'id', getattr(n.func, 'attr', '')) in ('sorted', 'reversed', 'set', 'sort', 'reverse')
             for n in ast.walk(rv)):
        o.refute(calc, sel['ret'], rv, f"result `{src(rv)}` is reordered / deduplicated instead of returned in arc order")
    else:
        o.undecided(calc, sel['ret'], rv, "returned value is not the selected list")


def _inline_graph_predicates(prog, R: Roles, e: ast.AST) -> ast.AST:
    """`n.is_source()` -> `len(n.backward_links) == 0`: argument-less one-expression methods (and properties) of the node / link
    class are replaced by their body, self bound to the receiver"""
    import copy

    def body_of(name: str) -> Optional[Tuple[ast.AST, str]]:
        for cls_ in (R.node_cls, R.link_cls):
            m_ = prog.find_method(cls_, name) or prog.find_getter(cls_, name)
            if m_ is None or len(m_.params) != 1:
                continue
            stmts = [s_ for s_ in m_.node.body if not (isinstance(s_, ast.Expr) and isinstance(s_.value, ast.Constant))]
            if len(stmts) == 1 and isinstance(stmts[0], ast.Return) and stmts[0].value is not None:
                return stmts[0].value, m_.params[0]
        return None

    class T(ast.NodeTransformer):
        depth = 0

        def visit_Call(self, n):
            self.generic_visit(n)
            if isinstance(n.func, ast.Attribute) and not n.args and not n.keywords and self.depth < 4:
                b = body_of(n.func.attr)
                if b and prog.find_method(R.node_cls, n.func.attr) or b and prog.find_method(R.link_cls, n.func.attr):
                    from sa.flow import subst
                    self.depth += 1
                    out = self.visit(subst(copy.deepcopy(b[0]), {b[1]: n.func.value}))
                    self.depth -= 1
                    return out
            return n
    return T().visit(copy.deepcopy(e))


def _concat_parts(e: ast.AST) -> List[ast.AST]:
    if isinstance(e, ast.BinOp) and isinstance(e.op, ast.Add):
        return _concat_parts(e.left) + _concat_parts(e.right)
    m = match("list($x)", e) or match("tuple($x)", e) or match("iter($x)", e)
    if m:
        return _concat_parts(m['x'])
    if isinstance(e, ast.Call) and not e.keywords and e.args and (
            (isinstance(e.func, ast.Name) and e.func.id == 'chain') or
            (isinstance(e.func, ast.Attribute) and e.func.attr == 'chain' and isinstance(e.func.value, ast.Name)
             and e.func.value.id == 'itertools')):
        out = []
        for a in e.args:            # itertools.chain(self.<nodes>, (end,))
            out += _concat_parts(a)
        return out
    return [e]


def _link_atom(a: str, lv: str) -> bool:
    import re
    return bool(re.fullmatch(re.escape(lv) + r"(\.(start|end))?\.\w+", a))


def _pass_field(p: Func) -> Optional[str]:
    node_p = _node_param(p)
    attrs = {tgt.attr for st, tgt, val in facts.attr_stores(p) if isinstance(tgt.value, ast.Name) and tgt.value.id == node_p}
    return next(iter(attrs)) if len(attrs) == 1 else None


def _check_pass(ctx, R, o, p: Func, what: str, field, op, links, far, sign, other_links, ES, UF='units'):
    """fold shape of one pass: node.<field> = op over node.<links> of link.<far>.<field> (+/-) link.units"""
    prog = ctx.prog
    cfg = cfg_of(p)
    node_p = _node_param(p)
    stores = [(st, val) for st, tgt, val in facts.attr_stores(p, field) if isinstance(tgt.value, ast.Name) and tgt.value.id == node_p]
    # guard clause for the node without links: `if len(node.<links>) == 0: node.<field> = D; return` next to the fold
    empty_store = None
    if len(stores) == 2:
        def _empty_cond(s_):
            for t_, pp_ in cfg.conditions(cfg.node_of(s_)):
                for a_, ap_ in facts.split_conj(t_, pp_):
                    et_ = empty_test(a_, ap_)
                    if et_ and et_[1] and match(f"{node_p}.$a", et_[0]):
                        return et_[0]
            return None
        e0, e1 = _empty_cond(stores[0][0]), _empty_cond(stores[1][0])
        if (e0 is None) != (e1 is None):
            dflt, main = (stores[0], stores[1]) if e0 is not None else (stores[1], stores[0])
            if not cfg.can_reach(cfg.node_of(dflt[0]), cfg.node_of(main[0])):
                stores, empty_store = [main], (dflt, e0 if e0 is not None else e1)
    if len(stores) != 1:
        o.undecided(p, p.node, p.name, f"{len(stores)} stores of {node_p}.{field}")
        return
    st, val = stores[0]
    try:
        fo = U.recognise_fold(ctx, p, st, val)
    except Unknown as e:
        o.undecided(p, e.node if hasattr(e.node, 'lineno') else st, e.node if isinstance(e.node, ast.AST) else st,
                    f"{what} pass: " + e.msg)
        return
    if empty_store is not None:
        (dst, dval), elist = empty_store
        if not same(elist, fo.iter) or fo.default is not None:
            o.undecided(p, dst, dst, f"{what} pass: second store of {node_p}.{field} under an emptiness test the rule cannot relate to "
                                     f"the fold over `{src(fo.iter)}`")
            return
        fo.default = Expander(prog, p, ctx.typer).expand(dval, cfg.node_of(dst))
    lv = fo.var
    bad = False
    if fo.op != op:
        o.refute(p, st, f"{fo.op} fold", f"{what} pass folds with {fo.op}() instead of {op}(): "
                                         + ("earliest time must be the LONGEST way in" if op == 'max' else
                                            "latest time must be the tightest successor bound"))
        bad = True
    if getattr(fo, 'falsy', None) is not None:
        if fo.op == 'min':
            bad = True
            o.refute(p, st, fo.falsy, f"{what} pass decides whether the running minimum is still unset by its truthiness "
                                      f"(`{src(fo.falsy)[:60]}`): a time of exactly 0 counts as 'unset' and is overwritten by the next "
                                      f"link's value, so the minimum over the links is lost for nodes at time 0 (zero-length tasks at "
                                      f"the project start get float); expected an `is None` test")
        else:
            o.undecided(p, st, fo.falsy, f"{what} pass decides whether the running maximum is still unset by its truthiness "
                                         f"(`{src(fo.falsy)[:60]}`): equivalent to an `is None` test only while no time is negative")
            return
    itx = fo.iter
    m = match(f"{node_p}.$a", itx)
    if not m:
        o.undecided(p, st, itx, f"{what} pass does not iterate a link list of its node")
        return
    if m['a'] != links:
        bad = True
        o.refute(p, st, itx, f"{what} pass iterates {node_p}.{m['a']} instead of {node_p}.{links} "
                             f"({'incoming' if what == 'forward' else 'outgoing'} links)")
    # the pass may hand back the memoised time (`return node.<field>` on every path): `self.__forward(link.start) + link.units`
    # then reads link.start.<field> right after computing it
    term = fo.term
    rets_p = [r_ for r_ in walk_no_nested(p.node) if isinstance(r_, ast.Return)]
    returns_field = bool(rets_p) and all(r_.value is not None and match(f"{node_p}.{field}", r_.value) for r_ in rets_p) and \
        isinstance(p.body[-1], ast.Return)
    rec_in_term = []
    if returns_field:
        import copy as _copy

        class _RecRead(ast.NodeTransformer):
            def visit_Call(self, n):
                self.generic_visit(n)
                fn_ = n.func
                nm_ = unmangle(fn_.attr) if isinstance(fn_, ast.Attribute) else getattr(fn_, 'id', None)
                na_ = _pass_node_arg(n, p)
                if nm_ == p.name and na_ is not None and len(n.args) == (0 if na_ is not (n.args[0] if n.args else None) else 1) \
                        and not n.keywords:
                    rec_in_term.append(na_)
                    return ast.Attribute(value=na_, attr=field, ctx=ast.Load())
                return n
        term = _RecRead().visit(_copy.deepcopy(term))
    l = lin(term)
    want = sorted([(+1, f"{lv}.{far}.{field}"), (sign, f"{lv}.{UF}")])
    if l != want:
        bad = True
        if l is not None and all(_link_atom(a, lv) for _, a in l):
            o.refute(p, st, fo.term, f"{what} pass folds `{lin_text(l)}`; expected `{lin_text(want)}`")
        else:
            o.undecided(p, st, fo.term, f"{what} pass folds `{src(fo.term)[:90]}`, not a +/- combination of link fields")
            return
    rec_read_ok = bool(rec_in_term) and all(match(f"{lv}.{far}", a_) for a_ in rec_in_term)
    # start value / sink value
    if what == 'forward':
        iv = facts.const_num(fo.init) if fo.init is not None else None
        dv = facts.const_num(fo.default) if fo.default is not None else None
        z = iv if fo.init is not None and not (isinstance(fo.init, ast.Constant) and fo.init.value is None) else dv
        if z is None and fo.init is None and fo.default is None:
            bad = True
            o.refute(p, st, st, "earliest time has no value for a node without incoming links (max of an empty sequence)")
        elif z is None:
            o.undecided(p, st, fo.init or fo.default, "start value of the earliest-time fold is not a constant")
            return
        elif z != 0:
            bad = True
            o.refute(p, st, fo.init if iv is not None else fo.default, f"earliest time of a source node is {z} instead of 0")
    else:
        init_none = fo.init is None or (isinstance(fo.init, ast.Constant) and fo.init.value is None) or U._is_inf(fo.init) == 1
        if not init_none:
            # a finite extra bound inside min(): recognised only when it is the node's own earliest time on sinks
            bad = True
            o.refute(p, st, fo.init, f"latest time is additionally bounded by `{src(fo.init)}` for every node, not only at the sink")
        d = fo.default
        if d is None:
            bad = True
            o.refute(p, st, st, "a node without outgoing links (the sink) gets no latest time: expected its own earliest time "
                                "(the project length)")
        elif match(f"{node_p}.{ES}", d):
            pass
        elif isinstance(d, ast.Attribute) or facts.const_num(d) is not None:
            bad = True
            o.refute(p, st, d, f"latest time of the sink is `{src(d)}` instead of its earliest time {node_p}.{ES} (project length)")
        else:
            o.undecided(p, st, d, "sink value of the latest-time fold not understood")
            return
    if not bad:
        o.site(p, st, f"{node_p}.{field} = {op} over {node_p}.{links} of {lin_text(want)}" +
               (", 0 at sources" if what == 'forward' else f", {node_p}.{ES} at the sink"))
    # recursion before the read
    recs = R.calls_to(p, p)
    ex = Expander(prog, p, ctx.typer, inline=False)
    sn = cfg.node_of(st)
    verdicts = []
    for c in recs:
        rn = cfg.node_containing(c)
        fors = cfg.enclosing_fors(rn)
        if not fors or not isinstance(fors[-1].target, ast.Name) or _pass_node_arg(c, p) is None:
            verdicts.append(('unknown', c, "recursive call outside a loop over the node's links"))
            continue
        loop2 = fors[-1]
        v2 = loop2.target.id
        h2 = cfg.node_of(loop2)
        if not same(ex.expand(loop2.iter, h2), fo.iter):
            verdicts.append(('wrongloop', c, f"recursion ranges over `{src(loop2.iter)}`, the fold over `{src(fo.iter)}`"))
            continue
        arg = ex.expand(_pass_node_arg(c, p), rn, stop={v2})       # `prev = link.start; self.__forward(prev)`
        if not match(f"{v2}.{far}", arg):
            verdicts.append(('wrongarg', c, f"recurses on `{src(arg)}` instead of {v2}.{far}"))
            continue
        cs = [(t, pp) for t, pp in cfg.conditions(rn) if cfg.node_containing(t) is not None and
              cfg.dominates(h2, cfg.node_containing(t)) and cfg.node_containing(t) is not h2]
        weird = [(t, pp) for t, pp in cs if not ((lambda nt: nt and nt[1] and match(
            f"{v2}.{far}.{field}", ex.expand(nt[0], cfg.node_containing(t), stop={v2})))(none_test(t, pp)))]
        if weird:
            verdicts.append(('unknown', c, "recursion under an unrecognised condition"))
        elif loop2 is fo.loop:
            if all(_before_in_iteration(cfg, rn, d, h2) for d in fo.defs):
                verdicts.append(('ok', c, ''))
            else:
                verdicts.append(('late', c, ''))
        elif _before(cfg, h2, sn) and all(_before(cfg, h2, d) for d in fo.defs):
            verdicts.append(('ok', c, ''))
        else:
            verdicts.append(('late', c, ''))
    oks = [v for v in verdicts if v[0] == 'ok']
    if rec_read_ok:
        o.site(p, st, f"{lv}.{far}.{field} is read as the value the recursive call {p.name}({lv}.{far}) returns")
    elif oks:
        o.site(p, oks[0][1], f"{lv}.{far} is computed (recursively) before its {field} is read")
    elif any(v[0] == 'late' for v in verdicts):
        c = next(v[1] for v in verdicts if v[0] == 'late')
        o.refute(p, c, c, f"{what} pass reads {lv}.{far}.{field} before the recursive call that computes it")
    elif any(v[0] in ('wrongarg', 'wrongloop') for v in verdicts):
        v = next(v for v in verdicts if v[0] in ('wrongarg', 'wrongloop'))
        o.refute(p, v[1], v[1], f"{what} pass {v[2]}: the time it reads ({lv}.{far}.{field}) may not be computed yet")
    elif verdicts:
        o.undecided(p, verdicts[0][1], verdicts[0][1], f"{what} pass: {verdicts[0][2]}")
    elif what == 'backward':
        o.refute(p, p.node, p.name, f"backward pass does not compute {lv}.{far} before reading its latest time (nodes are visited in "
                                    f"creation order, successors come later)")
    else:
        o.undecided(p, p.node, p.name, "forward pass without recursion relies on the node creation order being topological")


def _selection(ctx, R: Roles, model, o) -> Optional[dict]:
    """the loop (or comprehension) of calc that picks arcs of the arc table into the returned list (end_date None mode)"""
    prog = ctx.prog
    calc = R.calc
    cfg, fl = cfg_of(calc), flow_of(calc)
    links_attr, end_p = model.get('links_attr'), model.get('end_param')
    end_attr = None
    for st, tgt, val in facts.attr_stores(R.init):
        if isinstance(val, ast.Name) and val.id == end_p and isinstance(tgt.value, ast.Name) and tgt.value.id == R.init.self_name:
            end_attr = tgt.attr
    rets = []
    for r in [n for n in walk_no_nested(calc.node) if isinstance(n, ast.Return) and n.value is not None]:
        rn = cfg.node_of(r)
        if rn is None or not cfg.is_reachable(rn):
            continue
        dead = False
        for t, p in cfg.conditions(rn):
            nt = none_test(t, p)
            if nt and end_attr and match(f"self.{end_attr}", nt[0]):
                if not nt[1]:
                    dead = True      # branch taken only when an end date was given
            elif nt is None or not end_attr:
                pass
        if not dead:
            rets.append(r)
    # `if <cond>: return _ImmutableTaskList([])` next to the real selection: an empty answer for some networks
    if len(rets) > 1:
        keep = []
        exr = Expander(prog, calc, ctx.typer, inline=False)
        for r in rets:
            v = exr.expand(r.value, cfg.node_of(r))
            if match("_ImmutableTaskList([])", v) or match("[]", v) or match("_ImmutableTaskList(list())", v) or match("_ImmutableTaskList(())", v):
                conds_ = []
                for t, p in cfg.conditions(cfg.node_of(r)):
                    tn = cfg.node_containing(t)
                    conds_ += facts.split_conj(exr.expand(t, tn) if tn is not None else t, p)
                tables = {model.get('links_attr'), model.get('tasks_attr'), model.get('nodes_attr')}
                harmless = conds_ and all((lambda et: et and et[1] and isinstance(et[0], ast.Attribute) and et[0].attr in tables)(
                    empty_test(t, p)) for t, p in conds_)
                reads_times = [t for t, p in conds_ if any(isinstance(x, ast.Attribute) and x.attr in (
                    'start_units', 'end_units', model.get('ES'), model.get('LF'), model.get('units_field', 'units')) for x in ast.walk(t))]
                if harmless:
                    continue                # no arcs at all: the selection would be empty anyway
                if reads_times:
                    o.refute(calc, r, r, f"calc returns an empty list when `{src(reads_times[0])[:60]}`: the times of the network say "
                                         f"nothing about whether there are leaves - a WBS whose leaves all have zero remaining work "
                                         f"(project length 0) still has a critical path, the result is never empty when the WBS has a leaf")
                    continue
            keep.append(r)
        rets = keep
    if len(rets) != 1:
        o.undecided(calc, calc.node, calc.name, f"{len(rets)} return statements can be reached with end_date None (expected one)")
        return None
    ret = rets[0]
    rn = cfg.node_of(ret)
    names = [n for n in ast.walk(ret.value) if isinstance(n, ast.Name) and fl.reaching(n.id, rn)]
    names = [n for n in names if n.id != calc.self_name]
    if len(names) != 1:
        o.undecided(calc, ret, ret, "returned expression does not mention exactly one local list")
        return None
    L = names[0].id
    res = dict(list=L, ret=ret, ret_value=ret.value)

    def live(defs):
        """definitions that can take effect when no end date was given"""
        out = []
        for d in defs:
            dead_ = False
            if d.node is not None and end_attr:
                for t, p in cfg.conditions(d.node):
                    nt = none_test(t, p)
                    if nt and match(f"self.{end_attr}", nt[0]) and not nt[1]:
                        dead_ = True
            if not dead_:
                out.append(d)
        return out

    ds = live(fl.reaching(L, rn))
    # `res = selected` (the list is built under another name, e.g. by a spliced helper): follow the alias
    for _ in range(4):
        if len(ds) == 1 and ds[0].kind == 'assign' and isinstance(ds[0].value, ast.Name) and ds[0].node is not None \
                and ds[0].value.id != calc.self_name and fl.reaching(ds[0].value.id, ds[0].node):
            L, rn = ds[0].value.id, ds[0].node
            ds = live(fl.reaching(L, rn))
        else:
            break
    ex = Expander(prog, calc, ctx.typer)

    def table_iter(it):
        m = match(f"self.{links_attr}.items()", it)
        if m:
            return 'items'
        if match(f"self.{links_attr}", it) or match(f"self.{links_attr}.keys()", it):
            return 'keys'
        if match(f"self.{links_attr}.values()", it):
            return 'values'
        return None

    if len(ds) == 1 and ds[0].kind == 'assign' and isinstance(ds[0].value, ast.ListComp):
        comp = ds[0].value
        parts = facts.comp_parts(comp)
        if not parts:
            o.undecided(calc, ds[0].stmt, comp, "selection comprehension with several generators")
            return None
        elt, tgt, it, ifs = parts
        kind = table_iter(ex.expand(it, ds[0].node))
        if kind is None:
            o.undecided(calc, ds[0].stmt, comp, "selection does not range over the arc table")
            return None
        kv, lv = _kv(tgt, kind)
        conds = []
        for c in ifs:
            conds += facts.split_conj(ex.expand(c, ds[0].node), True)
        res.update(stmt=ds[0].stmt, node=ds[0].node, elt=elt, conds=conds, key_var=kv, link_var=lv, iter_kind=kind)
        if lv is None:
            lv = f"self.{links_attr}[{kv}]"
            res['link_var'] = lv
        return res
    if not (len(ds) == 1 and ds[0].kind == 'assign' and isinstance(ds[0].value, ast.List) and not ds[0].value.elts):
        # `res += [..]` forms create aug definitions
        base_defs = [d for d in ds if d.kind == 'assign']
        if not (all(d.kind in ('assign', 'aug') for d in ds) and len(base_defs) <= 1):
            o.undecided(calc, ret, ret, f"`{L}` is not built by one comprehension or one append loop")
            return None
    apps = []
    for n in walk_no_nested(calc.node):
        cn = None
        el = None
        if isinstance(n, ast.Call) and isinstance(n.func, ast.Attribute) and isinstance(n.func.value, ast.Name) \
                and n.func.value.id == L and n.func.attr == 'append' and n.args:
            cn, el = cfg.node_containing(n), n.args[0]
        elif isinstance(n, ast.AugAssign) and isinstance(n.target, ast.Name) and n.target.id == L and \
                isinstance(n.value, ast.List) and len(n.value.elts) == 1:
            cn, el = cfg.node_of(n), n.value.elts[0]
        if cn is None or not cfg.is_reachable(cn) or not cfg.can_reach(cn, rn):
            continue
        # must be the same version of L: the definition of L reaching the append must also reach the return
        dd = {id(d) for d in fl.reaching(L, cn)} | {id(d) for d in fl.reaching_after(L, cn)}
        if not dd & ({id(d) for d in ds} | {id(x) for d in ds if d.node is not None for x in fl.reaching(L, d.node)}):
            continue
        apps.append((n, cn, el))
    if len(apps) != 1:
        o.undecided(calc, ret, ret, f"{len(apps)} statements add elements to the returned list `{L}` (expected one)")
        return None
    n, cn, el = apps[0]
    fors = cfg.enclosing_fors(cn)
    if len(fors) != 1:
        o.undecided(calc, n, n, "selection append is not inside exactly one loop")
        return None
    fo = fors[0]
    kind = table_iter(ex.expand(fo.iter, cfg.node_of(fo)))
    if kind is None:
        o.undecided(calc, fo, fo.iter, "selection loop does not range over the arc table")
        return None
    kv, lv = _kv(fo.target, kind)
    stmt = cfg.nodes[cn.id].ast
    conds = []
    hdr = cfg.node_of(fo)
    for t, p in cfg.conditions(cn):
        tn = cfg.node_containing(t)
        if tn is None or not cfg.dominates(hdr, tn):
            # conditions outside the loop: only the end_date mode split is tolerated
            nt = none_test(t, p)
            if nt and end_attr and match(f"self.{end_attr}", nt[0]) and nt[1]:
                continue
            et_ = empty_test(t, p)
            if et_ and not et_[1] and isinstance(et_[0], ast.Attribute) and et_[0].attr in (
                    model.get('links_attr'), model.get('tasks_attr'), model.get('nodes_attr')):
                continue            # `if not self.<links>: return <empty>` in front: nothing to select from otherwise
            o.undecided(calc, n, t, "selection loop runs under a condition")
            return None
        conds += facts.split_conj(ex.expand(t, tn), p)
    elx = ex.expand(el, cn, stop={kv} if kv else set())
    if lv is None:
        lv = None
    res.update(stmt=stmt, node=cn, elt=elx, conds=conds, key_var=kv, link_var=lv or f"self.{links_attr}[{kv}]", iter_kind=kind)
    return res


def _is_number(t: str) -> bool:
    try:
        float(t)
        return True
    except ValueError:
        return False


def _strip_const(e: ast.AST) -> Optional[ast.AST]:
    """e without its additive numeric constant (x + c -> x)"""
    if isinstance(e, ast.BinOp) and isinstance(e.op, ast.Add):
        if facts.const_num(e.right) is not None:
            return e.left
        if facts.const_num(e.left) is not None:
            return e.right
    return None


def _kv(tgt, kind):
    if kind == 'items' and isinstance(tgt, ast.Tuple) and len(tgt.elts) == 2 and all(isinstance(e, ast.Name) for e in tgt.elts):
        return tgt.elts[0].id, tgt.elts[1].id
    if kind == 'keys' and isinstance(tgt, ast.Name):
        return tgt.id, None
    if kind == 'values' and isinstance(tgt, ast.Name):
        return None, tgt.id
    return None, None


def _tolerance_test(t: ast.AST, pol: bool, lv: str):
    """classify a selection condition: ('ok'|'bad'|'unknown', slack term, message) or None when it does not look at link times"""
    def mentions_link(e):
        return any(isinstance(n, ast.Attribute) and src(n).startswith(lv + '.') for n in ast.walk(e)) if e is not None else False

    if not mentions_link(t):
        return None
    # math.isclose(a, b, ...)
    if isinstance(t, ast.Call) and getattr(t.func, 'attr', getattr(t.func, 'id', None)) == 'isclose' and len(t.args) >= 2:
        a, b = t.args[0], t.args[1]
        kws = {k.arg: k.value for k in t.keywords}
        if len(t.args) > 2:
            kws.setdefault('rel_tol', t.args[2])
        if len(t.args) > 3:
            kws.setdefault('abs_tol', t.args[3])
        term = ast.BinOp(left=a, op=ast.Sub(), right=b)
        if not pol:
            return 'bad', term, "arcs are selected when the slack is NOT close to 0"
        at = kws.get('abs_tol')
        if at is None or U.positive(at) is False:
            return 'bad', term, (f"`{src(t)[:100]}` has no positive absolute tolerance: a relative tolerance is measured against the "
                                 f"compared values themselves, so against 0 (source arcs, zero-length tasks, r vs 0) it is an exact "
                                 f"comparison and rounding noise like 0.1+0.2-0.3 drops critical tasks")
        if U.positive(at):
            c = facts.const_num(at)
            if c is not None and c > 1e-3:
                return 'unknown', term, f"absolute tolerance {c} is large enough to select tasks with real float"
            return 'ok', term, ''
        return 'unknown', term, f"cannot show that abs_tol `{src(at)}` is positive"
    while isinstance(t, ast.UnaryOp) and isinstance(t.op, ast.Not):
        t, pol = t.operand, not pol
    if isinstance(t, ast.Compare) and len(t.ops) == 2 and all(isinstance(x, (ast.LtE, ast.Lt)) for x in t.ops) and pol:
        lo, mid, hi = t.left, t.comparators[0], t.comparators[1]
        if mentions_link(mid) and U.positive(hi) and isinstance(lo, ast.UnaryOp) and U.positive(lo.operand):
            return 'ok', mid, ''
        return 'unknown', mid, "chained comparison not understood"
    if isinstance(t, ast.Compare) and len(t.ops) == 1:
        l, r = t.left, t.comparators[0]
        op = U._CMP.get(type(t.ops[0]))
        if op is None:
            return 'unknown', t, "comparison operator not understood"
        if not pol:
            op = {'>': '<=', '>=': '<', '<': '>=', '<=': '>', '==': '!=', '!=': '=='}[op]
        if op in ('==', '!='):
            term = ast.BinOp(left=l, op=ast.Sub(), right=r)
            rl = match("round($x, $n)", l) or match("round($x)", l)
            if rl and facts.const_num(r) == 0 and op == '==':
                if 'n' in rl and (facts.const_num(rl['n']) or 0) >= 3:
                    return 'ok', rl['x'], ''
                return 'unknown', rl['x'], "rounding to few digits: tolerance too coarse to judge"
            if op == '!=':
                return 'bad', term, f"arcs are selected when `{src(t)}`: the test is inverted and exact"
            return 'bad', term, (f"exact float comparison `{src(t)[:80]}`: sums of fractional estimates are inexact "
                                 f"(0.1 + 0.2 != 0.3), so critical tasks are dropped and the result can be empty")
        # orient: X < eps / X <= eps
        if op in ('>', '>='):
            l, r, op = r, l, {'>': '<', '>=': '<='}[op]
        # now l (op) r with op in < <=
        m = match("abs($x)", l)
        x = m['x'] if m else l
        pr = U.positive(r)
        if mentions_link(x) and (pr or not mentions_link(r)):
            if pr:
                c = facts.const_num(r)
                if c is not None and c > 1e-3:
                    return 'unknown', x, f"tolerance {c} is large enough to select tasks with real float"
                return 'ok', x, ''
            if pr is False:
                return 'bad', x, (f"`{src(t)[:80]}` compares the float slack with {src(r)} exactly (no tolerance): rounding noise "
                                  f"above 0 drops critical tasks")
            return 'unknown', x, f"cannot show that the tolerance `{src(r)}` is positive"
        if mentions_link(r) and not mentions_link(l):
            return 'bad', r, f"`{src(t)[:80]}` selects arcs whose slack is ABOVE the bound"
        if mentions_link(l) and mentions_link(r):
            # a <= b + eps : a positive constant on the right is the tolerance
            term = ast.BinOp(left=l, op=ast.Sub(), right=r)
            parts = lin(term) or []
            consts = [(s_, a_) for s_, a_ in parts if _is_number(a_)]
            if not m and len(consts) == 1 and consts[0][0] < 0 and float(consts[0][1]) > 0:
                rest = _strip_const(r)
                if rest is not None:
                    if float(consts[0][1]) > 1e-3:
                        return 'unknown', ast.BinOp(left=l, op=ast.Sub(), right=rest), "tolerance is large"
                    return 'ok', ast.BinOp(left=l, op=ast.Sub(), right=rest), ''
            return 'bad', term, f"`{src(t)[:80]}` compares two float times without tolerance"
        return 'unknown', t, "comparison not understood"
    if isinstance(t, (ast.Name, ast.Attribute, ast.BinOp)):
        return 'bad', t, (f"selection by truthiness of the float slack (`{'' if pol else 'not '}{src(t)[:70]}`) is an exact comparison "
                          f"with 0")
    return 'unknown', t, "selection test not understood"


# ---------------------------------------------------------------------------------------------------------------------
# C12.pure
OWN_TASK_CLASSES = ('Task', 'WBS', '_ImmutableTaskList', '_TaskList', '_ChildrenList', '_PredecessorsList', '_SuccessorsList')


def _setattr_stores(ctx, R: Roles, eff, o, funcs):
    prog = ctx.prog
    seen = set()
    for f in funcs:
        if f.qual in seen or not isinstance(f.node, (ast.FunctionDef, ast.AsyncFunctionDef)):
            continue
        seen.add(f.qual)
        for n in walk_no_nested(f.node):
            tgts, key = [], None
            if isinstance(n, ast.Assign):
                tgts = [t for t in n.targets if isinstance(t, ast.Attribute)]
            elif isinstance(n, (ast.AugAssign, ast.AnnAssign)) and isinstance(n.target, ast.Attribute) and \
                    (not isinstance(n, ast.AnnAssign) or n.value is not None):
                tgts = [n.target]
            for t in tgts:
                rt = base(ctx.typer.expr_type(t.value, f))
                if not rt or rt not in prog.classes:
                    continue
                sa_ = prog.find_method(rt, '__setattr__')
                if sa_ is None or sa_.cls == f.cls and isinstance(t.value, ast.Name) and t.value.id == f.self_name:
                    continue
                key = unmangle(t.attr)
                key_p = sa_.params[1] if len(sa_.params) > 1 else None
                # which writes of the __setattr__ body can happen for this attribute name?
                for w in eff.direct_writes(sa_):
                    recv = getattr(w, 'recv', None)
                    if isinstance(w.node, ast.Call) and isinstance(w.node.func, ast.Attribute) and isinstance(w.node.func.value, ast.Call) \
                            and getattr(w.node.func.value.func, 'id', None) == 'super':
                        continue                    # the plain store on the object itself
                    taken = True
                    for ct, cp in facts.node_conditions(prog, sa_, w.node, ctx.typer, expand=False):
                        for a_, ap_ in facts.split_conj(ct, cp):
                            m_ = match(f"{key_p}.startswith($c)", a_) if key_p else None
                            if m_ and isinstance(m_['c'], ast.Constant) and isinstance(m_['c'].value, str):
                                if key.startswith(m_['c'].value) != ap_:
                                    taken = False
                    if not taken:
                        continue
                    o.refute(f, n, t, f"`{src(n)[:60]}` stores an attribute on a {rt}, whose __setattr__ does not keep `{key}` on the list "
                                      f"object but hands it on (`{src(w.node)[:50]}`): every task in the returned list - tasks of the WBS, "
                                      f"not objects of this call - gets a `{key}` attribute")
                    break


def _acc_param_fresh(ctx, eff, reach, f: Func, w) -> bool:
    """accumulator passing (`__collect_leaves(task, leaves)`): the builtin container mutated by `w` is a parameter of f, and every
    call of f hands in a container the caller allocated itself - or, in a recursive call, the very parameter"""
    if not isinstance(w.root, str) or not w.root.startswith('param:'):
        return False
    p = w.root[6:]
    if p == f.self_name or p not in f.params:
        return False
    callers = {g.qual: g for g in list(reach) + [g for g in ctx.prog.all_funcs() if g.module is f.module]}
    sites = 0
    for g in callers.values():
        for ci in ctx.cg.calls_in(g):
            if f not in [t for t in ci.targets if t is not None]:
                continue
            bind = eff._arg_binding(ci, f, g)
            e = bind.get(p)
            if e is None:
                return False
            if g is f and isinstance(e, ast.Name) and e.id == p:
                continue
            try:
                if eff.container_root(e, g) != 'fresh':
                    return False
            except Exception:       # noqa: BLE001
                return False
            sites += 1
    return sites > 0


def _pure(ctx, R: Roles, o):
    prog = ctx.prog
    eff = Effects(prog, ctx.typer, ctx.cg)
    entry = R.entry
    reach = eff.reach([entry])
    ws = eff.writes_star(entry)

    def process_global_only(fld, funcs) -> Optional[str]:
        """name of the module-level container when every write of `fld` with an unknown root among funcs goes to a module global
        (a process-wide cache such as a table of compiled patterns): that is state of the process, not of the WBS"""
        names = set()
        found = False
        for f_ in funcs:
            for w in eff.direct_writes(f_):
                if w.field != fld or w.root != 'unknown':
                    continue
                found = True
                b_ = w.recv
                while isinstance(b_, (ast.Subscript, ast.Attribute)):
                    b_ = b_.value
                if not (isinstance(b_, ast.Name) and not flow_of(f_).defs_of(b_.id) and b_.id not in f_.params and any(
                        isinstance(st_, (ast.Assign, ast.AnnAssign)) and any(isinstance(t_, ast.Name) and t_.id == b_.id for t_ in (
                            st_.targets if isinstance(st_, ast.Assign) else [st_.target])) for st_ in f_.module.tree.body)):
                    return None
                names.add(f"{f_.module.name}.{b_.id}")
        return ', '.join(sorted(names)) if found and names else None

    for key in sorted(ws):
        fld, root = key
        if root == 'unknown':
            g_ = process_global_only(fld, reach)
            if g_:
                o.site(entry, entry.node, f"write to the module-level table {g_} (process state, not the WBS)")
                continue
            # the provenance of the receiver was lost (e.g. an argument built from a comprehension variable); its class still says
            # whose state it is: network objects are made by the calculator, task / list classes are the WBS
            dws_ = [w for f_ in reach for w in eff.direct_writes(f_) if w.field == fld and w.root not in ('fresh',)]
            types_ = {base(w.recv_type) if w.recv_type else None for w in dws_}
            if dws_ and types_ <= {R.cls, R.node_cls, R.link_cls}:
                o.site(entry, entry.node, f"`{unmangle(fld)}` is written on {', '.join(sorted(types_))} objects only (made by the calculator)")
                continue
            if dws_ and not (types_ & set(OWN_TASK_CLASSES)):
                chain = eff.explain(entry, key)
                o.undecided(entry, entry.node, f"{unmangle(fld)}@{root}",
                            f"WBS.critical_path may write `{unmangle(fld)}` of an object whose origin and class the analysis lost: "
                            + ' -> '.join(chain[-2:]))
                continue
        chain = eff.explain(entry, key)
        o.refute(entry, entry.node, f"{unmangle(fld)}@{root}",
                 f"WBS.critical_path may write `{unmangle(fld)}` of an object reachable from {root} (not allocated by the call): "
                 + ' -> '.join(chain[-3:]))
    if not ws:
        o.site(entry, entry.node, f"writes*(WBS.critical_path) = {{}} over {len(reach)} reachable functions")
    # an attribute store on an object whose class overrides __setattr__ is a call of that method (sa.effects records a raw
    # write to the - freshly allocated - receiver and drops it): `path.length = x` on an _ImmutableTaskList reaches the tasks
    _setattr_stores(ctx, R, eff, o, [entry] + [f for f in reach if f.module is R.mod])
    # the result is computed from the current graph on every call: every return is <new calculator>.calc(), unconditionally
    ecfg = cfg_of(entry)
    exe = Expander(prog, entry, ctx.typer, inline=False)
    for r in [n for n in walk_no_nested(entry.node) if isinstance(n, ast.Return)]:
        rn = ecfg.node_of(r)
        if rn is None or not ecfg.is_reachable(rn):
            continue
        v = exe.expand(r.value, rn) if r.value is not None else None

        def stored(e):
            return e is not None and any(
                isinstance(n, ast.Attribute) and isinstance(n.value, ast.Name) and n.value.id == entry.self_name
                and not prog.find_getter(entry.cls, unmangle(n.attr)) and not prog.find_method(entry.cls, unmangle(n.attr))
                for n in ast.walk(e))
        if stored(r.value):
            # (the flow engine would expand a field assigned on one branch only; the field read itself is the finding)
            o.refute(entry, r, r.value, f"WBS.critical_path returns stored state `{src(r.value)}` instead of a result computed from the "
                                        f"current graph: a cached path goes stale when links, hierarchy or amounts change")
            continue
        fresh_calc = isinstance(v, ast.Call) and isinstance(v.func, ast.Attribute) and isinstance(v.func.value, ast.Call) \
            and getattr(v.func.value.func, 'id', None) == R.cls and unmangle(v.func.attr) == R.calc.name

        def tasks_empty(t_, p_):
            """True / False when the condition says self.tasks (or self.roots) is / is not empty, None otherwise"""
            et_ = empty_test(exe.expand(t_, ecfg.node_containing(t_)) if ecfg.node_containing(t_) is not None else t_, p_)
            if et_ and (match(f"{entry.self_name}.tasks", et_[0]) or match(f"{entry.self_name}.roots", et_[0])):
                return et_[1]
            return None
        conds_r = ecfg.conditions(rn)
        # `if not self.tasks: return _ImmutableTaskList([])` - an empty WBS has an empty critical path
        if conds_r and all(tasks_empty(t_, p_) is not None for t_, p_ in conds_r):
            if fresh_calc and all(tasks_empty(t_, p_) is False for t_, p_ in conds_r):
                o.site(entry, r, f"returns {src(v)[:80]} for every WBS that has a task")
                continue
            if v is not None and any(tasks_empty(t_, p_) for t_, p_ in conds_r) and (
                    match("_ImmutableTaskList([])", v) or match("[]", v) or match("_ImmutableTaskList(list())", v)):
                o.site(entry, r, "empty result for a WBS without tasks")
                continue
        if fresh_calc and not ecfg.conditions(rn):
            o.site(entry, r, f"returns {src(v)[:80]}: computed from the current graph on every call")
        elif fresh_calc:
            o.undecided(entry, r, r, "the calculation is returned only under a condition")
        elif stored(v):
            o.refute(entry, r, r.value, f"WBS.critical_path returns stored state `{src(v)[:80]}` instead of a result computed from the "
                                        f"current graph: a cached path goes stale when links, hierarchy or amounts change")
        else:
            o.undecided(entry, r, r, "returned value is not <new calculator>.calc()")
    own = [f for f in reach if f.module is R.mod]
    own_classes = {R.cls, R.node_cls, R.link_cls}
    # a memoising decorator keeps results (keyed by task objects) beyond the call: the next critical_path() sees the old answer
    for f in own:
        for d_ in getattr(f.node, 'decorator_list', []):
            dn = d_.func if isinstance(d_, ast.Call) else d_
            name_ = dn.attr if isinstance(dn, ast.Attribute) else getattr(dn, 'id', '')
            if name_ in ('lru_cache', 'cache', 'cached_property', 'memoize', 'memoized'):
                o.refute(f, d_, d_, f"{f.name} is memoised with @{src(d_)}: its result (computed from the task graph - children, "
                                    f"predecessors, amounts) is kept across calls of WBS.critical_path and goes stale when the WBS "
                                    f"changes; the cached value is also one shared mutable object")
    for f in own:
        dws = eff.direct_writes(f)
        bad = 0
        for w in dws:
            rt = base(w.recv_type)
            if w.root == 'fresh' or rt in own_classes:
                continue
            if w.field == '<container>' and _acc_param_fresh(ctx, eff, reach, f, w):
                o.site(f, w.node, f"`{src(w.node)[:50]}` fills a list that every caller inside the calculator allocates itself")
                continue
            bad += 1
            if rt in OWN_TASK_CLASSES:
                o.refute(f, w.node, w.node, f"direct write to {rt} state (`{unmangle(str(w.field))}`) inside the calculator")
            else:
                o.undecided(f, w.node, w.node, f"write to `{unmangle(str(w.field))}` of an object of unknown type (origin: {w.root})")
        # calls that leave the module and mutate their receiver / arguments: the calculator object itself is allocated by
        # the call, but the tasks it holds are not - so every such edge is judged here, not at the entry
        for ci in ctx.cg.calls_in(f):
            if ci.kind == 'ctor':
                continue
            for callee in ci.targets:
                if callee is None or callee.module is R.mod:
                    continue
                ws2 = eff.writes_star(callee)
                if not ws2:
                    continue
                bind = eff._arg_binding(ci, callee, f)
                for fld, root in sorted(ws2):
                    r2 = eff._translate(root, ci, callee, f, bind)
                    if r2 == 'fresh':
                        continue
                    if r2 == 'unknown' and process_global_only(fld, eff.reach([callee])):
                        continue
                    bad += 1
                    msg = (f"`{src(ci.node)[:70]}` reaches {callee.qual}, which writes `{unmangle(str(fld))}` of an object not allocated "
                           f"by the calculator ({r2})")
                    if ci.resolved and (callee.cls in OWN_TASK_CLASSES):
                        o.refute(f, ci.node, ci.node, msg)
                    else:
                        o.undecided(f, ci.node, ci.node, msg + ("" if ci.resolved else " [receiver type unknown: by-name edge]"))
                    break
        if not bad and dws:
            o.site(f, f.node, f"{len(dws)} direct writes, all to calculator / node / link objects; no mutating call leaves the module")
    # unresolved calls inside the calculator could hide a mutator
    for f in own:
        for ci in ctx.cg.calls_in(f):
            if ci.kind in ('call', 'setter') and not ci.resolved and ci.targets:
                muts = [t for t in ci.targets if eff.writes_star(t)]
                if muts and ci.kind == 'setter':
                    o.undecided(f, ci.node, ci.node, f"store through `{src(ci.node)}` on a receiver of unknown type may hit "
                                                     f"{muts[0].qual}")
