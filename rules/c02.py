"""C02 - forward schedules never start a task before its prerequisites are finished.   (DESIGN.md section 5, C02)

Decided: structural necessary conditions in ForwardScheduler.__forward_pass / calc / the availability search / the
fill loop's first day; a summary used as a prerequisite ends at the max over ALL its children (roll-up rule shared with C07).
Not decided: that the capacity arithmetic yields the right day (numeric).
Round 4: the prerequisite collection is read through sched.PassShape.owners_of / collection_sources (own + ancestors in one
comprehension or one loop over `[task] + all_parents`, extend(), lambda-parameterised helpers left by inlining); operands the
Expander cannot resolve give UNDECIDED, REFUTED is kept for operands that were resolved and are wrong or missing.
Round 11: calc / __prepare_tasks may write nothing but None to a task start before the pass (a seeded start is read as fixed by
the user); a recursion over the prerequisites that skips children of the task's own parent is refuted (sched_dep); a summary end
taken from the child with the latest end DAY is accepted here (this property is day-granular; the time of day is C07's).
"""
from __future__ import annotations

import ast

from sa import facts
from sa.flow import Expander, flow_of
from sa.model import src, walk_no_nested
from sa.pat import match, same
from . import sched, sched_dep
from .sched import FWD, PassShape

VALIDATORS_FWD = ['schedule._validate_graph_isolation', 'schedule._check_loops',
                  'schedule.ForwardScheduler.__check_no_end_dates_in_future']


def check(ctx):
    S = FWD
    ps = PassShape(ctx, S)
    ctx.assume("custom IResource implementations return a date >= the requested one from get_nearest_availability_date")
    ctx.assume("term expansion assumes no aliasing writes between a definition and its use inside one function")
    box = {}

    o = ctx.ob('prerequisites_inherited', 'R8',
               "the bound term of a task ranges over the predecessors of the task itself and of all its ancestors, unfiltered "
               "(a task reached through a dependency link computes its inherited constraints itself)")
    ctx.guarded(o, lambda o: box.__setitem__('pt', sched_dep.prerequisite_collection(ctx, o, ps)))
    pt = box.get('pt')

    o = ctx.ob('predecessors_scheduled_first', 'R5',
               "every prerequisite is handed to the recursive pass before its end is read, and the collection is complete "
               "before that recursion starts")
    ctx.guarded(o, lambda o: sched_dep.recursion_order(ctx, o, ps, pt))

    o = ctx.ob('leaf_start_lower_bounds', 'R8',
               "an unfixed leaf start is search(max(prerequisite ends, bound handed down, now(), min_start or epoch))")
    ctx.guarded(o, lambda o: sched_dep.leaf_bound(ctx, o, ps, pt))

    o = ctx.ob('bound_handed_to_children', 'R8', "children are scheduled with a bound that includes the parent's bound")
    ctx.guarded(o, lambda o: sched_dep.handdown(ctx, o, ps, pt))

    o = ctx.ob('roots_and_preflight', 'R5',
               "calc validates its input (isolation, loops, future ends) before cloning, and schedules every root with the "
               "project start, which is the constructor's start", floor=5)
    ctx.guarded(o, lambda o: sched_dep.roots_and_preflight(ctx, o, S, VALIDATORS_FWD))

    o = ctx.ob('milestone_placement', 'R8',
               "a milestone gets start = end = latest end among own and inherited prerequisites (or the bound), estimate = spent = 0", floor=4)
    ctx.guarded(o, lambda o: sched_dep.milestone_placement(ctx, o, ps, pt))

    o = ctx.ob('summary_prerequisite_stands_for_all_its_leaves', 'R8',
               "a summary task used as a prerequisite stands for its leaf descendants: its end is the max of the ends of ALL its "
               "children (None filter only), taken after the children were scheduled - shared roll-up rule with C07", floor=1)

    def summary_end(o):
        from .c07 import rollup
        rollup(ctx, _DayGranular(o, ps), ps, attrs=('end',))
    ctx.guarded(o, summary_end)

    o = ctx.ob('summary_end_is_derived_not_recorded', 'R5',
               "the end of a summary that bounds its successors is the one rolled up from its leaves: dates recorded on summary tasks "
               "are reset for every task of the clone before the pass - shared clearing rule with C07", floor=1)

    def cleared_(o):
        from .c07 import cleared
        cleared(ctx, o, S, fields=('start', 'end'))
    ctx.guarded(o, cleared_)

    o = ctx.ob('no_start_recorded_before_the_pass', 'R8',
               "calc and its preparation step write nothing but None to the start of a task before the pass: a start computed there "
               "is taken by the pass for one fixed by the user and is no longer bounded by prerequisites, project start and calendar", floor=1)
    ctx.guarded(o, lambda o: no_seeded_start(ctx, o, S))

    o = ctx.ob('search_never_moves_back', 'R8',
               "the availability search starts at the resource's nearest availability on/after the requested date and steps "
               "exactly +1 day; the result is midnight(day) + fraction")
    ctx.guarded(o, lambda o: sched_dep.search_monotone(ctx, o, S, exact=False))

    o = ctx.ob('outside_prerequisites_survive_clone', 'R9',
               "the scheduler works on wbs.clone(): predecessors outside the WBS (including detached tasks) must stay linked in the clone, "
               "otherwise the task is scheduled without them - shared clone rule with C10")

    def clone_links(o):
        from .clone_common import clone_provenance
        # the shared clone rule reports every unfaithfulness of the copy; C02 only depends on the links and the hierarchy of
        # the copy, not on the order of siblings
        clone_provenance(ctx, _Only(o, drop=("the order of siblings", "(getter all_children)", "(getter all_parents)", "WBS attributes not copied")))
    ctx.guarded(o, clone_links)

    o = ctx.ob('clone_keeps_min_start_and_dates', 'R9',
               "the scheduler works on clones: Task.clone must carry every data field (min_start, fixed dates, estimate, spent) to the copy, "
               "otherwise the bounds of this property are computed from lost values - shared rule with C10")

    def faithful(o):
        from .clone_common import clone_provenance
        # C02's bounds read min_start and the fixed dates of the copy: lost estimate / spent values are C04's and C10's matter,
        # a deep copy of a date is an equal date
        clone_provenance(ctx, _Only(o, drop=("__estimate", "__spent", "deepcopy()")), ('fields',))
    ctx.guarded(o, faithful)

    # the schedulers start their search at IResource.get_nearest_availability_date: its shape is C17's obligation, reused here
    from . import c17 as _c17
    _c17._search(ctx)

    o = ctx.ob('no_reservation_before_start_or_today', 'R8',
               "the fill loop is started at max(task.start, now()) and its first day is midnight of that date", floor=2)
    ctx.guarded(o, lambda o: fill_start(ctx, o, ps))


class _Only:
    """view of an obligation that forwards everything except refutations whose construct / message shows that they concern an
    aspect of the shared clone rule this property does not depend on (those become matched sites: the clause was evaluated)"""

    def __init__(self, o, drop):
        self._o, self._drop = o, drop

    def __getattr__(self, name):
        return getattr(self._o, name)

    def refute(self, func, node, construct, msg):
        text = (construct if isinstance(construct, str) else src(construct)) + ' ' + msg
        if any(d in text for d in self._drop):
            self._o.site(func, node, "clone clause outside this property's scope (reported by C10 / C06)")
            return
        self._o.refute(func, node, construct, msg)


class _DayGranular:
    """view of the roll-up obligation for this property, which speaks of calendar days only: a summary end taken from the child with
    the latest end DAY (`max(<all dated children>, key=lambda t: t.end.date()).end`) lies on the day of max(children ends) - the
    time of day it may lose is C07's matter, not a start on an earlier day"""

    def __init__(self, o, ps):
        self._o, self._ps = o, ps

    def __getattr__(self, name):
        return getattr(self._o, name)

    def refute(self, func, node, construct, msg):
        ps = self._ps
        st = construct if isinstance(construct, ast.Assign) else node
        if func is ps.f and isinstance(st, ast.Assign) and len(st.targets) == 1 and match(f"{ps.task}.end", st.targets[0]):
            m = match("max($seq, key=$k).end", st.value)
            k = m['k'] if m else None
            if m and isinstance(k, ast.Lambda) and len(k.args.args) == 1 and match(f"{k.args.args[0].arg}.end.date()", k.body):
                cn = ps.cfg.node_of(st)
                seq = m['seq']
                if isinstance(seq, ast.Name) and cn is not None:
                    d = ps.fl.unique_def(seq.id, cn)
                    if d is not None and d.kind == 'assign' and d.value is not None and not ps._mutated_in_place(seq.id):
                        seq = d.value
                parts = facts.comp_parts(seq)
                if parts and isinstance(parts[1], ast.Name) and isinstance(parts[0], ast.Name) and parts[0].id == parts[1].id and \
                        match(f"{ps.task}.children", sched.strip_seq_copy(ps.ex.expand(parts[2], cn) if cn is not None else parts[2])) and \
                        all(match(f"{parts[1].id}.end is not None", c) for c in parts[3]):
                    self._o.site(func, node, "summary end = end of the child with the latest end day: the day of max(children ends)")
                    return
        self._o.refute(func, node, construct, msg)


def no_seeded_start(ctx, o, S):
    prog = ctx.prog
    calc = prog.func(S['calc'])
    prep = prog.funcs.get(S['prepare'])
    for f in [calc] + ([prep] if prep is not None else []):
        sts = facts.attr_stores(f, 'start')
        if not sts:
            o.site(f, f.node, f"{f.name} writes no task start")
            continue
        ex = Expander(prog, f, ctx.typer)
        cfg = flow_of(f).cfg
        for st, tgt, val in sts:
            cn = cfg.node_of(st)
            v = ex.expand(val, cn) if (val is not None and cn is not None and not isinstance(st, ast.AugAssign)) else val
            if isinstance(v, ast.Constant) and v.value is None and not isinstance(st, ast.AugAssign):
                o.site(f, st, f"{src(tgt)} = None")
            elif v is not None and same(v, tgt) and not isinstance(st, ast.AugAssign):
                o.site(f, st, f"{src(tgt)} keeps its value")
            elif v is not None and any(sched_dep._is_now(x) or (isinstance(x, ast.Attribute) and x.attr in ('min_start', 'end')) or
                                       (isinstance(x, ast.Call) and isinstance(x.func, ast.Name) and x.func.id in ('max', 'min', 'datetime'))
                                       for x in ast.walk(v)):
                o.refute(f, st, st, f"`{src(st)[:80]}` records a computed start on a task before the pass runs: the pass treats a start that is "
                                    f"not None as fixed by the user, so the prerequisites of the task and of its ancestors, the project start "
                                    f"and the resource calendar no longer bound it")
            else:
                o.undecided(f, st, st, f"`{src(st)[:80]}` writes a task start before the pass; the rule cannot tell whether the value is None")


def fill_start(ctx, o, ps: PassShape):
    S = ps.S
    prog = ctx.prog
    fill = prog.func(S['fill'])
    calls = [c for c in facts.calls_named(ps.f, fill.name)]
    if not calls:
        o.refute(ps.f, ps.f.node, fill.name, "the pass never books the remaining work")
        return
    for c in calls:
        if len(c.args) < 5:
            o.undecided(ps.f, c, c, "unexpected argument list of the fill call")
            continue
        st = ps.ex.expand(c.args[2], ps.cfg.node_containing(c))
        args = facts.flatten_lattice(st, 'max')
        has_start = args is not None and any(match(f"{ps.task}.start", a) for a in args)
        has_now = args is not None and any(sched_dep._is_now(a) for a in args)
        if has_start and has_now:
            o.site(ps.f, c, f"fill starts at {src(st)}")
        elif isinstance(st, ast.Name) or (args is not None and sched_dep._opaque(args, ps, None)):
            o.undecided(ps.f, c, c.args[2], f"work is booked from `{src(st)[:80]}`, which could not be resolved to a max() of known terms")
        else:
            o.refute(ps.f, c, c.args[2], f"work is booked from `{src(st)[:80]}`; expected max(task.start, now()): days before the "
                                         f"start or before today could be booked")
    first = first_day_offset(ctx, fill, S)
    if first is None:
        o.undecided(fill, fill.node, 'first day', "cannot determine the first day of the fill loop")
    elif first[0] == 'not-midnight':
        o.refute(fill, first[1], first[1], "the day cursor of the fill loop starts at the raw start date, not at its midnight: "
                                           "dates no longer encode the booked share of the day")
    elif first[0] != 0:
        o.refute(fill, first[1], first[1], f"the first day examined by the fill loop is midnight(start) {first[0]:+g} day(s)")
    else:
        o.site(fill, first[1], "first day = midnight(start_date)")


def first_day_offset(ctx, fill, S):
    """offset (in days, relative to midnight(start_date)) of the day variable at the first reservation.
    Returns (offset, statement) | ('not-midnight', statement) | None (shape not understood).  When the cursor is moved by
    conditional steps before the loop, several first days are possible: the one that deviates from the expected first day
    (forward: midnight(start), backward: midnight(end) - 1 day) is reported together with the step that produces it."""
    prog = ctx.prog
    rc = sched.reserve_calls(ctx, fill)
    if len(rc) > 1:
        return None
    if rc:
        c = rc[0]
        dvar = c.args[1] if len(c.args) > 1 else None
    else:
        # the one-day booking step delegated to a helper: the helper's single reservation books the day it is handed
        c = dvar = None
        exf = Expander(prog, fill, ctx.typer, inline=False)
        for call in [x for x in walk_no_nested(fill.node) if isinstance(x, ast.Call)]:
            g = exf._single_target(call)
            if g is None or g is fill or isinstance(g.node, ast.Lambda):
                continue
            grc = sched.reserve_calls(ctx, g)
            if len(grc) == 1 and len(grc[0].args) > 1 and isinstance(grc[0].args[1], ast.Name) and grc[0].args[1].id in g.params and \
                    not [d for d in flow_of(g).defs_of(grc[0].args[1].id) if d.kind != 'param']:
                if c is not None:
                    return None
                ba = facts.bound_args(call, g)
                names = [x for x in g.params if x != g.self_name] if g.kind in ('method', 'getter', 'setter') else list(g.params)
                if grc[0].args[1].id in names and names.index(grc[0].args[1].id) < len(ba):
                    c, dvar = call, ba[names.index(grc[0].args[1].id)]
        if c is None:
            return None
    if not isinstance(dvar, ast.Name):
        return None
    fl = flow_of(fill)
    cfg = fl.cfg
    loop = sched.while_loop_of(fill, c)
    if loop is None or len(fill.params) < 4:
        return None
    hdr = cfg.node_of(loop)
    cn = cfg.node_containing(c)
    if hdr is None or cn is None:
        return None
    start_p = fill.params[3]
    want = 0 if S['dir'] == 1 else -1
    ex = Expander(prog, fill, ctx.typer)

    def in_loop(node):
        return node is not None and cfg.can_reach(hdr, node) and cfg.can_reach(node, hdr)

    def delta(stmt):
        if isinstance(stmt, ast.Assign):
            v = stmt.value
            return facts.day_delta(v.right) * (1 if isinstance(v.op, ast.Add) else -1)
        k = facts.day_delta(stmt.value)
        if k is None or not isinstance(stmt.op, (ast.Add, ast.Sub)):
            return None
        return -k if isinstance(stmt.op, ast.Sub) else k

    offsets = {}            # possible offset before the loop -> statement that produced it
    pre_steps, loop_steps = [], []
    class _Step:           # `d = d +/- k days` written as a plain assignment: the same as `d += ..`
        def __init__(self, d, k):
            self.node, self.k = d.node, k
            self.stmt = d.stmt

    def assign_step(d):
        v = d.value
        if d.kind == 'assign' and isinstance(v, ast.BinOp) and isinstance(v.op, (ast.Add, ast.Sub)) and isinstance(v.left, ast.Name) and \
                v.left.id == dvar.id and facts.day_delta(v.right) is not None:
            return facts.day_delta(v.right) * (1 if isinstance(v.op, ast.Add) else -1)
        return None

    # the cursor recomputed in every iteration from a step counter: `date = <midnight(start) + k0 days> + timedelta(days=n)` with
    # `n` a counter that starts at a constant and is increased by exactly 1 per iteration  (the n-th visited day)
    for d in fl.defs_of(dvar.id):
        if d.kind == 'assign' and in_loop(d.node) and isinstance(d.value, ast.BinOp) and isinstance(d.value.op, (ast.Add, ast.Sub)):
            sign = 1 if isinstance(d.value.op, ast.Add) else -1
            tm = match("timedelta(days=$n)", d.value.right) or match("timedelta($n)", d.value.right)
            if tm and isinstance(tm['n'], ast.Name):
                cnt = tm['n'].id
                cds = fl.defs_of(cnt)
                inits = [x for x in cds if x.kind == 'assign' and not in_loop(x.node)]
                steps = [x for x in cds if x not in inits]
                bx = ex.expand(d.value.left, d.node, stop={start_p})
                k0, base = 0, bx
                while isinstance(base, ast.BinOp) and isinstance(base.op, (ast.Add, ast.Sub)) and facts.day_delta(base.right) is not None:
                    k0 += facts.day_delta(base.right) * (1 if isinstance(base.op, ast.Add) else -1)
                    base = base.left
                mid = facts.is_midnight_of(base)
                others = [x for x in fl.defs_of(dvar.id) if x is not d]
                if len(inits) == 1 and facts.const_num(inits[0].value) is not None and len(steps) == 1 and steps[0].kind == 'aug' and \
                        isinstance(steps[0].stmt.op, ast.Add) and facts.const_num(steps[0].stmt.value) == 1 and in_loop(steps[0].node) and \
                        mid is not None and isinstance(mid, ast.Name) and mid.id == start_p and cfg.dominates(d.node, cn) and \
                        all(x.kind == 'assign' and not in_loop(x.node) for x in others):
                    n_first = facts.const_num(inits[0].value) + (1 if cfg.dominates(steps[0].node, d.node) else 0)
                    off = k0 + sign * n_first
                    if sign != S['dir']:
                        return None
                    return off, d.stmt
                return None
    for d in fl.defs_of(dvar.id):
        if assign_step(d) is not None:
            (loop_steps if in_loop(d.node) else pre_steps).append(_Step(d, assign_step(d)))
        elif d.kind == 'assign' and not in_loop(d.node):
            v = ex.expand(d.value, d.node, stop={start_p})
            k = 0
            base = v
            if isinstance(v, ast.BinOp) and isinstance(v.op, (ast.Add, ast.Sub)) and facts.day_delta(v.right) is not None:
                k = facts.day_delta(v.right) * (1 if isinstance(v.op, ast.Add) else -1)
                base = v.left
            mid = facts.is_midnight_of(base)
            if mid is None and isinstance(base, ast.Name) and base.id == start_p:
                return 'not-midnight', d.stmt
            if mid is None or not (isinstance(mid, ast.Name) and mid.id == start_p):
                return None
            offsets.setdefault(k, d.stmt)
        elif d.kind == 'aug':
            (loop_steps if in_loop(d.node) else pre_steps).append(d)
        else:
            return None
    if not offsets or len(loop_steps) != 1:
        return None
    for d in pre_steps:
        k = delta(d.stmt)
        if k is None or not cfg.can_reach(d.node, hdr):
            return None
        if cfg.dominates(d.node, hdr):
            offsets = {o_ + k: d.stmt for o_, st_ in offsets.items()}
        else:
            offsets.update({o_ + k: d.stmt for o_ in list(offsets) if o_ + k not in offsets})
    st = loop_steps[0]
    k = delta(st.stmt)
    if k is None:
        return None
    if cfg.dominates(st.node, cn):       # step executed before the reservation in the same iteration
        offsets = {o_ + k: st_ for o_, st_ in offsets.items()}
    bad = [o_ for o_ in sorted(offsets) if o_ != want]
    pick = bad[0] if bad else want
    return pick, offsets[pick]
