"""C09 - backward schedules meet deadline and dependencies, as late as capacity allows.   (DESIGN.md section 5, C09)

Mirror of C02/C08 under the direction map (+1 <-> -1, max <-> min, predecessors <-> successors, end <-> start) plus the
backward encoding formulas and forward/backward agreement on the ledger selector.  Numeric late-packing is not decided.
"""
from __future__ import annotations

import ast

from sa import facts
from sa.flow import Expander, flow_of
from sa.model import src, walk_no_nested
from sa.pat import match, same
from . import sched, sched_dep, sched_fill
from .sched import BWD, PassShape

VALIDATORS_BWD = ['schedule._validate_graph_isolation', 'schedule._check_loops']


def check(ctx):
    S = BWD
    ps = PassShape(ctx, S)
    ctx.assume("custom IResource implementations return a date <= the requested one from get_nearest_availability_date(.., -1)")
    ctx.assume("term expansion assumes no aliasing writes between a definition and its use inside one function")
    box = {}

    o = ctx.ob('successors_inherited', 'R8',
               "the deadline term of a task ranges over the successors of the task itself and of all its ancestors, unfiltered")
    ctx.guarded(o, lambda o: box.__setitem__('pt', sched_dep.prerequisite_collection(ctx, o, ps)))
    pt = box.get('pt')

    o = ctx.ob('successors_scheduled_first', 'R5',
               "every (own or inherited) successor is handed to the recursive pass before its start is read, and the "
               "collection is complete before that recursion starts")
    ctx.guarded(o, lambda o: sched_dep.recursion_order(ctx, o, ps, pt))

    o = ctx.ob('leaf_end_upper_bounds', 'R8',
               "an unfixed leaf end is search(min(successor starts, bound handed down)) + 1 day")
    ctx.guarded(o, lambda o: sched_dep.leaf_bound(ctx, o, ps, pt))

    o = ctx.ob('bound_handed_to_children', 'R8', "children are scheduled with a bound that includes the parent's bound")
    ctx.guarded(o, lambda o: sched_dep.handdown(ctx, o, ps, pt))

    o = ctx.ob('roots_and_preflight', 'R5',
               "calc validates its input (isolation, loops) before cloning and schedules every root with the project end, "
               "which is the constructor's end", floor=4)
    ctx.guarded(o, lambda o: sched_dep.roots_and_preflight(ctx, o, S, VALIDATORS_BWD))

    o = ctx.ob('milestone_placement', 'R8',
               "a milestone gets start = end = earliest start among own and inherited successors (or the bound), estimate = spent = 0", floor=4)
    ctx.guarded(o, lambda o: sched_dep.milestone_placement(ctx, o, ps, pt))

    o = ctx.ob('search_moves_only_back', 'R8',
               "the availability search starts at nearest availability before the bound minus one day and steps exactly -1 day; "
               "the result is midnight(day) - fraction")
    ctx.guarded(o, lambda o: sched_dep.search_monotone(ctx, o, S))

    # the schedulers start their search at IResource.get_nearest_availability_date: its shape is C17's obligation, reused here
    from . import c17 as _c17
    _c17._search(ctx)

    o = ctx.ob('fill_from_deadline', 'R8',
               "the backward fill starts at min(task.end, bound) and its first booked day is the day before midnight of that date", floor=2)
    ctx.guarded(o, lambda o: fill_start(ctx, o, ps))

    o = ctx.ob('linked_tasks_get_project_bound', 'R8',
               "successors reached through a dependency link are scheduled with the project end as bound (not with the bound of "
               "the visiting task, which would pull unrelated tasks earlier than capacity requires)")
    ctx.guarded(o, lambda o: sched_fill.jump_bound(ctx, o, ps, pt))

    o = ctx.ob('first_fit_and_greedy', 'R8',
               "the search returns at the first day with free > 0; the fill books min(remaining, free) on every day it visits")
    ctx.guarded(o, lambda o: sched_fill.first_fit_and_greedy(ctx, o, S))

    o = ctx.ob('date_encoding', 'R8',
               "end = midnight(d) + 1 day - 1 day * RESV(d)/CAP(d) (share booked before the task); start = midnight(first) + 1 day - "
               "1 day * RESV'(first)/CAP(first) with RESV' read after the loop, same resource/day/selector", floor=2)
    ctx.guarded(o, lambda o: sched_fill.encoding(ctx, o, ps))

    o = ctx.ob('selector_everywhere', 'R11',
               "every ledger query of the backward scheduler uses the selector 'all tasks when balancing, own task otherwise' "
               "(agreement with the forward scheduler and between search, fill and the post-loop fraction)", floor=3)
    ctx.guarded(o, lambda o: sched_fill.selectors(ctx, o, S))


def fill_start(ctx, o, ps: PassShape):
    from .c02 import first_day_offset
    S = ps.S
    prog = ctx.prog
    fill = prog.func(S['fill'])
    calls = [c for c in facts.calls_named(ps.f, fill.name)]
    if not calls:
        o.refute(ps.f, ps.f.node, fill.name, "the pass never books the remaining work")
        return
    for c in calls:
        if len(c.args) < 5:
            o.undecided(ps.f, c, c, "unexpected argument list of the fill call")
            continue
        st = ps.ex.expand(c.args[2], ps.cfg.node_containing(c))
        args = facts.flatten_lattice(st, 'min')
        has_end = args is not None and any(match(f"{ps.task}.end", a) for a in args)
        has_bound = args is not None and any(isinstance(a, ast.Name) and a.id == ps.bound for a in args)
        if has_end and has_bound:
            o.site(ps.f, c, f"fill starts at {src(st)}")
        else:
            o.refute(ps.f, c, c.args[2], f"work is booked back from `{src(st)[:80]}`; expected min(task.end, bound)")
    first = first_day_offset(ctx, fill, S)
    if first is None:
        o.undecided(fill, fill.node, 'first day', "cannot determine the first day of the fill loop")
    elif first[0] == 'not-midnight':
        o.refute(fill, first[1], first[1], "the day cursor of the backward fill starts at the raw end date, not at its midnight: "
                                           "the start no longer encodes the booked share of its first work day")
    elif first[0] != -1:
        o.refute(fill, first[1], first[1], f"the first day examined by the backward fill is midnight(end) {first[0]:+g} day(s); expected -1")
    else:
        o.site(fill, first[1], "first day = midnight(end) - 1 day")
