"""C09 - backward schedules meet deadline and dependencies, as late as capacity allows.   (DESIGN.md section 5, C09)

Mirror of C02/C08 under the direction map (+1 <-> -1, max <-> min, predecessors <-> successors, end <-> start) plus the
backward encoding formulas and forward/backward agreement on the ledger selector.  Numeric late-packing is not decided.
"""
from __future__ import annotations

import ast

from sa import facts
from sa.flow import Expander, flow_of
from sa.model import src, walk_no_nested
from sa.pat import match, same
from . import sched, sched_dep, sched_fill
from .sched import BWD, PassShape

VALIDATORS_BWD = ['schedule._validate_graph_isolation', 'schedule._check_loops']


def check(ctx):
    S = BWD
    ps = PassShape(ctx, S)
    ctx.assume("custom IResource implementations return a date <= the requested one from get_nearest_availability_date(.., -1)")
    ctx.assume("term expansion assumes no aliasing writes between a definition and its use inside one function")
    box = {}

    o = ctx.ob('successors_inherited', 'R8',
               "the deadline term of a task ranges over the successors of the task itself and of all its ancestors, unfiltered")
    ctx.guarded(o, lambda o: box.__setitem__('pt', sched_dep.prerequisite_collection(ctx, o, ps)))
    pt = box.get('pt')

    o = ctx.ob('every_ancestor_contributes', 'R8',
               "the scan of the ancestors adds the successors of EVERY ancestor: no early exit from the loop, no condition on the "
               "ancestor other than 'it has successors'")
    ctx.guarded(o, lambda o: inherited_complete(ctx, o, ps, pt))

    o = ctx.ob('successors_scheduled_first', 'R5',
               "every (own or inherited) successor is handed to the recursive pass before its start is read, and the "
               "collection is complete before that recursion starts")
    ctx.guarded(o, lambda o: sched_dep.recursion_order(ctx, o, ps, pt))

    o = ctx.ob('leaf_end_upper_bounds', 'R8',
               "an unfixed leaf end is search(min(successor starts, bound handed down)) + 1 day")
    ctx.guarded(o, lambda o: sched_dep.leaf_bound(ctx, o, ps, pt))

    o = ctx.ob('bound_handed_to_children', 'R8', "children are scheduled with a bound that includes the parent's bound")
    ctx.guarded(o, lambda o: sched_dep.handdown(ctx, o, ps, pt))

    o = ctx.ob('summary_dates_cover_all_children', 'R8',
               "a summary's start/end (which carry the inherited dependencies of its children) are taken over ALL children: the "
               "child collection of the roll-up is not filtered by anything but `<date> is not None`")
    ctx.guarded(o, lambda o: summary_covers_children(ctx, o, ps))

    o = ctx.ob('roots_and_preflight', 'R5',
               "calc validates its input (isolation, loops) before cloning and schedules every root with the project end, "
               "which is the constructor's end", floor=4)
    ctx.guarded(o, lambda o: sched_dep.roots_and_preflight(ctx, o, S, VALIDATORS_BWD))

    o = ctx.ob('milestone_placement', 'R8',
               "a milestone gets start = end = earliest start among own and inherited successors (or the bound), estimate = spent = 0", floor=4)
    ctx.guarded(o, lambda o: sched_dep.milestone_placement(ctx, o, ps, pt))

    o = ctx.ob('search_moves_only_back', 'R8',
               "the availability search starts at nearest availability before the bound minus one day and steps exactly -1 day; "
               "the result is midnight(day) - fraction")
    ctx.guarded(o, lambda o: sched_dep.search_monotone(ctx, o, S))

    from .c08 import search_from_release
    o = ctx.ob('search_examines_every_day', 'R8',
               "the day the backward search examines first depends only on the bound and the resource's calendar, not on remembered "
               "state kept on the ledger or the scheduler", floor=1)
    ctx.guarded(o, lambda o: search_from_release(ctx, o, S))

    # the schedulers start their search at IResource.get_nearest_availability_date: its shape is C17's obligation, reused here
    from . import c17 as _c17
    _c17._search(ctx)
    # which exception type an exhausted search raises is C14's clause, not a tightness / late-packing matter
    for ob_ in ctx.obligations:
        if ob_.id.endswith('.search'):
            ob_.refuted = [f_ for f_ in ob_.refuted if 'expected RuntimeError' not in f_.msg]

    o = ctx.ob('fill_from_deadline', 'R8',
               "the backward fill starts at min(task.end, bound) and its first booked day is the day before midnight of that date", floor=2)
    ctx.guarded(o, lambda o: fill_start(ctx, o, ps))

    o = ctx.ob('linked_tasks_get_project_bound', 'R8',
               "successors reached through a dependency link are scheduled with the project end as bound (not with the bound of "
               "the visiting task, which would pull unrelated tasks earlier than capacity requires)")
    ctx.guarded(o, lambda o: sched_fill.jump_bound(ctx, o, ps, pt))

    o = ctx.ob('first_fit_and_greedy', 'R8',
               "the search returns at the first day with free > 0; the fill books min(remaining, free) on every day it visits")
    ctx.guarded(o, lambda o: sched_fill.first_fit_and_greedy(ctx, o, S))

    o = ctx.ob('date_encoding', 'R8',
               "end = midnight(d) + 1 day - 1 day * RESV(d)/CAP(d) (share booked before the task); start = midnight(first) + 1 day - "
               "1 day * RESV'(first)/CAP(first) with RESV' read after the loop, same resource/day/selector", floor=2)
    ctx.guarded(o, lambda o: sched_fill.encoding(ctx, o, ps))

    # the capacities the late-packing is measured against come from the calendars through Resource.get_available_units: it must
    # answer for the day asked, statelessly (C17's obligations, reused as in C08); and the ledger must answer per calendar day
    _c17._leaf_semantics(ctx)
    _c17._none_zero(ctx)
    from .c08 import rounded_capacity_is_not_decided
    rounded_capacity_is_not_decided(ctx)
    from .c03 import ledger_shape
    o = ctx.ob('ledger_day_key', 'R10',
               "ledger rows are stored under midnight(day) and every query is computed from the rows with that key (an index by a "
               "part of the date makes free days look booked: work days are skipped)", floor=2)
    ctx.guarded(o, lambda o: ledger_shape(ctx, o))

    o = ctx.ob('ledger_is_fresh', 'R9',
               "every calc() starts from an empty ledger: the ledger's row list is allocated per ledger object (no shared mutable "
               "default), and calc hands a ledger constructed by this call to the pass", floor=2)
    ctx.guarded(o, lambda o: sched_fill.ledger_fresh(ctx, o, S))

    from .c03 import resource_table
    o = ctx.ob('resource_of_its_own', 'R5',
               "every resource name gets a Resource object of its own (table keyed by name, a fresh default Resource per undeclared "
               "name): capacity is measured per resource, not against one shared default object", floor=2)
    ctx.guarded(o, lambda o: resource_table(ctx, o, (S,), check_result=False))   # which resources the result lists is C03's clause

    o = ctx.ob('selector_everywhere', 'R11',
               "every ledger query of the backward scheduler uses the selector 'all tasks when balancing, own task otherwise' "
               "(agreement with the forward scheduler and between search, fill and the post-loop fraction)", floor=3)
    ctx.guarded(o, lambda o: sched_fill.selectors(ctx, o, S))


def fill_start(ctx, o, ps: PassShape):
    from .c02 import first_day_offset
    S = ps.S
    prog = ctx.prog
    fill = prog.func(S['fill'])
    calls = [c for c in facts.calls_named(ps.f, fill.name)]
    if not calls:
        o.refute(ps.f, ps.f.node, fill.name, "the pass never books the remaining work")
        return
    for c in calls:
        if len(c.args) < 5:
            o.undecided(ps.f, c, c, "unexpected argument list of the fill call")
            continue
        st = ps.ex.expand(c.args[2], ps.cfg.node_containing(c))
        args = facts.flatten_lattice(st, 'min')
        has_end = args is not None and any(match(f"{ps.task}.end", a) for a in args)
        has_bound = args is not None and any(isinstance(a, ast.Name) and a.id == ps.bound for a in args)
        if has_end and has_bound:
            o.site(ps.f, c, f"fill starts at {src(st)}")
        elif sched_fill._unresolved(ps.f, st):
            o.undecided(ps.f, c, c.args[2], f"work is booked back from `{src(st)[:80]}`, which contains a term the rule cannot resolve")
        else:
            o.refute(ps.f, c, c.args[2], f"work is booked back from `{src(st)[:80]}`; expected min(task.end, bound)")
    first = first_day_offset(ctx, fill, S)
    if first is None:
        o.undecided(fill, fill.node, 'first day', "cannot determine the first day of the fill loop")
    elif first[0] == 'not-midnight':
        o.refute(fill, first[1], first[1], "the day cursor of the backward fill starts at the raw end date, not at its midnight: "
                                           "the start no longer encodes the booked share of its first work day")
    elif first[0] != -1:
        o.refute(fill, first[1], first[1], f"the first day examined by the backward fill is midnight(end) {first[0]:+g} day(s); expected -1")
    else:
        o.site(fill, first[1], "first day = midnight(end) - 1 day")


def inherited_complete(ctx, o, ps: PassShape, pt):
    """the loop over the ancestors that grows the successor collection visits every ancestor and adds unconditionally
    (a guard `if parent.successors:` is harmless).  A `break` after the first ancestor that has successors drops the
    successors of all farther ancestors."""
    closure = [x for x in walk_no_nested(ps.f.node) if isinstance(x, ast.Attribute) and x.attr == 'all_' + ps.rel]
    if closure:
        o.refute(ps.f, closure[0], closure[0], f"the tasks that bound a task are collected from `{src(closure[0])}` (the transitive closure of the links), not from "
                                               f"its direct {ps.rel}: the due date also follows indirect {ps.rel} (e.g. one with a fixed early start), so the "
                                               f"task is placed earlier than its direct successors and capacity allow")
        return
    if pt is None or not pt.get('sources'):
        o.undecided(ps.f, ps.f.node, 'ancestors', "successor collection not recognised")
        return
    task, rel = ps.task, ps.rel
    seen = 0
    for d in pt['sources']['defs']:
        if isinstance(d, ast.AST):
            node, stmt = ps.cfg.node_containing(d), d
        else:
            node, stmt = d.node, d.stmt
        if node is None:
            continue
        for fo in ps.cfg.enclosing_fors(node):
            it = ps.ex.expand(fo.iter, ps.cfg.node_of(fo))
            for _ in range(2):
                m = match("list($x)", it) or match("tuple($x)", it) or match("[$v for $v in $x]", it)
                if m:
                    it = m['x']
            if not match(f"{task}.all_parents", it) or not isinstance(fo.target, ast.Name):
                continue
            seen += 1
            var = fo.target.id

            def harmless(t, pol):
                e = sched.is_emptiness(t, pol)
                if e is None and isinstance(t, ast.Attribute):
                    e = (t, not pol)
                return e is not None and not e[1] and match(f"{var}.{rel}", e[0]) is not None

            def inside(t):
                return any(x is t for st in fo.body for x in ast.walk(st))
            conds = [(t, pol) for t, pol in ps.cfg.conditions(node) if inside(t)]
            extra = [(t, pol) for t, pol in conds if not harmless(t, pol)]
            exits = [x for x in walk_no_nested(fo) if isinstance(x, (ast.Break, ast.Return))]
            inner = [x for x in walk_no_nested(fo) if isinstance(x, (ast.For, ast.While)) and x is not fo]
            exits = [x for x in exits if not any(y is x for lp in inner for y in ast.walk(lp)) or isinstance(x, ast.Return)]
            if exits:
                x = exits[0]
                xc = [(t, pol) for t, pol in ps.cfg.conditions(ps.cfg.node_of(x)) if inside(t)]
                if xc and all(harmless(t, pol) for t, pol in xc):
                    o.refute(ps.f, x, fo, f"the scan of the ancestors stops (`{src(x)}`) at the nearest ancestor that has {rel}: the {rel} declared "
                                          f"on farther ancestors are neither scheduled first nor part of the deadline of the task")
                elif not xc:
                    o.refute(ps.f, x, fo, f"the scan of the ancestors leaves the loop unconditionally after the first ancestor (`{src(x)}`): "
                                          f"{rel} of farther ancestors are not inherited")
                else:
                    o.undecided(ps.f, x, x, "the loop over the ancestors can end early under " + ', '.join(facts.cond_texts(xc))[:100])
                continue
            if extra:
                o.undecided(ps.f, stmt, stmt, f"the {rel} of an ancestor are added only under " + ', '.join(facts.cond_texts(extra))[:100])
                continue
            o.site(ps.f, stmt, f"every ancestor's {rel} are added" + (" (guard: it has some)" if conds else ""))
    if seen == 0:
        # no statement loop over the ancestors (e.g. one nested comprehension): completeness is decided by successors_inherited
        o.site(ps.f, pt['stmt'], "ancestors' successors collected without an explicit loop")


def _strip_seq(e):
    for _ in range(3):
        m = match("reversed($x)", e) or match("list($x)", e) or match("tuple($x)", e) or match("$x[::-1]", e)
        if not m:
            break
        e = m['x']
    return e


def summary_covers_children(ctx, o, ps: PassShape):
    """roll-up terms `[c.start for c in X ...]` / `[c.end for c in X ...]` of the summary region: X is task.children itself, not
    a subset selected by a condition on the child (e.g. 'not yet in the memo').  The general roll-up shape is C07's obligation;
    only the recognised filtered-subset shape is refuted here, unrecognised spellings are left to C07."""
    n = 0
    for attr in ('start', 'end'):
        for st, tgt, val, reg in ps.stores(attr):
            if reg['milestone'] is True or reg['leaf'] is True:
                continue
            v = ps.ex.expand(val, ps.cfg.node_of(st))
            parent_of = {id(ch_): p_ for p_ in ast.walk(v) for ch_ in ast.iter_child_nodes(p_)}
            for x in ast.walk(v):
                parts = facts.comp_parts(x)
                if not parts:
                    continue
                elt, t, it, ifs = parts
                if not (isinstance(t, ast.Name) and match(f"{t.id}.{attr}", elt)):
                    continue
                # one element picked by position (`next(<dates of the children>)`, `[..][0]`, `[..][-1]`) is not a roll-up over all of them
                par = parent_of.get(id(x))
                picked = None
                if isinstance(par, ast.Call) and isinstance(par.func, ast.Name) and par.func.id == 'next' and par.args and par.args[0] is x:
                    picked = 'the first'
                elif isinstance(par, ast.Call) and isinstance(par.func, ast.Name) and par.func.id == 'iter' and par.args and par.args[0] is x and \
                        isinstance(parent_of.get(id(par)), ast.Call) and getattr(parent_of[id(par)].func, 'id', '') == 'next':
                    picked = 'the first'
                elif isinstance(par, ast.Subscript) and par.value is x and facts.const_num(par.slice) is not None:
                    picked = 'the first' if facts.const_num(par.slice) == 0 else f"the one at position {facts.const_num(par.slice):g}"
                if picked and match(f"{ps.task}.children", _strip_seq(it)):
                    n += 1
                    want = 'min' if attr == 'start' else 'max'
                    o.refute(ps.f, st, par, f"summary {attr} is the {attr} of {picked} child in `{src(it)[:40]}` that has one (`{src(par)[:70]}`), not the "
                                            f"{want} over all children: a child that {'starts earlier' if attr == 'start' else 'ends later'} than that one "
                                            f"(other resource, longer work, placed through a link) is not covered by the summary, so dependencies "
                                            f"declared on the summary are not enforced for it")
                    continue
                seq = _strip_seq(it)
                if isinstance(seq, ast.BoolOp) and isinstance(seq.op, ast.Or):
                    seq = _strip_seq(seq.values[0])     # `<subset> or <all>`: the subset is what is used whenever it is not empty
                if match(f"{ps.task}.children", seq):
                    n += 1
                    o.site(ps.f, st, f"summary {attr}: over task.children")
                    continue
                inner = facts.comp_parts(seq)
                if inner and isinstance(inner[1], ast.Name) and isinstance(inner[0], ast.Name) and inner[0].id == inner[1].id and \
                        match(f"{ps.task}.children", _strip_seq(inner[2])):
                    flt = [c for c in inner[3] if not match(f"{inner[1].id}.{attr} is not None", c)]
                    n += 1
                    if flt:
                        o.refute(ps.f, st, flt[0], f"summary {attr} is rolled up only over the children with `{src(flt[0])[:60]}`: a child left out "
                                                   f"(e.g. one placed earlier through a dependency link) no longer bounds the summary, so dependencies "
                                                   f"declared on the summary are not enforced for it")
                    else:
                        o.site(ps.f, st, f"summary {attr}: over task.children")
    if n == 0:
        o.site(ps.f, ps.f.node, "no comprehension-style roll-up over a child collection (shape is C07's obligation)")
