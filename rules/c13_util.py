"""Helpers of rules/c13.py (CSV round trip).  Nothing here is specific to one obligation:

* FX            - per function expansion context: locals -> definitions (accumulators kept), helper inlining, module constants
* split_cases   - `a if c else b`, `a or b`, multi-return helper functions  ->  [(conditions, leaf expression)]
* sym_facts     - what a list of (test, polarity) atoms says about one symbol (None / falsy / empty string / digits only)
* StaticNames   - `obj.__dict__` and `dir(obj)` of Task / TaskRaw evaluated from the class text
* eval_filter   - truth value of a key filter (`k not in dir(t) and k not in (..)`, `not k.startswith('_')`, ..) for a concrete key
* generic_copies- the `for k in src.__dict__: dst.__setattr__(k, src.__getattribute__(k))` idiom with its path condition
"""
from __future__ import annotations

import ast
import copy
from typing import Dict, List, Optional, Set, Tuple

from sa.facts import split_conj
from sa.flow import Expander, subst
from sa.model import Func, walk_no_nested, src, unmangle
from sa.pat import same, attr_path


# --------------------------------------------------------------------------------------------------------- constants
def is_empty_container(v) -> bool:
    if isinstance(v, (ast.List, ast.Tuple, ast.Set)):
        return not v.elts
    if isinstance(v, ast.Dict):
        return not v.keys
    return isinstance(v, ast.Call) and isinstance(v.func, ast.Name) and v.func.id in ('list', 'dict', 'set', 'OrderedDict') \
        and not v.args and not v.keywords


def _literalish(v, depth=0) -> bool:
    if isinstance(v, ast.Constant) or isinstance(v, ast.Name):
        return True
    if isinstance(v, (ast.List, ast.Tuple, ast.Set)):
        return all(_literalish(e, depth + 1) for e in v.elts)
    if isinstance(v, ast.BinOp) and isinstance(v.op, ast.Add):
        return _literalish(v.left, depth + 1) and _literalish(v.right, depth + 1)
    if isinstance(v, ast.Call) and isinstance(v.func, ast.Name) and v.func.id in ('frozenset', 'set', 'tuple', 'list', 'sorted') \
            and len(v.args) == 1 and not v.keywords:
        return _literalish(v.args[0], depth + 1)        # NAME_SET = frozenset(NAMES)
    return False


def module_consts(module) -> Dict[str, ast.AST]:
    """module level NAME = <literal> bound exactly once and never declared global in a function"""
    cache = getattr(module, '_c13_consts', None)
    if cache is not None:
        return cache
    seen: Dict[str, List[ast.AST]] = {}
    for st in module.tree.body:
        if isinstance(st, ast.Assign):
            for t in st.targets:
                if isinstance(t, ast.Name):
                    seen.setdefault(t.id, []).append(st.value if len(st.targets) == 1 else None)
        elif isinstance(st, ast.AnnAssign) and isinstance(st.target, ast.Name):
            seen.setdefault(st.target.id, []).append(st.value)
        elif isinstance(st, ast.AugAssign) and isinstance(st.target, ast.Name):
            seen.setdefault(st.target.id, []).append(None)
    glob = {n for node in ast.walk(module.tree) if isinstance(node, ast.Global) for n in node.names}
    # a module level list / set that some code mutates is state, not a constant
    for node in ast.walk(module.tree):
        if isinstance(node, ast.Call) and isinstance(node.func, ast.Attribute) and isinstance(node.func.value, ast.Name) \
                and node.func.attr in ('append', 'extend', 'insert', 'add', 'update', 'remove', 'pop', 'clear', 'sort', 'reverse', 'discard', 'setdefault'):
            glob.add(node.func.value.id)
        elif isinstance(node, (ast.Assign, ast.AugAssign, ast.Delete)):
            for t in (node.targets if not isinstance(node, ast.AugAssign) else [node.target]):
                if isinstance(t, ast.Subscript) and isinstance(t.value, ast.Name):
                    glob.add(t.value.id)
    res = {k: v[0] for k, v in seen.items() if len(v) == 1 and v[0] is not None and k not in glob and _literalish(v[0])}
    module._c13_consts = res
    return res


def module_const_stmt(module, name) -> Optional[ast.stmt]:
    for st in module.tree.body:
        if isinstance(st, ast.Assign) and any(isinstance(t, ast.Name) and t.id == name for t in st.targets):
            return st
        if isinstance(st, ast.AnnAssign) and isinstance(st.target, ast.Name) and st.target.id == name:
            return st
    return None


def resolve_consts(module, node: ast.AST, local_names: Set[str], depth: int = 0) -> ast.AST:
    consts = module_consts(module)

    class T(ast.NodeTransformer):
        def visit_Name(self, n):
            if isinstance(n.ctx, ast.Load) and n.id in consts and n.id not in local_names and depth < 6:
                return resolve_consts(module, copy.deepcopy(consts[n.id]), set(), depth + 1)
            return n
    return T().visit(node)


def const_str(n) -> Optional[str]:
    return n.value if isinstance(n, ast.Constant) and isinstance(n.value, str) else None


def const_seq(n) -> Optional[list]:
    """python values of a literal list/tuple/set of constants (concatenations allowed)"""
    if isinstance(n, (ast.List, ast.Tuple, ast.Set)):
        if all(isinstance(e, ast.Constant) for e in n.elts):
            return [e.value for e in n.elts]
        return None
    if isinstance(n, ast.BinOp) and isinstance(n.op, ast.Add):
        a, b = const_seq(n.left), const_seq(n.right)
        return a + b if a is not None and b is not None else None
    if isinstance(n, ast.Call) and isinstance(n.func, ast.Name) and n.func.id in ('list', 'tuple', 'set', 'frozenset') \
            and len(n.args) == 1 and not n.keywords:
        return const_seq(n.args[0])
    return None


# --------------------------------------------------------------------------------------------------------- expansion
class FX:
    """expansion context of one function"""

    def __init__(self, ctx, func: Func):
        self.ctx = ctx
        self.prog = ctx.prog
        self.f = func
        self.ex = Expander(ctx.prog, func, ctx.typer)
        self.flow = self.ex.flow
        self.cfg = self.flow.cfg
        self.locals = {d.var.split('.')[0] for d in self.flow.defs}
        for n in ast.walk(func.node):
            if isinstance(n, ast.comprehension):
                for t in ast.walk(n.target):
                    if isinstance(t, ast.Name):
                        self.locals.add(t.id)
        # names bound to an empty container and filled afterwards: never replaced by their (empty) initial value
        self.acc = {d.var for d in self.flow.defs if d.kind == 'assign' and d.value is not None and is_empty_container(d.value)}
        self._rc = {}

    def x(self, e: ast.AST, keep=()) -> ast.AST:
        """e (a node of this function) with locals expanded, one-line helpers inlined, module constants substituted"""
        at = self.flow.node_of_expr(e)
        new = self.ex.expand(e, at, stop=set(self.acc) | set(keep)) if at is not None else copy.deepcopy(e)
        new = self._inline_nested(new)
        new = self._fold_records(new)
        return resolve_consts(self.f.module, new, self.locals)

    def _record_class(self, name: str):
        """a small immutable accessor class of this module: no bases, `__init__` only stores parameters (`self.A = <param>`),
        nothing else stores into self  ->  (ClassInfo, __init__ Func, {attribute: parameter}) else None"""
        if name not in self._rc:
            self._rc[name] = self._record_class_(name)
        return self._rc[name]

    def _record_class_(self, name: str):
        try:
            ci = self.prog.cls(name)
        except Exception:
            return None
        if ci.module is not self.f.module or ci.node.bases or ci.node.keywords or ci.node.decorator_list or ci.getters or ci.setters:
            return None
        init = ci.methods.get('__init__')
        if init is None or init.kind != 'method' or not init.params:
            return None
        a = init.node.args
        if a.vararg or a.kwarg or a.kwonlyargs:
            return None
        me = init.params[0]
        fields = {}
        for st in init.node.body:
            if isinstance(st, ast.Expr) and isinstance(st.value, ast.Constant):
                continue
            if isinstance(st, ast.AnnAssign) and st.value is not None:
                tgt, val = st.target, st.value
            elif isinstance(st, ast.Assign) and len(st.targets) == 1:
                tgt, val = st.targets[0], st.value
            else:
                return None
            if not (isinstance(tgt, ast.Attribute) and isinstance(tgt.value, ast.Name) and tgt.value.id == me and isinstance(val, ast.Name)
                    and val.id in init.params[1:] and tgt.attr not in fields):
                return None
            fields[tgt.attr] = val.id
        for m in ci.methods.values():
            if m is init:
                continue
            if m.kind != 'method' or not m.params:
                return None
            for n in ast.walk(m.node):
                if isinstance(n, ast.Attribute) and not isinstance(n.ctx, ast.Load) and isinstance(n.value, ast.Name) and n.value.id == m.params[0]:
                    return None
                if isinstance(n, ast.Call) and isinstance(n.func, ast.Name) and n.func.id in ('setattr', 'delattr', 'vars'):
                    return None
        # class level assignments (other than a docstring / __slots__) could shadow the instance fields
        for st in ci.node.body:
            if isinstance(st, (ast.FunctionDef, ast.Pass)) or (isinstance(st, ast.Expr) and isinstance(st.value, ast.Constant)):
                continue
            if isinstance(st, ast.Assign) and len(st.targets) == 1 and isinstance(st.targets[0], ast.Name) and st.targets[0].id == '__slots__':
                continue
            return None
        return ci, init, fields

    def _fold_records(self, e: ast.AST, depth: int = 0) -> ast.AST:
        """`C(a, b)[K]`, `C(a, b).m(K)` and `C(a, b).field` for a small accessor class C of this module (see _record_class) whose
        method is one `return <expr>`: replaced by that expression with self.<field> -> constructor argument, parameters ->
        call arguments (a row wrapped into a `_Record(header, row)` object reads like row[header[K]] again)"""
        if depth > 3 or not any(isinstance(n, ast.Call) and isinstance(n.func, ast.Name) and n.func.id not in self.locals
                                and self._record_class(n.func.id) is not None for n in ast.walk(e)):
            return e
        outer = self

        def ctor_of(n):
            if isinstance(n, ast.Call) and isinstance(n.func, ast.Name) and n.func.id not in outer.locals:
                rc = outer._record_class(n.func.id)
                if rc is not None:
                    b = bind_call(ast.Call(func=n.func, args=[ast.Name(id='<self>', ctx=ast.Load())] + list(n.args), keywords=n.keywords), rc[1])
                    if b is not None:
                        return rc[0], {fld: b[p_] for fld, p_ in rc[2].items()}
            return None

        def method_value(ci, fields, mname, args, keywords=()):
            m = ci.methods.get(mname)
            if m is None or m.kind != 'method':
                return None
            body = [st for st in m.node.body if not (isinstance(st, ast.Expr) and isinstance(st.value, ast.Constant))]
            if len(body) != 1 or not isinstance(body[0], ast.Return) or body[0].value is None:
                return None
            b = bind_call(ast.Call(func=ast.Name(id=mname, ctx=ast.Load()), args=[ast.Name(id='<self>', ctx=ast.Load())] + list(args),
                                   keywords=list(keywords)), m)
            if b is None:
                return None
            me = m.params[0]
            sub = {p_: v for p_, v in b.items() if p_ != me}
            ok = [True]

            class S(ast.NodeTransformer):
                def visit_Attribute(self, n):
                    if isinstance(n.value, ast.Name) and n.value.id == me:
                        if n.attr in fields and isinstance(n.ctx, ast.Load):
                            return copy.deepcopy(fields[n.attr])
                        ok[0] = False
                        return n
                    self.generic_visit(n)
                    return n

                def visit_Name(self, n):
                    if n.id == me:
                        ok[0] = False
                    elif n.id in sub and isinstance(n.ctx, ast.Load):
                        return copy.deepcopy(sub[n.id])
                    return n

                def visit_Lambda(self, n):
                    ok[0] = False
                    return n
            # comprehension variables of the method body must not capture argument names
            bound = {t.id for c in ast.walk(body[0].value) if isinstance(c, ast.comprehension) for t in ast.walk(c.target) if isinstance(t, ast.Name)}
            if bound & (set(sub) | {x.id for v in list(sub.values()) + list(fields.values()) for x in ast.walk(v) if isinstance(x, ast.Name)}):
                return None
            out = S().visit(copy.deepcopy(body[0].value))
            return ast.fix_missing_locations(out) if ok[0] else None

        class T(ast.NodeTransformer):
            def visit_Subscript(self, n):
                self.generic_visit(n)
                c = ctor_of(n.value) if isinstance(n.ctx, ast.Load) else None
                if c is not None and not isinstance(n.slice, ast.Slice):
                    v = method_value(c[0], c[1], '__getitem__', [n.slice])
                    if v is not None:
                        return outer._fold_records(v, depth + 1)
                return n

            def visit_Call(self, n):
                self.generic_visit(n)
                if isinstance(n.func, ast.Attribute):
                    c = ctor_of(n.func.value)
                    if c is not None and not any(isinstance(a, ast.Starred) for a in n.args) and all(k.arg for k in n.keywords):
                        v = method_value(c[0], c[1], unmangle(n.func.attr) if n.func.attr not in c[0].methods else n.func.attr, n.args, n.keywords)
                        if v is not None:
                            return outer._fold_records(v, depth + 1)
                return n

            def visit_Attribute(self, n):
                self.generic_visit(n)
                c = ctor_of(n.value) if isinstance(n.ctx, ast.Load) else None
                if c is not None and n.attr in c[1]:
                    return copy.deepcopy(c[1][n.attr])
                return n
        return T().visit(e)

    def _inline_nested(self, e: ast.AST, depth: int = 0) -> ast.AST:
        """calls of one-expression functions defined inside this function (closures over its locals, e.g. a local
        `cell(name)` accessor) are replaced by their value"""
        prog, f = self.prog, self.f
        nested = {q[len(f.qual) + 1:]: fn for q, fn in prog.funcs.items()
                  if q.startswith(f.qual + '.') and fn.kind == 'nested' and '.' not in q[len(f.qual) + 1:]}
        if not nested or depth > 3:
            return e
        outer = self

        class T(ast.NodeTransformer):
            def visit_Call(self, n):
                self.generic_visit(n)
                if isinstance(n.func, ast.Name) and n.func.id in nested and not n.keywords \
                        and not any(isinstance(a, ast.Starred) for a in n.args):
                    fn = nested[n.func.id]
                    body = [st for st in fn.body if not (isinstance(st, ast.Expr) and isinstance(st.value, ast.Constant))]
                    a = fn.node.args
                    if len(body) == 1 and isinstance(body[0], ast.Return) and body[0].value is not None and not a.vararg \
                            and not a.kwarg and not a.kwonlyargs and len(a.args) == len(n.args):
                        return outer._inline_nested(subst(body[0].value, dict(zip(fn.params, n.args))), depth + 1)
                return n
        return T().visit(e)

    def conds(self, node: ast.AST, keep=()) -> List[Tuple[ast.AST, bool]]:
        """path condition (expanded atoms with polarity) of the statement containing node, plus the conditions inside
        that statement's expression (IfExp tests, short circuits, comprehension filters) under which node is evaluated"""
        cn = self.cfg.node_containing(node) or self.cfg.node_of(node)
        out: List[Tuple[ast.AST, bool]] = []
        if cn is None:
            return out
        for t, pol in self.cfg.conditions(cn):
            out += split_conj(self.x(t, keep=keep), pol)
        return out

    def def_value(self, name: str, at_expr: ast.AST) -> Optional[ast.AST]:
        """right-hand side of the unique reaching plain assignment of `name` at the statement containing at_expr"""
        at = self.flow.node_of_expr(at_expr)
        if at is None:
            return None
        d = self.flow.unique_def(name, at)
        if d is not None and d.kind == 'assign':
            return d.value
        return None

    def enclosing_fors(self, node: ast.AST) -> List[ast.For]:
        cn = self.cfg.node_containing(node) or self.cfg.node_of(node)
        return self.cfg.enclosing_fors(cn) if cn is not None else []


_FX: Dict[int, FX] = {}


def fx_of(ctx, func: Func) -> FX:
    k = (id(ctx), id(func.node))
    if k not in _FX:
        _FX[k] = FX(ctx, func)
    return _FX[k]


# --------------------------------------------------------------------------------------------------------- case split
Case = Tuple[List[Tuple[ast.AST, bool]], ast.AST]
_HELPER_OK = (ast.If, ast.Return, ast.Assign, ast.AnnAssign, ast.Expr, ast.Pass)


def _helper_target(ctx, caller: Func, call: ast.Call) -> Optional[Func]:
    if not isinstance(call.func, ast.Name):
        return None
    tg = [t for t in ctx.typer.resolve_name_call(call.func.id, caller) if t.kind in ('function', 'nested')]
    return tg[0] if len(tg) == 1 else None


def helper_cases(ctx, hf: Func, call: ast.Call, depth: int) -> Optional[List[Case]]:
    """return expressions of a multi statement helper with their path conditions, parameters replaced by the
    call's arguments; None if the helper uses statements outside if/return/assign/expression"""
    fx = fx_of(ctx, hf)
    comp_of: Dict[str, ast.AST] = {}
    loop_stmts: Set[int] = set()
    for st in walk_no_nested(hf.node):
        if isinstance(st, ast.For):
            c = _acc_loop(fx, st)
            if c is None:
                return None
            comp_of[c[0]] = c[1]
            loop_stmts |= {id(x) for x in ast.walk(st)}
    for st in walk_no_nested(hf.node):
        if isinstance(st, ast.stmt) and st is not hf.node and not isinstance(st, _HELPER_OK) and id(st) not in loop_stmts:
            return None
    if call.keywords or any(isinstance(a, ast.Starred) for a in call.args):
        return None
    params = hf.params
    if len(call.args) > len(params):
        return None
    sub = dict(zip(params, call.args))
    a = hf.node.args
    defaults = dict(zip([x.arg for x in a.args][-len(a.defaults):], a.defaults)) if a.defaults else {}
    for p in params:
        if p not in sub:
            if p not in defaults:
                return None
            sub[p] = defaults[p]
    # a path that falls off the end returns None implicitly
    for p in fx.cfg.exit.pred:
        if not isinstance(p.ast, ast.Return):
            return None
    out: List[Case] = []
    for r in walk_no_nested(hf.node):
        if not isinstance(r, ast.Return):
            continue
        cn = fx.cfg.node_of(r)
        if cn is None or not fx.cfg.is_reachable(cn):
            continue
        conds = [(subst(t, sub), pol) for t, pol in fx.conds(r)]
        val = fx.x(r.value) if r.value is not None else ast.Constant(value=None)
        if isinstance(val, ast.Name) and val.id in comp_of:
            val = copy.deepcopy(comp_of[val.id])
        elif any(isinstance(n, ast.Name) and n.id in comp_of for n in ast.walk(val)):
            return None
        val = subst(val, sub)
        for c2, leaf in split_cases(ctx, hf, val, depth + 1):
            out.append((conds + c2, leaf))
    return out


def _acc_loop(fx: 'FX', lp: ast.For):
    """`ACC = []` ... `for T in IT: [if C: continue] [if D:] ACC.append(E)`  ->  (ACC, [E for T in IT if not C if D])"""
    body_nodes = [n for st in lp.body for n in ast.walk(st)]
    if lp.orelse or any(isinstance(n, (ast.For, ast.While, ast.Break, ast.Return, ast.Try, ast.With, ast.Raise)) for n in body_nodes):
        return None
    apps = [n for n in body_nodes if isinstance(n, ast.Call) and isinstance(n.func, ast.Attribute) and n.func.attr == 'append'
            and isinstance(n.func.value, ast.Name) and n.func.value.id in fx.acc and len(n.args) == 1]
    if len(apps) != 1:
        return None
    acc = apps[0].func.value.id
    # the accumulator is a list initialised once and touched nowhere else
    dv = fx.flow.defs_of(acc)
    if len(dv) != 1 or not isinstance(dv[0].value, (ast.List, ast.Call)):
        return None
    uses = [n for n in ast.walk(fx.f.node) if isinstance(n, ast.Name) and n.id == acc]
    if len(uses) > 3 + 0 and any(isinstance(n, ast.Call) and isinstance(n.func, ast.Attribute) and isinstance(n.func.value, ast.Name)
                                 and n.func.value.id == acc and n is not apps[0] for n in ast.walk(fx.f.node)):
        return None
    for st in lp.body:
        for n in ast.walk(st):
            if isinstance(n, ast.stmt) and not isinstance(n, (ast.If, ast.Expr, ast.Continue, ast.Assign, ast.Pass)):
                return None
    keep = [n.id for n in ast.walk(lp.target) if isinstance(n, ast.Name)]
    outer = len(fx.conds(lp))
    conds = fx.conds(apps[0], keep=keep)[outer:]
    ifs = [t if pol else ast.UnaryOp(op=ast.Not(), operand=t) for t, pol in conds]
    comp = ast.ListComp(elt=fx.x(apps[0].args[0], keep=keep),
                        generators=[ast.comprehension(target=copy.deepcopy(lp.target), iter=fx.x(lp.iter), ifs=ifs, is_async=0)])
    return acc, ast.fix_missing_locations(comp)


def split_cases(ctx, func: Func, e: ast.AST, depth: int = 0) -> List[Case]:
    """value cases of an (expanded) expression: conditional expressions, `a or b` / `a and b`, helper functions with
    several returns.  A leaf the function cannot open stays a leaf."""
    if depth > 4:
        return [([], e)]
    if isinstance(e, ast.IfExp):
        t = split_conj(e.test, True)
        f = split_conj(e.test, False)
        return [(t + c, l) for c, l in split_cases(ctx, func, e.body, depth)] + \
               [(f + c, l) for c, l in split_cases(ctx, func, e.orelse, depth)]
    if isinstance(e, ast.BoolOp) and len(e.values) >= 2:
        first, rest = e.values[0], (e.values[1] if len(e.values) == 2 else ast.BoolOp(op=e.op, values=e.values[1:]))
        if isinstance(e.op, ast.Or):
            return [(split_conj(first, True), first)] + [(split_conj(first, False) + c, l) for c, l in split_cases(ctx, func, rest, depth)]
        return [(split_conj(first, False), first)] + [(split_conj(first, True) + c, l) for c, l in split_cases(ctx, func, rest, depth)]
    if isinstance(e, ast.Call):
        hf = _helper_target(ctx, func, e)
        if hf is not None:
            hc = helper_cases(ctx, hf, e, depth)
            if hc is not None:
                return hc
    return [([], e)]


def helper_opaque(ctx, func: Func, leaf: ast.AST) -> Optional[Func]:
    """leaf is a call of a package helper that split_cases could not open"""
    if isinstance(leaf, ast.Call):
        return _helper_target(ctx, func, leaf)
    return None


# --------------------------------------------------------------------------------------------------------- symbol facts
def _is_zero(n):
    return isinstance(n, ast.Constant) and n.value == 0 and not isinstance(n.value, bool)


def _is_one(n):
    return isinstance(n, ast.Constant) and n.value == 1 and not isinstance(n.value, bool)


def _is_empty_str(n):
    return isinstance(n, ast.Constant) and n.value == ''


def _is_none(n):
    return isinstance(n, ast.Constant) and n.value is None


def _strip_noise(n: ast.AST) -> ast.AST:
    """S.strip() / str(S) count as S for emptiness tests"""
    while True:
        if isinstance(n, ast.Call) and isinstance(n.func, ast.Attribute) and n.func.attr in ('strip', 'lstrip', 'rstrip') and not n.args:
            n = n.func.value
        else:
            return n


def atom_fact(atom: ast.AST, pol: bool, S: ast.AST) -> Optional[str]:
    """one of none / notnone / falsy / truthy / empty / nonempty / digits / nodigits about symbol S, or None"""
    def is_s(n):
        return same(_strip_noise(n), S)

    def flip(fact):
        return {'none': 'notnone', 'notnone': 'none', 'falsy': 'truthy', 'truthy': 'falsy', 'empty': 'nonempty',
                'nonempty': 'empty', 'digits': 'nodigits', 'nodigits': 'digits'}[fact]

    fact = None
    if isinstance(atom, ast.UnaryOp) and isinstance(atom.op, ast.Not):
        r = atom_fact(atom.operand, not pol, S)
        return r
    if same(atom, S):
        fact = 'truthy'
    elif is_s(atom):
        fact = 'truthy'      # S.strip() truthy: counts as non-empty for our purposes
    elif isinstance(atom, ast.Call) and isinstance(atom.func, ast.Name) and atom.func.id in ('len', 'bool') and len(atom.args) == 1 \
            and is_s(atom.args[0]):
        fact = 'truthy' if atom.func.id == 'bool' else 'nonempty'
    elif isinstance(atom, ast.Call) and isinstance(atom.func, ast.Attribute) and atom.func.attr in ('isdigit', 'isnumeric', 'isdecimal') \
            and is_s(atom.func.value):
        fact = 'digits'
    elif isinstance(atom, ast.Compare) and len(atom.ops) == 1 and isinstance(atom.ops[0], (ast.In, ast.NotIn)) and is_s(atom.left) \
            and const_seq(atom.comparators[0]) is not None and '' in const_seq(atom.comparators[0]) \
            and all(v is None or isinstance(v, str) for v in const_seq(atom.comparators[0])):
        # S in ('', 'None', ..): the empty cell (plus literal spellings of "missing", judged by the caller via missing_literals)
        fact = 'empty' if isinstance(atom.ops[0], ast.In) else 'nonempty'
    elif isinstance(atom, ast.Compare) and len(atom.ops) == 1:
        l, op, r = atom.left, atom.ops[0], atom.comparators[0]
        if is_s(r) or (isinstance(r, ast.Call) and isinstance(r.func, ast.Name) and r.func.id == 'len' and r.args and is_s(r.args[0])):
            # mirror: const OP S  ->  S OP' const
            mir = {ast.Lt: ast.Gt, ast.Gt: ast.Lt, ast.LtE: ast.GtE, ast.GtE: ast.LtE}
            l, r = r, l
            op = mir.get(type(op), type(op))()
        if same(l, S) and _is_none(r):
            if isinstance(op, (ast.Is, ast.Eq)):
                fact = 'none'
            elif isinstance(op, (ast.IsNot, ast.NotEq)):
                fact = 'notnone'
        elif is_s(l) and _is_empty_str(r):
            if isinstance(op, ast.Eq):
                fact = 'empty'
            elif isinstance(op, ast.NotEq):
                fact = 'nonempty'
        elif isinstance(l, ast.Call) and isinstance(l.func, ast.Name) and l.func.id == 'len' and len(l.args) == 1 and is_s(l.args[0]):
            if (isinstance(op, ast.Eq) and _is_zero(r)) or (isinstance(op, ast.Lt) and _is_one(r)) or (isinstance(op, ast.LtE) and _is_zero(r)):
                fact = 'empty'
            elif (isinstance(op, (ast.NotEq, ast.Gt)) and _is_zero(r)) or (isinstance(op, ast.GtE) and _is_one(r)):
                fact = 'nonempty'
    elif isinstance(atom, ast.BoolOp) and isinstance(atom.op, ast.Or) and pol:
        # `S is None or S == ''`
        fs = [atom_fact(v, True, S) for v in atom.values]
        if all(f in ('none', 'empty', 'falsy') for f in fs):
            return 'falsy' if any(f in ('falsy', 'empty') for f in fs) else 'none'
        return None
    elif isinstance(atom, ast.BoolOp) and isinstance(atom.op, ast.And) and not pol:
        # not (S is not None and S != '')
        fs = [atom_fact(v, False, S) for v in atom.values]
        if all(f in ('none', 'empty', 'falsy') for f in fs):
            return 'falsy' if any(f in ('falsy', 'empty') for f in fs) else 'none'
        return None
    if fact is None:
        return None
    return fact if pol else flip(fact)


def overbroad_empty(conds, S: ast.AST) -> List[str]:
    """why the conditions that say "cell S is empty" also hold for cells that are NOT empty:
    literal spellings accepted as missing (`S in ('', 'None')`), emptiness tested after strip() (whitespace-only text)"""
    out = []
    for t, pol in conds:
        f = atom_fact(t, pol, S)
        if f not in ('empty', 'falsy'):
            continue
        for n in ast.walk(t):
            if isinstance(n, ast.Compare) and len(n.ops) == 1 and isinstance(n.ops[0], (ast.In, ast.NotIn)) and const_seq(n.comparators[0]):
                lits = [v for v in const_seq(n.comparators[0]) if isinstance(v, str) and v != '']
                if lits:
                    out.append(f"the text {', '.join(repr(v) for v in lits)} is taken for a missing value")
            if isinstance(n, ast.Call) and isinstance(n.func, ast.Attribute) and n.func.attr in ('strip', 'lstrip', 'rstrip') and not n.args \
                    and same(_strip_noise(n), S):
                out.append("emptiness is tested after .strip(): a text that consists of blanks only is taken for a missing value")
    return list(dict.fromkeys(out))


def sym_facts(conds, S: ast.AST) -> Tuple[Set[str], List[Tuple[ast.AST, bool]]]:
    facts: Set[str] = set()
    unknown = []
    for t, pol in conds:
        f = atom_fact(t, pol, S)
        if f is None:
            unknown.append((t, pol))
        else:
            facts.add(f)
    return facts, unknown


def cond_text(conds) -> str:
    return ' and '.join(('' if p else 'not ') + src(t) for t, p in conds) or 'always'


# --------------------------------------------------------------------------------------------------------- static names
class StaticNames:
    """names in obj.__dict__ after the constructor and in dir(obj), read from the class text"""

    def __init__(self, prog, cls: str):
        self.prog = prog
        self.cls = cls
        ci = prog.cls(cls)
        self.props: Set[str] = set()
        self.class_names: Set[str] = set()
        for c in prog.mro(cls):
            self.props |= set(c.getters) | set(c.setters)
            self.class_names |= set(c.getters) | set(c.setters)
            for m in c.methods.values():
                self.class_names.add(m.node.name)        # mangled spelling as stored in the class dict
            for st in c.node.body:
                if isinstance(st, ast.Assign):
                    for t in st.targets:
                        if isinstance(t, ast.Name):
                            self.class_names.add(t.id)
                elif isinstance(st, ast.AnnAssign) and isinstance(st.target, ast.Name):
                    self.class_names.add(st.target.id)
        self.init = prog.find_method(cls, '__init__')
        self.inst: List[str] = []          # attribute names stored by __init__ (mangled spelling), in order
        self.store_value: Dict[str, ast.AST] = {}
        self.dynamic_kwargs = False        # __init__ copies **kwargs onto the instance
        if self.init is not None:
            selfn = self.init.self_name
            for n in walk_no_nested(self.init.node):
                tgts = []
                if isinstance(n, ast.Assign):
                    tgts = [(t, n.value) for t in n.targets]
                elif isinstance(n, ast.AnnAssign):
                    tgts = [(n.target, n.value)]
                for t, v in tgts:
                    if isinstance(t, ast.Attribute) and isinstance(t.value, ast.Name) and t.value.id == selfn:
                        self.store_value.setdefault(t.attr, v)
                        if t.attr not in self.props and t.attr not in self.inst:
                            self.inst.append(t.attr)
            kw = self.init.node.args.kwarg.arg if self.init.node.args.kwarg else None
            if kw:
                for n in walk_no_nested(self.init.node):
                    if isinstance(n, ast.Call) and set_attr_call(n) is not None:
                        dst, k, v = set_attr_call(n)
                        if isinstance(dst, ast.Name) and dst.id == selfn:
                            self.dynamic_kwargs = True
        self.dir = set(self.class_names) | set(self.inst) | {'__dict__', '__class__', '__init__', '__doc__', '__module__'}

    def params(self) -> List[str]:
        return [p for p in (self.init.params[1:] if self.init else []) if p != (self.init.node.args.kwarg.arg if self.init.node.args.kwarg else None)]

    def stores_param(self, name: str) -> List[str]:
        """attributes (or properties) of self that __init__ assigns parameter `name` to"""
        return [attr for attr, v in self.store_value.items() if isinstance(v, ast.Name) and v.id == name]


def set_attr_call(c: ast.Call):
    """dst.__setattr__(k, v) | setattr(dst, k, v)  ->  (dst, k, v)"""
    if isinstance(c.func, ast.Attribute) and c.func.attr == '__setattr__' and len(c.args) == 2:
        return c.func.value, c.args[0], c.args[1]
    if isinstance(c.func, ast.Name) and c.func.id == 'setattr' and len(c.args) == 3:
        return c.args[0], c.args[1], c.args[2]
    return None


def get_attr_expr(e: ast.AST):
    """src.__getattribute__(k) | getattr(src, k[, d]) | src.__dict__[k] | vars(src)[k] | src.__dict__.get(k[, d])  ->  (src, k, default|None)"""
    if isinstance(e, ast.Call):
        if isinstance(e.func, ast.Attribute) and e.func.attr in ('__getattribute__', '__getattr__') and len(e.args) == 1:
            return e.func.value, e.args[0], None
        if isinstance(e.func, ast.Name) and e.func.id == 'getattr' and len(e.args) in (2, 3):
            return e.args[0], e.args[1], (e.args[2] if len(e.args) == 3 else None)
        if isinstance(e.func, ast.Attribute) and e.func.attr == 'get' and len(e.args) in (1, 2):
            d = dict_owner(e.func.value)
            if d is not None:
                return d, e.args[0], (e.args[1] if len(e.args) == 2 else ast.Constant(value=None))
    if isinstance(e, ast.Subscript):
        d = dict_owner(e.value)
        if d is not None:
            return d, e.slice, None
    return None


def dict_owner(e: ast.AST) -> Optional[ast.AST]:
    """X.__dict__ | vars(X)  ->  X"""
    if isinstance(e, ast.Attribute) and e.attr == '__dict__':
        return e.value
    if isinstance(e, ast.Call) and isinstance(e.func, ast.Name) and e.func.id == 'vars' and len(e.args) == 1:
        return e.args[0]
    return None


def keys_owner(e: ast.AST) -> Optional[ast.AST]:
    """iterable over the attribute names of X: X.__dict__ | X.__dict__.keys() | X.__dict__.items() | vars(X).. | list(..)"""
    if isinstance(e, ast.Call) and isinstance(e.func, ast.Name) and e.func.id in ('list', 'tuple') and len(e.args) == 1:
        return keys_owner(e.args[0])
    if isinstance(e, ast.Call) and isinstance(e.func, ast.Attribute) and e.func.attr in ('keys', 'items') and not e.args:
        return dict_owner(e.func.value)
    return dict_owner(e)


# --------------------------------------------------------------------------------------------------------- key filters
class KeyEnv:
    """evaluates `K in X.__dict__`, `K in dir(X)`, `hasattr(X, K)` for expressions X of the analysed function"""

    def __init__(self, ctx, func: Func, extra_dict: Dict[str, Set[str]] = None):
        self.ctx = ctx
        self.func = func
        self.extra = extra_dict or {}      # expression text -> names assumed present in its __dict__ in addition
        self._sn: Dict[str, StaticNames] = {}

    def static(self, cls: str) -> StaticNames:
        if cls not in self._sn:
            self._sn[cls] = StaticNames(self.ctx.prog, cls)
        return self._sn[cls]

    def cls_of(self, x: ast.AST) -> Optional[str]:
        t = self.ctx.typer.expr_type(x, self.func)
        return t if t in self.ctx.prog.classes else None

    def dict_names(self, x: ast.AST) -> Optional[Set[str]]:
        c = self.cls_of(x)
        if c is None:
            return None
        return set(self.static(c).inst) | set(self.extra.get(src(x), ()))

    def dir_names(self, x: ast.AST) -> Optional[Set[str]]:
        c = self.cls_of(x)
        if c is None:
            return None
        return set(self.static(c).dir) | set(self.extra.get(src(x), ()))


def eval_atom(atom: ast.AST, keyvar: str, key: str, env: KeyEnv) -> Optional[bool]:
    """truth value of one filter atom for the concrete key; None = not understood"""
    def is_k(n):
        return isinstance(n, ast.Name) and n.id == keyvar

    if isinstance(atom, ast.UnaryOp) and isinstance(atom.op, ast.Not):
        r = eval_atom(atom.operand, keyvar, key, env)
        return None if r is None else (not r)
    if isinstance(atom, ast.BoolOp):
        rs = [eval_atom(v, keyvar, key, env) for v in atom.values]
        if isinstance(atom.op, ast.And):
            if any(r is False for r in rs):
                return False
            return None if any(r is None for r in rs) else True
        if any(r is True for r in rs):
            return True
        return None if any(r is None for r in rs) else False
    if isinstance(atom, ast.Compare) and len(atom.ops) == 1:
        l, op, r = atom.left, atom.ops[0], atom.comparators[0]
        if isinstance(op, (ast.In, ast.NotIn)) and is_k(l):
            names = None
            seq = const_seq(r)
            if seq is not None:
                names = set(seq)
            elif isinstance(r, ast.Call) and isinstance(r.func, ast.Name) and r.func.id == 'dir' and len(r.args) == 1:
                names = env.dir_names(r.args[0])
            else:
                ko = keys_owner(r)
                if ko is not None:
                    names = env.dict_names(ko)
            if names is None:
                return None
            res = key in names
            return res if isinstance(op, ast.In) else not res
        if isinstance(op, (ast.Eq, ast.NotEq)):
            other = r if is_k(l) else (l if is_k(r) else None)
            if other is not None and const_str(other) is not None:
                res = key == other.value
                return res if isinstance(op, ast.Eq) else not res
            # k[0] == '_'
            for a, b in ((l, r), (r, l)):
                if isinstance(a, ast.Subscript) and is_k(a.value) and isinstance(a.slice, ast.Constant) and a.slice.value == 0 \
                        and const_str(b) is not None and len(b.value) == 1:
                    res = key[:1] == b.value
                    return res if isinstance(op, ast.Eq) else not res
        return None
    if isinstance(atom, ast.Call):
        if isinstance(atom.func, ast.Attribute) and atom.func.attr in ('startswith', 'endswith') and is_k(atom.func.value) and len(atom.args) == 1:
            a = atom.args[0]
            pre = [a.value] if const_str(a) is not None else const_seq(a)
            if pre is None or not all(isinstance(p, str) for p in pre):
                return None
            return any(key.startswith(p) if atom.func.attr == 'startswith' else key.endswith(p) for p in pre)
        if isinstance(atom.func, ast.Name) and atom.func.id == 'hasattr' and len(atom.args) == 2 and is_k(atom.args[1]):
            names = env.dir_names(atom.args[0])
            return None if names is None else key in names
    return None


def eval_filter(conds, keyvar: str, key: str, env: KeyEnv) -> Tuple[Optional[bool], List[ast.AST]]:
    """(passes?, atoms not understood).  False as soon as one atom definitely fails."""
    unknown = []
    ok = True
    for t, pol in conds:
        r = eval_atom(t, keyvar, key, env)
        if r is None:
            unknown.append(t)
        elif r != pol:
            ok = False
    if not ok:
        return False, unknown
    return (None if unknown else True), unknown


def failing_atoms(conds, keyvar: str, key: str, env: KeyEnv) -> List[Tuple[ast.AST, bool]]:
    return [(t, pol) for t, pol in conds if eval_atom(t, keyvar, key, env) is not None and eval_atom(t, keyvar, key, env) != pol]


# --------------------------------------------------------------------------------------------------------- generic copy
class GenericCopy:
    def __init__(self, call, dst, srcobj, keyvar, conds, loop):
        self.call, self.dst, self.src, self.keyvar, self.conds, self.loop = call, dst, srcobj, keyvar, conds, loop
        self.live: List[Tuple[str, ast.AST, ast.stmt]] = []     # (name, value, assignment) of once-computed LIVE dict views of dst
        self.wrap = None        # (function name, call node) when the copied value is passed through F(..)


_SNAPSHOT = ('list', 'tuple', 'set', 'frozenset', 'sorted')


def name_set_kind(e: ast.AST):
    """how expression e denotes the attribute names of an object X:
    ('live', X)      X.__dict__ | vars(X) | <those>.keys()           - a view that follows later attribute stores on X
    ('snapshot', X)  list/tuple/set/frozenset/sorted(<live>) | {k for k in <live>} | [k for k in <live>] | X.__dict__.copy() | dict(<X.__dict__>)
    None             anything else"""
    if dict_owner(e) is not None:
        return 'live', dict_owner(e)
    if isinstance(e, ast.Call) and isinstance(e.func, ast.Attribute) and e.func.attr == 'keys' and not e.args and dict_owner(e.func.value) is not None:
        return 'live', dict_owner(e.func.value)
    if isinstance(e, ast.Call) and isinstance(e.func, ast.Attribute) and e.func.attr == 'copy' and not e.args and dict_owner(e.func.value) is not None:
        return 'snapshot', dict_owner(e.func.value)
    if isinstance(e, ast.Call) and isinstance(e.func, ast.Name) and e.func.id in _SNAPSHOT + ('dict',) and len(e.args) == 1 and not e.keywords:
        inner = name_set_kind(e.args[0])
        if inner is not None and (e.func.id != 'dict' or dict_owner(e.args[0]) is not None):
            return 'snapshot', inner[1]
        return None
    if isinstance(e, (ast.SetComp, ast.ListComp)) and len(e.generators) == 1 and not e.generators[0].ifs \
            and isinstance(e.generators[0].target, ast.Name) and isinstance(e.elt, ast.Name) and e.elt.id == e.generators[0].target.id:
        inner = name_set_kind(e.generators[0].iter)
        return ('snapshot', inner[1]) if inner is not None else None
    return None


def _is_unset_test(t: ast.AST, pol: bool, name: str) -> bool:
    """(t, pol) says `name is None` (the lazily computed value has not been computed yet)"""
    if isinstance(t, ast.UnaryOp) and isinstance(t.op, ast.Not):
        if isinstance(t.operand, ast.Name) and t.operand.id == name:
            return pol
        return _is_unset_test(t.operand, not pol, name)
    if isinstance(t, ast.Compare) and len(t.ops) == 1 and isinstance(t.left, ast.Name) and t.left.id == name and _is_none(t.comparators[0]):
        if isinstance(t.ops[0], (ast.Is, ast.Eq)):
            return pol
        if isinstance(t.ops[0], (ast.IsNot, ast.NotEq)):
            return not pol
    return False


def once_value(fx: 'FX', name: str, loop: ast.For, use: ast.AST, keep=()):
    """`name = None` before `loop`, and inside it `if name is None: name = E` on the way to `use` (nothing else assigns name):
    the value read at `use` is E as evaluated in the FIRST pass of the loop  ->  (E expanded, the assignment); else None"""
    defs = fx.flow.defs_of(name)
    if len(defs) != 2 or any(d.kind != 'assign' or d.value is None or d.stmt is None for d in defs):
        return None
    init = [d for d in defs if _is_none(d.value) and loop not in fx.enclosing_fors(d.stmt)]
    comp = [d for d in defs if not _is_none(d.value) and loop in fx.enclosing_fors(d.stmt)]
    if len(init) != 1 or len(comp) != 1:
        return None
    d = comp[0]
    outer = len(fx.cfg.conditions(fx.cfg.node_of(loop))) if fx.cfg.node_of(loop) is not None else 0
    cs = fx.cfg.conditions(d.node)[outer:]
    if len(cs) != 1 or not _is_unset_test(cs[0][0], cs[0][1], name):
        return None
    # the guarded assignment lies before the use in the loop body and its `if` is passed on every way to the use
    tn, un = fx.cfg.node_containing(cs[0][0]), fx.cfg.node_containing(use)
    if tn is None or un is None or not fx.cfg.dominates(tn, un) or fx.cfg.dominates(un, tn):
        return None
    if not fx.cfg.dominates(fx.cfg.node_of(init[0].stmt), fx.cfg.node_of(loop)):
        return None
    return fx.x(d.value, keep=keep), d.stmt


def _peel_selection(it: ast.AST, tname: str):
    """`[k for k in X if C]` / list(..) / tuple(..) of one (a pure selection: the element is the loop variable)
    ->  (X, [(atom of C with k renamed to tname, True) ..]); anything else -> None"""
    extra = []
    peeled = False
    for _ in range(4):
        if isinstance(it, ast.Call) and isinstance(it.func, ast.Name) and it.func.id in ('list', 'tuple') and len(it.args) == 1 and not it.keywords:
            it = it.args[0]
            continue
        if isinstance(it, (ast.ListComp, ast.GeneratorExp)) and len(it.generators) == 1 and not it.generators[0].is_async \
                and isinstance(it.generators[0].target, ast.Name) and isinstance(it.elt, ast.Name) and it.elt.id == it.generators[0].target.id:
            g = it.generators[0]
            ren = {g.target.id: ast.Name(id=tname, ctx=ast.Load())}
            if g.target.id != tname and any(isinstance(n, ast.Name) and n.id == tname for c_ in g.ifs for n in ast.walk(c_)):
                return None
            for c_ in g.ifs:
                extra += split_conj(subst(c_, ren), True)
            it = g.iter
            peeled = True
            continue
        break
    return (it, extra) if peeled else None


def generic_copies(ctx, func: Func) -> List[GenericCopy]:
    """`for k in SRC.__dict__[.keys()|.items()]: [if ..:] DST.__setattr__(k, SRC.__getattribute__(k))`"""
    fx = fx_of(ctx, func)
    out = []
    for c in walk_no_nested(func.node):
        if not isinstance(c, ast.Call):
            continue
        sa = set_attr_call(c)
        if sa is None:
            continue
        dst, k, v = sa
        if not isinstance(k, ast.Name):
            continue
        for fo in reversed(fx.enclosing_fors(c)):
            tg = fo.target
            names = [tg.id] if isinstance(tg, ast.Name) else [e.id for e in getattr(tg, 'elts', []) if isinstance(e, ast.Name)]
            if k.id not in names or names[0] != k.id:
                continue
            itx = fx.x(fo.iter)
            owner = keys_owner(itx)
            sel = []
            if owner is None:
                # the names may be selected up front: `names = [k for k in SRC.__dict__ if C]; for name in names: DST.__setattr__(name, ..)`
                # - read as the loop over SRC.__dict__ under C (keys are unique, so selecting before the first copy selects the same names);
                # the list must be computed in the same pass of the enclosing loops as the copy loop
                dkeep = [dst.id] if isinstance(dst, ast.Name) else []
                itk = fx.x(fo.iter, keep=dkeep)
                hoisted_ok = True
                if isinstance(fo.iter, ast.Name):
                    dv = fx.def_value(fo.iter.id, fo.iter)
                    hoisted_ok = dv is not None and fx.enclosing_fors(dv) == [l for l in fx.enclosing_fors(c) if l is not fo]
                peeled = _peel_selection(itk, names[0]) if hoisted_ok and len(names) == 1 else None
                if peeled is not None:
                    itx, sel = peeled
                    owner = keys_owner(itx)
            if owner is None:
                continue
            # value must be the source object's attribute of the same key (or the items() value variable)
            vx = fx.x(v)
            wrap = None
            if isinstance(vx, ast.Call) and isinstance(vx.func, ast.Name) and len(vx.args) == 1 and not vx.keywords \
                    and not isinstance(vx.args[0], ast.Starred) and get_attr_expr(vx) is None:
                # dst.k = F(src.k): the value goes through a one-argument function (str() keeps the text the property compares)
                inner_v = v.args[0] if isinstance(v, ast.Call) and len(v.args) == 1 else None
                if get_attr_expr(vx.args[0]) is not None or (isinstance(inner_v, ast.Name) and len(names) == 2 and inner_v.id == names[1]):
                    if vx.func.id != 'str':
                        wrap = (vx.func.id, v)
                    vx = vx.args[0]
                    v = inner_v if inner_v is not None else v
            if wrap is None and get_attr_expr(vx) is None and not isinstance(vx, ast.Name):
                # a conversion helper that was expanded into a conditional expression: `int(x) if .. else x` with x = src.k
                leaves = [l for _c, l in split_cases(ctx, func, vx)]
                base = [l for l in leaves if get_attr_expr(l) is not None]
                calls = [l for l in leaves if isinstance(l, ast.Call) and base and get_attr_expr(l) is None
                         and any(same(n_, base[0]) for n_ in ast.walk(l))]
                if base and calls and len(base) + len(calls) == len(leaves) and all(same(b_, base[0]) for b_ in base):
                    non_str = [c_ for c_ in calls if not (isinstance(c_.func, ast.Name) and c_.func.id == 'str' and len(c_.args) == 1
                                                          and same(c_.args[0], base[0]))]
                    if non_str:
                        wrap = (non_str[0].func.id if isinstance(non_str[0].func, ast.Name) else (attr_path(non_str[0].func) or src(non_str[0].func)),
                                v, non_str[0], base[0])
                    vx = base[0]
            ga = get_attr_expr(vx)
            ok = False
            if ga is not None and same(ga[0], owner) and isinstance(ga[1], ast.Name) and ga[1].id == k.id:
                ok = True
            elif isinstance(v, ast.Name) and len(names) == 2 and v.id == names[1]:
                ok = True
            if ok:
                keep = [n.id for n in (dst, owner) if isinstance(n, ast.Name)]
                gc = GenericCopy(c, dst, owner, k.id, fx.conds(c, keep=keep) + sel, fo)
                gc.wrap = wrap
                _resolve_once_names(fx, gc, keep)
                out.append(gc)
            break
    return out


def _resolve_once_names(fx: 'FX', gc: GenericCopy, keep) -> None:
    """filter atoms `k in NAME` where NAME is the attribute-name set of the destination object computed once in the first
    pass of the object loop (`if NAME is None: NAME = set(dst.__dict__)`): NAME is replaced by `dst.__dict__` (the names the
    constructor stores - the same for every row); a LIVE view (`dst.__dict__.keys()`) is recorded in gc.live"""
    outer = [l for l in fx.enclosing_fors(gc.call) if l is not gc.loop]
    if len(outer) != 1:
        return
    sub = {}
    for t, _pol in gc.conds:
        for n in ast.walk(t):
            if not (isinstance(n, ast.Compare) and len(n.ops) == 1 and isinstance(n.ops[0], (ast.In, ast.NotIn))
                    and isinstance(n.comparators[0], ast.Name)):
                continue
            name = n.comparators[0].id
            if name in sub or name in keep:
                continue
            ov = once_value(fx, name, outer[0], gc.call, keep=keep)
            if ov is None:
                continue
            kind = name_set_kind(ov[0])
            if kind is None or not same(kind[1], gc.dst):
                continue
            # between the construction of dst and the once-assignment nothing may store attributes on dst: the copy call
            # itself comes later (checked by once_value: the guard dominates the use)
            sub[name] = ast.Attribute(value=copy.deepcopy(kind[1]), attr='__dict__', ctx=ast.Load())
            if kind[0] == 'live':
                gc.live.append((name, ov[0], ov[1]))
    if sub:
        gc.conds = [(subst(t, sub), pol) for t, pol in gc.conds]


# --------------------------------------------------------------------------------------------------------- row helpers
def bind_call(call: ast.Call, callee: Func) -> Optional[Dict[str, ast.AST]]:
    """parameter name -> argument expression of a call to a package function (defaults filled); None if not simple"""
    params = callee.params
    if any(isinstance(a, ast.Starred) for a in call.args) or any(k.arg is None for k in call.keywords) or len(call.args) > len(params):
        return None
    out = dict(zip(params, call.args))
    for k in call.keywords:
        if k.arg not in params or k.arg in out:
            return None
        out[k.arg] = k.value
    a = callee.node.args
    defaults = dict(zip([x.arg for x in a.args][len(a.args) - len(a.defaults):], a.defaults)) if a.defaults else {}
    for p_ in params:
        if p_ not in out:
            if p_ not in defaults:
                return None
            out[p_] = defaults[p_]
    return out


def package_helper(ctx, caller: Func, call: ast.AST) -> Optional[Func]:
    """call is `helper(...)` of a module level package function"""
    if not (isinstance(call, ast.Call) and isinstance(call.func, ast.Name)):
        return None
    tg = [t for t in ctx.typer.resolve_name_call(call.func.id, caller) if t.kind == 'function']
    return tg[0] if len(tg) == 1 else None


def loop_elt(fx: 'FX', stmts, acc: str, keep) -> Optional[ast.AST]:
    """value appended to list `acc` by one pass over a loop body: `acc.append(E)` -> E; `if c: acc.append(A) else: acc.append(B)`
    -> A if c else B (exactly one append on every path, local assignments are expanded); None otherwise"""
    eff = [st for st in stmts if not isinstance(st, (ast.Assign, ast.AnnAssign, ast.Pass))
           and not (isinstance(st, ast.Expr) and isinstance(st.value, ast.Constant))]
    if len(eff) != 1:
        return None
    st = eff[0]
    if isinstance(st, ast.Expr) and isinstance(st.value, ast.Call):
        c = st.value
        if isinstance(c.func, ast.Attribute) and c.func.attr == 'append' and isinstance(c.func.value, ast.Name) \
                and c.func.value.id == acc and len(c.args) == 1 and not c.keywords:
            return fx.x(c.args[0], keep=keep)
        return None
    if isinstance(st, ast.If):
        def empty(block):
            return not [x for x in block if not isinstance(x, ast.Pass) and not (isinstance(x, ast.Expr) and isinstance(x.value, ast.Constant))]
        a, b = loop_elt(fx, st.body, acc, keep), loop_elt(fx, st.orelse, acc, keep)
        if a is not None and b is not None and not isinstance(a, tuple) and not isinstance(b, tuple):
            return ast.IfExp(test=fx.x(st.test, keep=keep), body=a, orelse=b)
        # one branch appends, the other appends nothing: a filtered comprehension  ->  (elt, filter)
        if a is not None and not isinstance(a, tuple) and empty(st.orelse):
            return a, fx.x(st.test, keep=keep)
        if b is not None and not isinstance(b, tuple) and empty(st.body):
            return b, ast.UnaryOp(op=ast.Not(), operand=fx.x(st.test, keep=keep))
    return None


def built_list(fx: 'FX', name: str, at_expr: ast.AST, keep) -> Optional[Tuple[ast.AST, Optional[ast.AST]]]:
    """list variable `name` = literal list, then extended by ONE of: a `for k in IT: name.append(..)` loop, `name += X`,
    `name.extend(X)`  ->  (expanded literal, expanded extension as an expression or None)"""
    defs = [d for d in fx.flow.defs_of(name)]
    lit = [d for d in defs if d.kind == 'assign' and isinstance(d.value, (ast.List, ast.Tuple))]
    aug = [d for d in defs if d.kind == 'aug']
    if len(lit) != 1 or len(defs) != len(lit) + len(aug) or len(aug) > 1:
        return None
    fixed = ast.List(elts=[fx.x(e, keep=keep) for e in lit[0].value.elts], ctx=ast.Load())
    muts = [n for n in walk_no_nested(fx.f.node) if isinstance(n, ast.Call) and isinstance(n.func, ast.Attribute)
            and isinstance(n.func.value, ast.Name) and n.func.value.id == name]
    ext = None
    if aug:
        if muts or not isinstance(aug[0].stmt.op, ast.Add):
            return None
        ext = fx.x(aug[0].stmt.value, keep=keep)
    elif muts:
        if all(m.func.attr == 'append' for m in muts):
            loops = {id(l): l for m in muts for l in fx.enclosing_fors(m)[-1:]}
            if len(loops) != 1 or any(len(fx.enclosing_fors(m)) != 1 for m in muts):
                return None
            lp = list(loops.values())[0]
            if lp.orelse or any(isinstance(n, (ast.Break, ast.Continue, ast.Return, ast.For, ast.While)) for st in lp.body for n in ast.walk(st)):
                return None
            k2 = list(keep) + [n.id for n in ast.walk(lp.target) if isinstance(n, ast.Name)]
            elt = loop_elt(fx, lp.body, name, k2)
            if elt is None:
                return None
            ifs = []
            if isinstance(elt, tuple):
                elt, flt = elt
                ifs = [flt]
            ext = ast.ListComp(elt=elt, generators=[ast.comprehension(target=copy.deepcopy(lp.target), iter=fx.x(lp.iter, keep=keep),
                                                                        ifs=ifs, is_async=0)])
        elif len(muts) == 1 and muts[0].func.attr == 'extend' and len(muts[0].args) == 1:
            ext = fx.x(muts[0].args[0], keep=keep)
        else:
            return None
    return fixed, (ast.fix_missing_locations(ext) if ext is not None else None)


# --------------------------------------------------------------------------------------------------------- misc
def parent_map(root: ast.AST) -> Dict[int, ast.AST]:
    pm = {}
    for n in ast.walk(root):
        for ch in ast.iter_child_nodes(n):
            pm[id(ch)] = n
    return pm


def call_kwargs(call: ast.Call, params: List[str]) -> Tuple[Dict[str, ast.AST], Optional[ast.AST]]:
    """keyword/positional arguments of a constructor call by parameter name, and the ** argument if any"""
    out: Dict[str, ast.AST] = {}
    star = None
    for i, a in enumerate(call.args):
        if isinstance(a, ast.Starred) or i >= len(params):
            return out, star
        out[params[i]] = a
    for k in call.keywords:
        if k.arg is None:
            star = k.value
        else:
            out[k.arg] = k.value
    return out, star


def calls_of(func: Func, pred) -> List[ast.Call]:
    return [n for n in walk_no_nested(func.node) if isinstance(n, ast.Call) and pred(n)]


def func_name(call: ast.Call) -> Optional[str]:
    return attr_path(call.func)
