"""Fill-loop, search and encoding obligations shared by C04, C08 and C09."""
from __future__ import annotations

import ast
from fractions import Fraction

from sa import facts
from sa.cfg import cfg_of
from sa.flow import flow_of, Expander
from sa.model import walk_no_nested, src, unmangle
from sa.pat import match, same
from sa.ratio import to_rat, atom, const, key_of
from . import sched
from .sched import PassShape, parse_cap, parse_resv, parse_free


# --------------------------------------------------------------------------------------------------------------------
def _never_none(e):
    """an arithmetic value (it cannot be None)"""
    return isinstance(e, (ast.BinOp, ast.UnaryOp)) or (isinstance(e, ast.Constant) and isinstance(e.value, (int, float)) and not isinstance(e.value, bool))


def const_truth(t):
    """True / False for a test made of numeric constants only (`1 > 0`, `not -1 > 0`, left behind when a helper was spliced with
    a constant argument), else None"""
    if isinstance(t, ast.Constant) and isinstance(t.value, (bool, int, float)):
        return bool(t.value)
    if isinstance(t, ast.UnaryOp) and isinstance(t.op, ast.Not):
        v = const_truth(t.operand)
        return None if v is None else (not v)
    if isinstance(t, ast.BoolOp):
        vs = [const_truth(v) for v in t.values]
        if isinstance(t.op, ast.And):
            return False if False in vs else (None if None in vs else True)
        return True if True in vs else (None if None in vs else False)
    if isinstance(t, ast.Compare) and len(t.ops) == 1 and isinstance(t.ops[0], (ast.Is, ast.IsNot)) and \
            isinstance(t.left, ast.Constant) and isinstance(t.comparators[0], ast.Constant):
        same_ = (t.left.value is t.comparators[0].value) if (t.left.value is None or t.comparators[0].value is None) else None
        if same_ is None:
            return None
        return same_ if isinstance(t.ops[0], ast.Is) else (not same_)
    if isinstance(t, ast.Compare) and len(t.ops) == 1:
        a, b = facts.const_num(t.left), facts.const_num(t.comparators[0])
        if a is None or b is None:
            return None
        op = t.ops[0]
        table = {ast.Gt: a > b, ast.GtE: a >= b, ast.Lt: a < b, ast.LtE: a <= b, ast.Eq: a == b, ast.NotEq: a != b}
        return table.get(type(op))
    return None


def fold_const(e):
    """copy of e with conditional expressions on constant tests replaced by the branch taken"""
    import copy

    class T(ast.NodeTransformer):
        def visit_IfExp(self, n):
            self.generic_visit(n)
            v = const_truth(n.test)
            return n if v is None else (n.body if v else n.orelse)
    return T().visit(copy.deepcopy(e))


def is_dead(conds):
    """the path condition contains a test that is constantly false: the statement is never executed"""
    return any(const_truth(t) is not None and const_truth(t) != pol for t, pol in conds)


def norm_conds(conds):
    """path conditions with the 'optional value' idiom resolved: `(E if C else None) is not None` says C (E arithmetic), and
    `(None if C else E) is None` says C; conjunctions that appear are split"""
    out = []
    for t, pol in conds:
        if const_truth(t) is not None and const_truth(t) == pol:
            continue            # constantly true: says nothing
        t2, p2 = facts.norm_cond(t, pol)
        m = match("$x is None", t2)
        if m and isinstance(m['x'], ast.IfExp):
            x = m['x']
            b_none = isinstance(x.body, ast.Constant) and x.body.value is None
            o_none = isinstance(x.orelse, ast.Constant) and x.orelse.value is None
            if o_none and _never_none(x.body):
                # x is None  <=>  not C
                out += norm_conds(facts.split_conj(x.test, not p2))
                continue
            if b_none and _never_none(x.orelse):
                out += norm_conds(facts.split_conj(x.test, p2))
                continue
        out.append((t, pol))
    return out


def specialise(e, conds):
    """copy of expression e in which every conditional expression whose test is known from the path conditions is replaced by
    the branch that is taken"""
    known = []
    for t, pol in conds:
        t2, p2 = facts.norm_cond(t, pol)
        known.append((t2, p2))

    class T(ast.NodeTransformer):
        def visit_IfExp(self, n):
            self.generic_visit(n)
            t2, p2 = facts.norm_cond(n.test, True)
            for k, kp in known:
                if same(k, t2):
                    return n.body if kp == p2 else n.orelse
            return n
    import copy
    return T().visit(copy.deepcopy(e))


def same_wbs_subset(ps, coll, at):
    """`[v for v in X if v.wbs is task.wbs]` (the recursion stays inside the WBS being scheduled, F38) -> X, else None"""
    e = ps.ex.expand(coll, at) if at is not None else coll
    e = sched.strip_seq_copy(e) if hasattr(sched, 'strip_seq_copy') else e
    parts = facts.comp_parts(e)
    if not parts or not isinstance(parts[1], ast.Name) or not isinstance(parts[0], ast.Name) or parts[0].id != parts[1].id or not parts[3]:
        return None
    v = parts[1].id
    for c in parts[3]:
        if not (match(f"{v}.wbs is {ps.task}.wbs", c) or match(f"{ps.task}.wbs is {v}.wbs", c) or
                match(f"{v}.wbs == {ps.task}.wbs", c)):
            return None
    return parts[2]


def jump_bound(ctx, o, ps: PassShape, pt):
    """recursive calls on dependencies (not children) pass the project bound"""
    n = 0
    for c in ps.pass_calls():
        ci = ps.call_iter(c) if hasattr(ps, 'call_iter') else None
        if ci is None:
            fo = ps.call_loop(c)
            ci = (fo, fo.iter) if fo is not None else None
        if ci is None:
            continue
        if pt is not None:
            is_dep = same(ci[1], pt['iter'])
            if not is_dep:
                sub = same_wbs_subset(ps, ci[1], ps.cfg.node_of(ci[0]))
                is_dep = sub is not None and (same(sub, pt['iter']) or same(sub, ps.ex.expand(pt['iter'], ps.cfg.node_of(pt['stmt']))))
        else:
            # no `max/min([x.end ..] + [bound])` term (e.g. the bound is accumulated inside the recursion loop): recognise the
            # dependency recursion by what its collection ranges over
            try:
                srcs_ = ps.collection_sources(ci[1], ps.cfg.node_of(ci[0]))
            except Exception:
                srcs_ = None
            is_dep = bool(srcs_ and srcs_['own'] and not srcs_['unknown'])
        if not is_dep:
            continue
        n += 1
        b = ps.ex.expand(c.args[1], ps.cfg.node_containing(c)) if len(c.args) > 1 else None
        if b is not None and match(f"self.{ps.S['bound']}", b):
            o.site(ps.f, c, f"dependency scheduled with self.{unmangle(ps.S['bound'])}")
        elif isinstance(b, ast.Name) and b.id == ps.bound:
            o.refute(ps.f, c, c, f"a task reached through a dependency link is scheduled with the visiting task's bound `{ps.bound}`: "
                                 f"it inherits constraints of an unrelated branch (not tight / not late-packed)")
        else:
            o.refute(ps.f, c, c, f"a task reached through a dependency link is scheduled with bound `{src(b) if b is not None else '?'}`; "
                                 f"expected the project bound")
    if n == 0 and pt is None:
        o.fail("prerequisite term not found")
        return
    if n == 0:
        # recognised wrong shape: the recursion ranges over the task's OWN dependencies only, while the bound term also reads
        # the dependencies inherited from the ancestors
        own_only = []
        for c in ps.pass_calls():
            ci = ps.call_iter(c) if hasattr(ps, 'call_iter') else None
            if ci is None:
                continue
            coll = sched.strip_seq_copy(ps.ex.expand(ci[1], ps.cfg.node_of(ci[0]))) if hasattr(sched, 'strip_seq_copy') else ps.ex.expand(ci[1], ps.cfg.node_of(ci[0]))
            parts = facts.comp_parts(coll)
            if parts and isinstance(parts[0], ast.Name) and isinstance(parts[1], ast.Name) and parts[0].id == parts[1].id and not parts[3]:
                coll = parts[2]
            if match(f"{ps.task}.{ps.rel}", coll):
                own_only.append((c, ci[0]))
        srcs = pt.get('sources') or {}
        if own_only and srcs.get('ancestors') and len(ps.pass_calls()) == 2:
            c, fo = own_only[0]
            o.refute(ps.f, fo, fo, f"only the task's own {ps.rel} are handed to the recursive pass (`for .. in {src(fo.iter)[:40]}`); the {ps.rel} inherited "
                                   f"from ancestor summaries are read in `{pt['name']}` without having been scheduled first")
        elif ps.pass_calls():
            o.undecided(ps.f, ps.f.node, 'dependency recursion', "no recursive call recognised as the recursion over the dependency collection")
        else:
            o.refute(ps.f, ps.f.node, 'dependency recursion', "the pass never recurses: dependencies are not scheduled first")


# --------------------------------------------------------------------------------------------------------------------
def first_fit_and_greedy(ctx, o, S, greedy=True):
    prog = ctx.prog
    f = prog.func(S['search'])
    cfg = cfg_of(f)
    # search: the only return inside the loop is under free > 0 and nothing else; the step follows in the same iteration
    loops = [n for n in walk_no_nested(f.node) if isinstance(n, (ast.For, ast.While))]
    rets = [n for n in walk_no_nested(f.node) if isinstance(n, ast.Return)]
    usage_p_ = f.params[2]
    blind = []
    if len(loops) != 1:
        cfg0 = cfg_of(f)
        exs0 = Expander(prog, f, ctx.typer)
        for r in rets:
            v0 = exs0.expand(r.value) if r.value is not None else None
            cs0 = []
            for t0, pol0 in cfg0.conditions(cfg0.node_of(r)):
                cs0.append(exs0.expand(t0, cfg0.node_containing(t0)))
            mentions = any(isinstance(x, ast.Name) and x.id == usage_p_ for e_ in cs0 + ([v0] if v0 is not None else []) for x in ast.walk(e_))
            if not mentions:
                blind.append(r)
                o.refute(f, r, r, f"the search returns `{src(v0)[:50] if v0 is not None else 'None'}` on a path that never consults the usage ledger `{usage_p_}` "
                                  f"(under " + ', '.join(src(c_)[:40] for c_ in cs0[-3:]) + "): the day is accepted without `free > 0`, so a start can land on a "
                                  "day that is already booked up and its time of day does not encode the booked share")
    if len(loops) != 1 and not blind:
        o.undecided(f, f.node, 'search', "search is not a single loop")
    elif len(loops) == 1:
        cfg = cfg_of(f)
        lp = loops[0]
        exs = Expander(prog, f, ctx.typer)
        loop_tests = [n.test for n in walk_no_nested(f.node) if isinstance(n, ast.While)]
        for r in rets:
            conds = []
            for t0, pol0 in cfg.conditions(cfg.node_of(r)):
                if pol0 and any(t0 is lt_ for lt_ in loop_tests):
                    continue        # the step bound of a `while steps < max_steps` search loop, not a condition on the day
                conds += facts.split_conj(exs.expand(t0, cfg.node_containing(t0)), pol0)
            if is_dead(conds):
                continue
            conds = norm_conds(conds)
            extra = []
            okfree = False
            for t, pol in conds:
                st = sched.sign_test(t, pol)
                if st and parse_free(st[0], S['balance']) and st[1] == '>':
                    okfree = True
                elif isinstance(t, (ast.For, ast.While)) or (isinstance(t, ast.Constant) and bool(t.value) == pol):
                    continue        # loop header / constant guard
                elif pol and any(t is lt_ or any(x is t for x in ast.walk(lt_)) for lt_ in loop_tests):
                    continue        # the step bound of a `while steps < max_steps` search loop, not a condition on the day
                else:
                    extra.append((t, pol))
            if okfree and not extra:
                o.site(f, r, "return at the first day with free > 0")
            elif okfree:
                o.refute(f, r, r, "the search skips days with free capacity unless " + ', '.join(facts.cond_texts(extra)))
            elif any(sched.sign_test(t, pol) is None for t, pol in extra):
                o.undecided(f, r, r, "the search returns under " + ', '.join(facts.cond_texts(extra))[:100] + ": not a free-capacity test the rule recognises")
            else:
                o.refute(f, r, r, "the search result is not conditioned on free > 0")
        if isinstance(lp, ast.For):
            m = match("range($n)", lp.iter) or match("range(0, $n)", lp.iter)
            if not m:
                o.undecided(f, lp, lp.iter, "search loop is not a counted range loop")
    # fill: amount == min(remaining, free) exactly
    fill = prog.func(S['fill'])
    ex = Expander(prog, fill, ctx.typer)
    for c in sched.reserve_calls(ctx, fill):
        if sched.while_loop_of(fill, c) is None and len(sched.reserve_calls(ctx, fill)) > 1:
            continue        # a booking outside the day loop (a second booking path): conservation / encoding judge it
        # ... and on EVERY visited day with free > 0: the search accepts a day on `free > 0` alone, so any further condition on
        # the booking lets the search pick a start day on which nothing is booked (the remainder stays idle)
        lp = sched.while_loop_of(fill, c)
        if lp is not None:
            fcfg = cfg_of(fill)
            lt = sched.sign_test(lp.test)
            gv = lt[0].id if lt and isinstance(lt[0], ast.Name) else None
            extra = []
            for t0, pol0 in fcfg.conditions(fcfg.node_containing(c)):
                if t0 is lp.test or not any(x is t0 for st_ in lp.body for x in ast.walk(st_)):
                    continue
                amt0 = ex.expand(c.args[3]) if len(c.args) == 4 else None
                ops0 = (facts.flatten_lattice(amt0, 'min') or []) if amt0 is not None else []
                for a, pa in facts.split_conj(ex.expand(t0, fcfg.node_containing(t0)), pol0):
                    st = sched.sign_test(a, pa)
                    if st and st[1] == '>' and (parse_free(st[0], S['balance']) or (isinstance(st[0], ast.Name) and st[0].id == gv)):
                        continue
                    if st and st[1] == '>' and any(same(st[0], m_) for m_ in ops0):
                        continue        # the free term of this booking in a spelling the rule does not parse: still `its free > 0`
                    extra.append((a, pa))
            # the step bound (`if days > max_steps: raise ..`) placed before the booking is not a condition on the day
            raising = [n_.test for n_ in walk_no_nested(fill.node) if isinstance(n_, ast.If) and n_.body and isinstance(n_.body[-1], ast.Raise) and not n_.orelse]
            raw_raise = []
            for t0, pol0 in fcfg.conditions(fcfg.node_containing(c)):
                if any(t0 is rt for rt in raising) and not pol0:
                    raw_raise += [src(a_) for a_, _ in facts.split_conj(ex.expand(t0, fcfg.node_containing(t0)), pol0)]
            extra = [(a, pa) for a, pa in extra if src(a) not in raw_raise]
            dname_ = attr_or_name(c.args[1]) if len(c.args) > 1 else None
            on_date = [(a, pa) for a, pa in extra
                       if dname_ and {x.id for x in ast.walk(a) if isinstance(x, ast.Name)} == {dname_}
                       and not any(parse_cap(x) or sched._resv_call(x) for x in ast.walk(a))]
            cmp_ = [(a, pa) for a, pa in extra if isinstance(a, ast.Compare) and any(parse_free(x, S['balance']) or parse_cap(x) for x in ast.walk(a))]
            if on_date:
                o.refute(fill, c, on_date[0][0], "a visited day is booked only if " + ', '.join(facts.cond_texts(on_date))[:100] + ": days are skipped by a test on "
                         "the date itself, not by the resource's calendar - a day on which the calendar offers free capacity (and which the search accepts) "
                         "gets no booking")
                continue
            if cmp_:
                o.refute(fill, c, cmp_[0][0], "a visited day with free capacity is booked only if additionally " + ', '.join(facts.cond_texts(cmp_))[:120] +
                         ": the search accepts every day with free > 0 as start day, so a start day can get no booking and its remainder stays idle")
                continue
            elif extra:
                o.undecided(fill, c, extra[0][0], "the booking is additionally conditioned on " + ', '.join(facts.cond_texts(extra))[:100])
                continue
        if not greedy:
            # (C04 only asks that a day the search accepts is booked; whether the day is taken whole is C08 / C09's clause)
            o.site(fill, c, "booking conditioned on free > 0 only")
            continue
        amt = ex.expand(c.args[3]) if len(c.args) == 4 else None
        margs = facts.flatten_lattice(amt, 'min') if amt is not None else None
        frees = [a for a in (margs or []) if parse_free(a, S['balance'])]
        rem = [a for a in (margs or []) if not parse_free(a, S['balance'])]
        if margs is not None and len(margs) == 2 and len(frees) == 1 and len(rem) == 1 and isinstance(rem[0], ast.Name):
            o.site(fill, c, f"amount = min({src(rem[0])}, free)")
            continue
        lp = sched.while_loop_of(fill, c)
        lt = sched.sign_test(lp.test) if lp is not None else None
        guard_var = lt[0].id if lt and isinstance(lt[0], ast.Name) else None
        unres = [x for x in (_unresolved(fill, amt) if amt is not None else []) if not (isinstance(x, ast.Name) and x.id == guard_var)]
        if unres:
            o.undecided(fill, c, c.args[3], f"booked amount `{src(amt)[:70]}` contains `{src(unres[0])[:40]}`, which the rule cannot resolve")
        elif margs is None or len(margs) != 2:
            o.refute(fill, c, c.args[3] if len(c.args) == 4 else c, f"booked amount is `{src(amt) if amt is not None else '?'}`, not min(remaining, free): "
                                                                     f"a day is not taken whole")
        else:
            o.refute(fill, c, c.args[3], f"booked amount `{src(amt)[:90]}` is not min(remaining, free)")


def _unresolved(f, e):
    """terms of an expanded arithmetic expression the Expander could not resolve: locals with several definitions that are not
    parameters, results of calls other than the known arithmetic / ledger / capacity ones.  Arguments of capacity / ledger
    queries (the day cursor, the resource) are not terms of the arithmetic and are not looked at."""
    fl = flow_of(f)
    out = []

    def walk(x):
        if isinstance(x, ast.Name):
            if isinstance(x.ctx, ast.Load) and x.id not in f.params and len(fl.defs_of(x.id)) > 1:
                out.append(x)
        elif parse_cap(x) or sched._resv_call(x) or match("datetime.now()", x) or match("datetime.today()", x):
            return
        elif isinstance(x, ast.Call):
            if isinstance(x.func, ast.Name) and x.func.id in ('min', 'max', 'abs', 'round', 'float', 'int', 'timedelta', 'datetime', 'sum'):
                for a in list(x.args) + [k.value for k in x.keywords]:
                    walk(a)
            else:
                out.append(x)
        elif isinstance(x, (ast.BinOp, ast.UnaryOp, ast.IfExp, ast.BoolOp, ast.Compare, ast.Tuple, ast.List)):
            for ch in ast.iter_child_nodes(x):
                if isinstance(ch, ast.expr):
                    walk(ch)
    walk(e)
    return out


# --------------------------------------------------------------------------------------------------------------------
def _find(e, pred):
    out = []
    for n in ast.walk(e):
        r = pred(n)
        if r:
            out.append((n, r))
    return out


def _outer_only(nodes):
    """drop nodes that are contained in another node of the list"""
    res = []
    for n, r in nodes:
        if not any(n is not m and any(x is n for x in ast.walk(m)) for m, _ in nodes):
            res.append((n, r))
    return res


def encoding(ctx, o, ps: PassShape, strict_zero: bool = True):
    """the two date-fraction formulas of one scheduler"""
    S = ps.S
    prog = ctx.prog
    fwd = S['dir'] == 1
    # ---------------------------------------------------------------- search result
    f = prog.func(S['search'])
    ex = Expander(prog, f, ctx.typer)
    fl = flow_of(f)
    res_p, usage_p, task_p = f.params[1], f.params[2], f.params[4]
    for r in [n for n in walk_no_nested(f.node) if isinstance(n, ast.Return)]:
        if is_dead(facts.node_conditions(prog, f, r, ctx.typer)):
            continue            # e.g. the backward branch of a direction-generic search spliced with direction = +1
        v = ex.expand(r.value)
        if any(isinstance(x, ast.IfExp) and not parse_resv(x, S['balance']) for x in ast.walk(v)):
            # an optional intermediate (`share = .. if free > 0 else None; if share is not None: return ..`): take the branch the
            # path conditions of this return select
            v = specialise(v, norm_conds(facts.node_conditions(prog, f, r, ctx.typer)))
        caps = _find(v, parse_cap)
        resvs = _outer_only(_find(v, lambda n: parse_resv(n, S['balance'])))
        if not caps or not resvs:
            unres = [x for x in _unresolved(f, v) if not (isinstance(x, ast.Call) and isinstance(x.func, ast.Attribute) and x.func.attr in ('replace', 'combine', 'date', 'min', 'time'))]
            if unres:
                o.undecided(f, r, r, f"search result `{src(v)[:80]}` contains `{src(unres[0])[:40]}`, which the rule cannot resolve")
            else:
                o.refute(f, r, r, f"search result `{src(v)[:100]}` does not encode the booked share RESV/CAP of the day")
            continue
        cap0, resv0 = caps[0], resvs[0]
        if not all(same(c[0], cap0[0]) for c in caps) or not all(same(x[0], resv0[0]) for x in resvs):
            o.refute(f, r, r, "search result mixes capacities / ledger sums of different days or resources")
            continue
        d = cap0[1]['d']
        if resv0[1]['kind'] == 'sel-other':
            why = selector_defect(resv0[1].get('as_ifexp', resv0[0]), S['balance'])
            if why:
                o.refute(f, r, resv0[0], "the share booked before the task: " + why)
            else:
                o.undecided(f, r, resv0[0], "the ledger sum of the date share is chosen by a condition the rule cannot relate to balance_resources")
            continue
        if resv0[1]['kind'] != 'sel':
            o.refute(f, r, resv0[0], f"the share booked before the task is computed with selector `{resv0[1]['kind']}`")
            continue
        if not (src(cap0[1]['r']) == res_p and src(resv0[1]['r']) == res_p and src(resv0[1]['u']) == usage_p
                and same(resv0[1]['d'], d)):
            o.refute(f, r, r, "capacity and ledger sum in the search result refer to different resource / day / ledger")
            continue
        ck, rk, dk = key_of(cap0[0]), key_of(resv0[0]), key_of(d)
        sub = {ck: 'C', rk: 'R'}
        got = to_rat(v, lambda e: sub.get(key_of(e), key_of(e)))
        mid = atom('MID(' + dk + ')')
        day = atom('DAY')
        share = atom('R') / atom('C')
        want = mid + day * share if fwd else mid - day * share
        if got.equals(want):
            o.site(f, r, f"{'start' if fwd else 'end - 1 day'} = midnight({dk}) {'+' if fwd else '-'} DAY * RESV/CAP")
        else:
            o.refute(f, r, r, f"search result `{src(v)[:120]}` is not midnight(day) {'+' if fwd else '-'} 1 day * RESV(day)/CAP(day)")
    if not fwd:
        # the pass adds exactly one day to the search result
        augs = [st for st, tgt, val, reg in ps.stores('end') if isinstance(st, ast.AugAssign)]
        ok = [st for st in augs if isinstance(st.op, ast.Add) and facts.day_delta(st.value) == 1]
        v_inline = []
        for st, tgt, val, reg in ps.stores('end'):
            vv = ps.ex.expand(val, ps.cfg.node_of(st)) if not isinstance(st, ast.AugAssign) else None
            if vv is not None and isinstance(vv, ast.BinOp) and isinstance(vv.op, ast.Add) and facts.day_delta(vv.right) == 1 and \
                    isinstance(vv.left, ast.Call) and isinstance(vv.left.func, ast.Attribute) and \
                    unmangle(vv.left.func.attr) == prog.func(S['search']).name:
                v_inline.append(st)
        cond_extra = []
        if len(ok) + len(v_inline) == 1 and len(augs) == len(ok):
            the = (ok + v_inline)[0]
            cond_extra = [x for x in ps.stores('end') if x[0] is the][0][3]['other']
        if cond_extra:
            def about_work(t):
                return any((isinstance(x, ast.Attribute) and x.attr in ('estimate', 'spent')) for x in ast.walk(t))
            if all(isinstance(t, (ast.Compare, ast.BoolOp, ast.UnaryOp)) or about_work(t) for t, _ in cond_extra):
                o.refute(ps.f, the, the, "the end of a leaf is taken from the availability search (+ 1 day) only when " +
                         ', '.join(facts.cond_texts(cond_extra))[:100] + ": otherwise the raw bound is kept as end, which is not the midnight "
                         "following a day on which the resource has free capacity (end does not encode the capacity of its day)")
            else:
                o.undecided(ps.f, the, the, "the search result + 1 day is stored under " + ', '.join(facts.cond_texts(cond_extra))[:100])
        elif len(ok) + len(v_inline) == 1 and len(augs) == len(ok):
            o.site(ps.f, (ok + v_inline)[0], "end = search result + 1 day (midnight following the day)")
        else:
            o.refute(ps.f, (augs or [ps.f.node])[0], 'end += 1 day', "the computed end is not the search result plus exactly one day")
    # ---------------------------------------------------------------- fill result
    fill = prog.func(S['fill'])
    exf = Expander(prog, fill, ctx.typer)
    flf = flow_of(fill)
    cfg = flf.cfg
    res_p, usage_p, start_p, task_p = fill.params[1], fill.params[2], fill.params[3], fill.params[4]
    rc_all = sched.reserve_calls(ctx, fill)
    if len(rc_all) == 0:
        o.undecided(fill, fill.node, 'reserve', "fill loop does not contain exactly one reservation")
        return
    for r in [n for n in walk_no_nested(fill.node) if isinstance(n, ast.Return)]:
        # the booking whose day this result encodes: the one reservation that can precede this return (a fast path with its own
        # booking and return is judged against its own booking)
        rn0 = cfg.node_of(r)
        rc = [c_ for c_ in rc_all if cfg.node_containing(c_) is not None and rn0 is not None and cfg.can_reach(cfg.node_containing(c_), rn0)]
        if len(rc) == 0 and len(rc_all) == 1:
            rc = rc_all         # a return before any booking (the zero-work shortcut)
        if len(rc) != 1:
            if not (isinstance(r.value, ast.Name) and r.value.id == start_p):
                o.undecided(fill, r, r, f"{len(rc)} reservations can precede this result")
                continue
            rc = rc_all[:1]
        rnode = cfg.node_containing(rc[0])
        dvar = rc[0].args[1]
        loop = sched.while_loop_of(fill, rc[0])
        rn = cfg.node_of(r)
        conds = facts.node_conditions(prog, fill, r, ctx.typer)
        if loop is not None and any(x is r for st in loop.body for x in ast.walk(st)):
            o.refute(fill, r, r, "the fill loop returns from inside the loop")
            continue
        # the `left == 0` shortcut returns the start date unchanged
        if isinstance(r.value, ast.Name) and r.value.id == start_p:
            z = [t for t, p in conds if (match(f"$l == 0", t) and p) or (match("$l <= 0", t) and p) or (match("not $l", t) and p)]
            if z:
                o.site(fill, r, "no remaining work: date returned unchanged")
            else:
                o.refute(fill, r, r, "fill returns its start date on a path that is not `remaining == 0`")
            continue
        v = exf.expand(r.value)
        if not strict_zero and any((match("$l == 0", t) and p) or (match("$l <= 0", t) and p) or (match("not $l", t) and p) for t, p in conds) and \
                not any(cfg.can_reach(cfg.node_containing(c_), rn0) for c_ in rc_all if cfg.node_containing(c_) is not None and rn0 is not None):
            # C04 only asks that nothing is reserved for a task without remaining work; which date is returned then is C08's clause
            o.site(fill, r, "no remaining work: nothing reserved")
            continue
        resvs = _outer_only(_find(v, lambda n: parse_resv(n, S['balance'])))
        if len(resvs) != 1:
            lt_ = sched.sign_test(loop.test) if loop is not None else None
            skip_ = {attr_or_name(dvar)} | ({lt_[0].id} if lt_ and isinstance(lt_[0], ast.Name) else set())
            unres = [x for x in _unresolved(fill, v) if not (isinstance(x, ast.Name) and x.id in skip_)]
            # a local that only ever holds what the ledger's reserve() returned (the task's own last booking) is resolved: it is
            # not the ledger sum of the day
            own = [x for x in unres if isinstance(x, ast.Name) and all(
                d_.kind == 'assign' and d_.value is not None and (facts.const_num(d_.value) == 0 or d_.value in rc_all) for d_ in flf.defs_of(x.id))]
            if own and not resvs:
                o.refute(fill, r, r, f"the date share of the last/first work day is computed from `{own[0].id}`, the amount this task booked in its last "
                                     f"iteration, not from the ledger sum of that day: what other tasks (or earlier bookings) hold on the day is ignored")
                continue
            if not resvs and unres:
                o.undecided(fill, r, r, f"fill result `{src(v)[:80]}` contains `{src(unres[0])[:40]}`, which the rule cannot resolve")
            else:
                o.refute(fill, r, r, f"fill result `{src(v)[:100]}` does not contain exactly one ledger sum")
            continue
        resv = resvs[0]
        if resv[1]['kind'] == 'sel-other':
            why = selector_defect(resv[1].get('as_ifexp', resv[0]), S['balance'])
            if why:
                o.refute(fill, r, resv[0], "the share of the last/first work day: " + why)
            else:
                o.undecided(fill, r, resv[0], "the ledger sum of the date share is chosen by a condition the rule cannot relate to balance_resources")
            continue
        if resv[1]['kind'] != 'sel':
            o.refute(fill, r, resv[0], f"the share of the last/first work day is computed with selector `{resv[1]['kind']}` "
                                       f"(expected: all tasks when balancing, own task otherwise)")
            continue
        if not (src(resv[1]['r']) == res_p and src(resv[1]['u']) == usage_p and same(resv[1]['d'], dvar)):
            o.refute(fill, r, resv[0], "post-loop ledger sum refers to another resource / day / ledger than the last booking")
            continue
        # the ledger read must happen after the loop (it includes this task's own booking)
        orig = _origin_stmt(flf, r, lambda e: parse_resv(e, S['balance']))
        if orig is not None and loop is not None and any(x is orig for st in loop.body for x in ast.walk(st)):
            # read inside the loop: is it before the reservation?
            o.refute(fill, r, resv[0], "the ledger sum used for the date fraction is read before the last booking was made")
            continue
        # divisor: CAP of the same day
        rk, dk = key_of(resv[0]), key_of(dvar)
        divs = [n.right for n in ast.walk(v) if isinstance(n, ast.BinOp) and isinstance(n.op, ast.Div)]
        if len(divs) != 1:
            o.refute(fill, r, r, f"fill result `{src(v)[:100]}` is not date + k*DAY +/- DAY * RESV/CAP")
            continue
        V = divs[0]
        capinfo = parse_cap(V)
        vnote = ''
        if capinfo is None and isinstance(V, ast.Name):
            defs = flf.defs_of(V.id)

            def cap_read(d, depth=0):
                """the definition that reads the capacity, following plain single-definition aliases (`cap = cap_of_day`)"""
                if d.kind != 'assign' or d.value is None:
                    return None
                if parse_cap(d.value):
                    return d
                if isinstance(d.value, ast.Name) and depth < 3:
                    ds = flf.defs_of(d.value.id)
                    if len(ds) == 1:
                        return cap_read(ds[0], depth + 1)
                return None
            capdefs = [d for d in defs if cap_read(d) is not None]
            if loop is not None and len(capdefs) > 1:
                # capacity reads before the loop (a fast path that returned) are overwritten by the read of the booking iteration
                inloop = [d for d in capdefs if d.stmt is not None and any(x is d.stmt for st_ in loop.body for x in ast.walk(st_))]
                if len(inloop) == 1:
                    defs = [d for d in defs if d in inloop or d not in capdefs]
                    capdefs = inloop
            other = [d for d in defs if d not in capdefs and not (d.kind == 'assign' and isinstance(d.value, ast.Constant))]
            if len(capdefs) == 1 and not other:
                capdefs = [cap_read(capdefs[0])]
                capinfo = parse_cap(capdefs[0].value)
                cdn = capdefs[0].node
                if not flf.no_def_between(attr_or_name(dvar), cdn, rnode, {cfg.loop_entry_branch(loop).id} if loop is not None else None) \
                        or not cfg.can_reach(cdn, rnode):
                    o.refute(fill, capdefs[0].stmt, capdefs[0].stmt, "the capacity used as divisor is read for another version of the day than the booking")
                    continue
                vnote = f" ({V.id} = {src(capdefs[0].value)})"
        if capinfo is None:
            o.refute(fill, r, V, f"the booked share is divided by `{src(V)}`, not by the capacity of the same day")
            continue
        if not (src(capinfo['r']) == res_p and same(capinfo['d'], dvar)):
            o.refute(fill, r, V, f"the booked share of day `{dk}` is divided by the capacity `{src(capinfo['node'])}` of another day/resource")
            continue
        vk = key_of(V)
        sub = {rk: 'R', vk: 'C', dk: 'D'}
        got = to_rat(v, lambda e: sub.get(key_of(e), key_of(e)))
        day = atom('DAY')
        share = atom('R') / atom('C')
        want = atom('D') + day * share if fwd else atom('D') + day - day * share
        if got.equals(want):
            o.site(fill, r, f"{'end' if fwd else 'start'} = {dk} {'+' if fwd else '+ DAY -'} DAY * RESV'/CAP{vnote}")
        else:
            o.refute(fill, r, r, f"fill result `{src(v)[:120]}` is not {'day + DAY*RESV/CAP' if fwd else 'day + DAY - DAY*RESV/CAP'}")
        # no redefinition of the day between the last booking and the result
        # loop-exit inference: the guard `remaining > 0` can only become false in an iteration that executes the booking
        # (conservation: the booking is the only update of `remaining`), so the path from the last booking to the result
        # never re-enters the loop body
        entry = cfg.loop_entry_branch(loop) if loop is not None else None
        if rn is not None and not flf.no_def_between(attr_or_name(dvar), rnode, rn, {entry.id} if entry else None):
            o.refute(fill, r, r, "the day variable is stepped between the last booking and the computation of the result")


def _reach_avoiding(cfg, a, b, avoid):
    """b reachable from a without passing the node `avoid` (the loop entry: stays within one iteration)"""
    seen, todo = set(), [a]
    while todo:
        n = todo.pop()
        for s_ in n.succ:
            if s_ is avoid or s_.id in seen:
                continue
            if s_ is b:
                return True
            seen.add(s_.id)
            todo.append(s_)
    return False


def attr_or_name(e):
    from sa.pat import attr_path
    return attr_path(e) or src(e)


def _origin_stmt(fl, stmt, pred):
    """the statement (stmt itself or a definition feeding it through unique reaching definitions) that textually contains
    an expression satisfying pred"""
    from sa.pat import attr_path
    todo = [(stmt, fl.cfg.node_of(stmt))]
    seen = set()
    while todo:
        st, node = todo.pop()
        if id(st) in seen or node is None:
            continue
        seen.add(id(st))
        root = st.value if isinstance(st, (ast.Return, ast.Assign, ast.AugAssign, ast.AnnAssign, ast.Expr)) else st
        if root is None:
            continue
        for n in ast.walk(root):
            if pred(n):
                return st
        for n in ast.walk(root):
            if isinstance(n, (ast.Name, ast.Attribute)):
                pth = attr_path(n)
                if pth:
                    d = fl.unique_def(pth, node)
                    if d is not None and d.kind == 'assign' and d.stmt is not None:
                        todo.append((d.stmt, d.node))
    return None


def _original(f, sub):
    for n in walk_no_nested(f.node):
        if type(n) is type(sub) and same(n, sub):
            return n
    return None


# --------------------------------------------------------------------------------------------------------------------
def _is_balance(t, balance_attr):
    """`self.<balance>` and its equivalent spellings (`is True`, `== True`, `bool(..)`, `is not False`)"""
    for pat in ("$b is True", "$b == True", "bool($b)", "$b is not False", "$b != False"):
        m = match(pat, t)
        if m:
            t = m['b']
            break
    return isinstance(t, ast.Attribute) and t.attr == balance_attr


def selector_shape(ifexp, balance_attr):
    """how the test of a ledger-selector conditional `reserved(r, d) if <test> else reserved(r, d, task)` relates to the
    balancing flag.  Returns (shape, extra, all_when_true): shape in 'balance' | 'narrowed' (balance and X) | 'widened'
    (balance or X) | None; `extra` the other operands; all_when_true: the true branch is the all-tasks query"""
    if not isinstance(ifexp, ast.IfExp):
        return None, [], None
    a, b = sched._resv_call(ifexp.body), sched._resv_call(ifexp.orelse)
    if not a or not b or {a['kind'], b['kind']} != {'all', 'task'}:
        return None, [], None
    t, neg = ifexp.test, False
    while isinstance(t, ast.UnaryOp) and isinstance(t.op, ast.Not):
        t, neg = t.operand, not neg
    all_when_true = (a['kind'] == 'all') != neg
    if _is_balance(t, balance_attr):
        return 'balance', [], all_when_true
    if isinstance(t, ast.BoolOp) and any(_is_balance(v, balance_attr) for v in t.values):
        extra = [v for v in t.values if not _is_balance(v, balance_attr)]
        return ('narrowed' if isinstance(t.op, ast.And) else 'widened'), extra, all_when_true
    return None, [], None


def selector_defect(ifexp, balance_attr):
    """message naming what is wrong with a selector conditional that is not the plain balancing selector, or None"""
    shape, extra, all_when_true = selector_shape(ifexp, balance_attr)
    xs = ' and '.join(f"`{src(x)[:50]}`" for x in extra)
    if shape == 'narrowed' and all_when_true:
        return (f"the all-tasks ledger sum is used only when balancing is on AND {xs}: with balancing on and that condition false, "
                f"bookings of other tasks on the same resource and day are ignored (the day is over-booked, dates no longer encode the booked share)")
    if shape == 'widened' and all_when_true:
        return (f"the all-tasks ledger sum is also used when {xs} although balancing is off: other tasks' bookings influence a task "
                f"that must be scheduled independently")
    if shape == 'narrowed' and not all_when_true:
        return f"the ledger selector is inverted and additionally depends on {xs}"
    return None


def selectors(ctx, o, S):
    """every ledger query in the scheduler's own functions uses the balancing selector"""
    prog = ctx.prog
    for key in ('search', 'fill', 'pass_'):
        f = prog.func(S[key])
        calls = [c for c in facts.calls_named(f, 'reserved')]
        done = set()
        for n in walk_no_nested(f.node):
            if isinstance(n, ast.IfExp):
                pr = parse_resv(n, S['balance'])
                if pr:
                    for x in ast.walk(n):
                        done.add(id(x))
                    if pr['kind'] == 'sel':
                        o.site(f, n, src(n)[:80])
                    elif pr['kind'] == 'sel-other':
                        why = selector_defect(n, S['balance'])
                        if why:
                            o.refute(f, n, n, "ledger query: " + why)
                        else:
                            o.undecided(f, n, n, "ledger query chosen by a condition the rule cannot relate to balance_resources")
                    else:
                        o.refute(f, n, n, f"ledger query with selector `{pr['kind']}`")
        exs_ = Expander(prog, f, ctx.typer)
        for c in calls:
            if id(c) in done:
                continue
            pr = parse_resv(c, S['balance'])
            if pr is not None and pr['kind'] == 'task' and len(c.args) == 3 and isinstance(c.args[2], ast.Name):
                # the selector hoisted into a local: `counted = None if balance else task; reserved(r, d, counted)`
                cx = ast.copy_location(ast.Call(func=c.func, args=[c.args[0], c.args[1], exs_.expand(c.args[2], cfg_of(f).node_containing(c))],
                                                keywords=[]), c)
                prx = parse_resv(cx, S['balance'])
                if prx is not None:
                    pr = prx
            # statement form of the selector: `if self.balance: x = reserved(r, d) else: x = reserved(r, d, task)`
            bal = None
            for t, q in facts.node_conditions(prog, f, c, ctx.typer, expand=True):
                t2, q2 = facts.norm_cond(t, q)
                if isinstance(t2, ast.Attribute) and t2.attr == S['balance']:
                    bal = q2
            if pr is None:
                o.undecided(f, c, c, "unrecognised ledger query")
            elif pr['kind'] == 'sel':
                o.site(f, c, src(c)[:80])
            elif pr['kind'] == 'sel-other':
                why = selector_defect(pr.get('as_ifexp', c), S['balance'])
                if why:
                    o.refute(f, c, c, "ledger query: " + why)
                else:
                    o.undecided(f, c, c, "ledger query chosen by a condition the rule cannot relate to balance_resources")
            elif pr['kind'] == 'sel-inverted':
                o.refute(f, c, c, "ledger query with selector `sel-inverted`")
            elif bal is not None and pr['kind'] == ('all' if bal else 'task'):
                o.site(f, c, f"{src(c)[:60]} under balance_resources == {bal}")
            elif bal is not None:
                o.refute(f, c, c, f"ledger query `{src(c)}` uses selector `{pr['kind']}` on the branch balance_resources == {bal} (inverted)")
            else:
                o.refute(f, c, c, f"ledger query `{src(c)}` ignores balance_resources (selector `{pr['kind']}`): with balancing "
                                  f"{'off, other tasks influence this task' if pr['kind'] == 'all' else 'on, other tasks are ignored'}")


# --------------------------------------------------------------------------------------------------------------------
def conservation(ctx, o, S):
    """C04: the only change of the remaining work in the fill loop is `remaining -= <what reserve returned>`, the loop runs
    while remaining > 0, the amount is <= remaining (min), exactly one day step and at most one booking per iteration"""
    prog = ctx.prog
    fill = prog.func(S['fill'])
    fl = flow_of(fill)
    cfg = fl.cfg
    rc = sched.reserve_calls(ctx, fill)
    if len(rc) == 0:
        o.undecided(fill, fill.node, 'reserve', "no ledger reservation found in the fill function (delegated to a helper the rule does not follow?)")
        return
    if len(rc) > 1:
        nodes = [cfg.node_containing(x) for x in rc]
        lp = sched.while_loop_of(fill, rc[0])
        entry = cfg.loop_entry_branch(lp) if lp is not None else None
        seq = any(a is not b and a is not None and b is not None and _reach_avoiding(cfg, a, b, entry) for a in nodes for b in nodes)
        if seq:
            o.refute(fill, fill.node, 'reserve', f"fill loop contains {len(rc)} reservations per pass over a day (expected exactly one)")
        else:
            o.undecided(fill, fill.node, 'reserve', f"fill function contains {len(rc)} reservations on alternative paths")
        return
    c = rc[0]
    loop = sched.while_loop_of(fill, c)
    if loop is None:
        o.undecided(fill, c, c, "reservation is not inside a while loop")
        return
    param_p = left_p = fill.params[5]
    st = sched.sign_test(loop.test)
    if st and isinstance(st[0], ast.Name) and st[0].id != left_p:
        # the remaining work may live in a local copy of the parameter (`left = left_hours` before the loop, e.g. after a
        # helper that owns the loop was spliced in): follow it when that copy is its only plain definition
        plain = [d for d in fl.defs_of(st[0].id) if d.kind != 'aug']
        if len(plain) == 1 and plain[0].kind == 'assign' and isinstance(plain[0].value, ast.Name) and plain[0].value.id == left_p \
                and plain[0].node is not None and cfg.dominates(plain[0].node, cfg.node_of(loop)) \
                and not [d for d in fl.defs_of(left_p) if d.kind != 'param']:
            left_p = st[0].id
    if not (st and isinstance(st[0], ast.Name) and st[0].id == left_p) or st[1] not in ('>', '>=', '<', '<='):
        o.undecided(fill, loop, loop.test, f"fill loop guard is `{src(loop.test)}`: not a sign test of the remaining work `{left_p}`")
        return
    if st[1] != '>':
        o.refute(fill, loop, loop.test, f"fill loop guard is `{src(loop.test)}`; expected `{left_p} > 0`")
        return
    # nested loops around the reservation inside the while?
    inner = sched.for_loop_of(fill, c)
    if inner is not None and any(x is inner for s in loop.body for x in ast.walk(s)):
        o.refute(fill, inner, inner, "the reservation is inside a nested loop: more than one booking per day")
        return
    defs = [d for d in fl.defs_of(left_p) if d.kind != 'param' and not (left_p != param_p and d.kind == 'assign')]
    guard_p = left_p
    # per-iteration working copy (a one-day booking helper spliced into the loop): `w = left; w -= reserve(..); left = w`
    # - the loop variable's only update is the copy-back, the working copy starts every iteration from the loop variable
    if len(defs) == 1 and defs[0].kind == 'assign' and isinstance(defs[0].value, ast.Name) and defs[0].value.id != left_p \
            and defs[0].node is not None and any(x is defs[0].stmt for s_ in loop.body for x in ast.walk(s_)):
        w = defs[0].value.id
        wdefs = fl.defs_of(w)
        starts = [d for d in wdefs if d.kind == 'assign' and isinstance(d.value, ast.Name) and d.value.id == left_p and d.node is not None
                  and any(x is d.stmt for s_ in loop.body for x in ast.walk(s_))]
        rn_ = cfg.node_containing(c)
        if len(starts) == 1 and cfg.dominates(starts[0].node, rn_) and cfg.can_reach(rn_, defs[0].node) and \
                cfg.dominates(starts[0].node, defs[0].node):
            left_p = w
            defs = [d for d in wdefs if d is not starts[0]]

    def is_booked(d):
        """`left -= <ledger>.reserve(..)`, `left -= booked` with booked = <that call>, or `left = left - <either>`"""
        if d.kind == 'aug' and isinstance(d.stmt.op, ast.Sub):
            v = d.stmt.value
        elif d.kind == 'assign' and isinstance(d.value, ast.BinOp) and isinstance(d.value.op, ast.Sub) and \
                isinstance(d.value.left, ast.Name) and d.value.left.id == left_p:
            v = d.value.right
        else:
            return False
        def is_call_or_zero(x, allow_zero):
            """the reserve call itself, `<call> if <cond> else 0`, or (only next to the call) the constant 0"""
            if x is c:
                return 'call'
            if isinstance(x, ast.IfExp):
                a, b = is_call_or_zero(x.body, True), is_call_or_zero(x.orelse, True)
                if 'call' in (a, b) and a and b:
                    return 'call'
                return None
            if allow_zero and facts.const_num(x) == 0:
                return 'zero'
            return None
        if is_call_or_zero(v, False) == 'call':
            return True
        if isinstance(v, ast.Name) and d.node is not None:
            # `booked = reserve(..)` on one branch, `booked = 0` on the other(s)
            us = [u for u in fl.reaching(v.id, d.node)]
            kinds = [is_call_or_zero(u.value, True) if u.kind == 'assign' and u.value is not None else None for u in us]
            return bool(us) and all(kinds) and 'call' in kinds
        return False
    if len(defs) != 1 or not is_booked(defs[0]):
        for d in defs:
            if not is_booked(d):
                o.refute(fill, d.stmt, d.stmt, f"the remaining work is changed by `{src(d.stmt)}`; the only allowed update is "
                                              f"`{left_p} -= <ledger>.reserve(...)` (what was booked is what is subtracted)")
        if not defs:
            o.refute(fill, loop, loop, "the remaining work is never reduced by the booked amount")
        return
    ex = Expander(prog, fill, ctx.typer)
    amt = ex.expand(c.args[3])
    margs = facts.flatten_lattice(amt, 'min') or []
    if not any(isinstance(a, ast.Name) and a.id in (left_p, guard_p) for a in margs):
        o.refute(fill, c, c.args[3], f"booked amount `{src(amt)[:80]}` is not bounded by the remaining work `{left_p}`")
        return
    # day steps per iteration
    dvar = c.args[1]
    dname = attr_or_name(dvar)

    def is_step(d):
        return d.kind == 'aug' or (d.kind == 'assign' and isinstance(d.value, ast.BinOp) and isinstance(d.value.op, (ast.Add, ast.Sub))
                                   and attr_or_name(d.value.left) == dname)
    steps = [d for d in fl.defs_of(dname) if is_step(d) and d.node is not None and
             any(x is d.stmt for s in loop.body for x in ast.walk(s))]
    other_defs = [d for d in fl.defs_of(dname) if not is_step(d) and d.node is not None and
                  any(x is d.stmt for s in loop.body for x in ast.walk(s))]
    derived = None
    if len(other_defs) == 1 and not steps and other_defs[0].kind == 'assign' and isinstance(other_defs[0].value, ast.BinOp) and \
            isinstance(other_defs[0].value.op, (ast.Add, ast.Sub)) and isinstance(other_defs[0].value.left, ast.Name):
        # the day derived from a counter: `date = base + timedelta(days=n)` with `n += 1` once per iteration and `base` fixed
        dv = other_defs[0]
        base, off = dv.value.left.id, dv.value.right
        m_ = match("timedelta(days=$n)", off) or match("timedelta($n)", off) or match("$n * timedelta(days=1)", off) or match("timedelta(days=1) * $n", off)
        in_loop = lambda d: d.node is not None and d.stmt is not None and any(x is d.stmt for s_ in loop.body for x in ast.walk(s_))
        if m_ and isinstance(m_['n'], ast.Name) and not [d for d in fl.defs_of(base) if in_loop(d)]:
            nd = [d for d in fl.defs_of(m_['n'].id) if in_loop(d)]
            if len(nd) == 1 and nd[0].kind == 'aug' and isinstance(nd[0].stmt.op, ast.Add) and facts.const_num(nd[0].stmt.value) == 1 and \
                    not [t for t in cfg.conditions(nd[0].node) if any(x is t[0] for s_ in loop.body for x in ast.walk(s_))] and \
                    not [t for t in cfg.conditions(dv.node) if any(x is t[0] for s_ in loop.body for x in ast.walk(s_))]:
                derived = 1 if isinstance(dv.value.op, ast.Add) else -1
    if derived is not None:
        if derived != S['dir']:
            o.refute(fill, other_defs[0].stmt, other_defs[0].stmt, f"the fill loop moves by {derived:+d} day per iteration; expected {S['dir']:+d}")
            return
        o.site(fill, loop, f"while {left_p} > 0: day derived from a counter stepped by one per iteration, {left_p} -= reserve(min({left_p}, free))")
        steps = None
    elif other_defs:
        o.undecided(fill, other_defs[0].stmt, other_defs[0].stmt, f"the day variable `{dname}` is redefined inside the fill loop in a form the rule does not follow")
        return
    if steps is None:
        steps, skip_steps = [], True
    else:
        skip_steps = False
    hdr_conds = {id(t) for t, _ in cfg.conditions(cfg.node_of(loop))}
    if not skip_steps:
        uncond = [d for d in steps if not [t for t in cfg.conditions(d.node) if t[0] is not loop.test and id(t[0]) not in hdr_conds]]
        if len(steps) != 1 or len(uncond) != 1:
            o.refute(fill, loop, attr_or_name(dvar), f"the day variable is stepped {len(steps)} time(s) per iteration ({len(uncond)} unconditionally); "
                                                     f"expected exactly one unconditional step")
            return
        if steps[0].kind == 'aug':
            k = facts.day_delta(steps[0].stmt.value)
            if isinstance(steps[0].stmt.op, ast.Sub) and k is not None:
                k = -k
        else:
            k = facts.day_delta(steps[0].value.right)
            if isinstance(steps[0].value.op, ast.Sub) and k is not None:
                k = -k
        if k != S['dir']:
            o.refute(fill, steps[0].stmt, steps[0].stmt, f"the fill loop steps by `{src(steps[0].stmt)}`; expected exactly {S['dir']:+d} day")
            return
        o.site(fill, loop, f"while {left_p} > 0: one step of {k:+g} day, {left_p} -= reserve(min({left_p}, free))")
    # zero work shortcut
    pre = [n for n in fill.body if n is not loop]
    zero = False
    for n in walk_no_nested(fill.node):
        if isinstance(n, ast.If) and any(match(f"{v} == 0", n.test) or match(f"{v} <= 0", n.test) or match(f"not {v}", n.test)
                                         for v in {left_p, param_p, guard_p}):
            if any(isinstance(x, ast.Return) for x in n.body) and cfg.dominates(cfg.node_of(n), cfg.node_of(loop)):
                zero = True
    if zero:
        o.site(fill, fill.node, "completed task: nothing reserved, date returned unchanged")
    else:
        o.refute(fill, fill.node, 'zero work shortcut', f"no `if {left_p} == 0: return` before the loop: a completed task would divide by the "
                                                        f"capacity of an arbitrary day")


# --------------------------------------------------------------------------------------------------------------------
def ledger_fresh(ctx, o, S):
    """the ledger a calc() books into is empty at the start: `_ResourceUsage.__init__` allocates the row list itself (or takes
    it from a parameter that has no shared mutable default), and calc constructs the ledger it hands to the pass"""
    prog = ctx.prog
    init = prog.func('schedule._ResourceUsage.__init__')
    cls = prog.cls('_ResourceUsage')
    sched.shared_mutable_defaults(ctx, o, [f for f in cls.methods.values()], "bookings")
    a = init.node.args
    pos = a.posonlyargs + a.args
    defaults = dict(zip([x.arg for x in pos][len(pos) - len(a.defaults):], a.defaults))
    stores = [(st, tgt, val) for st, tgt, val in facts.attr_stores(init, 'rows')]
    if not stores:
        o.undecided(init, init.node, 'rows', "the ledger's row list is not initialised in __init__")
    ex = Expander(prog, init, ctx.typer)
    for st, tgt, val in stores:
        v = ex.expand(val) if val is not None else None
        for conds, case in sched.expr_cases(v) if v is not None else []:
            if isinstance(case, ast.BoolOp) and isinstance(case.op, ast.Or):
                alts = case.values
            else:
                alts = [case]
            for alt in alts:
                fresh = (isinstance(alt, (ast.List, ast.ListComp)) or
                         (isinstance(alt, ast.Call) and isinstance(alt.func, ast.Name) and alt.func.id in ('list', 'sorted')))
                if fresh:
                    o.site(init, st, f"rows = {src(alt)[:40]} (allocated per ledger)")
                elif isinstance(alt, ast.Name) and alt.id in init.params:
                    d = defaults.get(alt.id)
                    if d is None or (isinstance(d, ast.Constant) and d.value is None):
                        o.site(init, st, f"rows taken from parameter `{alt.id}` (no shared default)")
                    elif isinstance(d, (ast.List, ast.Dict, ast.Set)) or isinstance(d, ast.Call):
                        pass        # reported by shared_mutable_defaults above
                    else:
                        o.undecided(init, st, st, f"row list comes from parameter `{alt.id}` with default `{src(d)}`")
                else:
                    o.refute(init, st, st, f"the ledger's row list is `{src(alt)[:60]}`: not a list allocated for this ledger, bookings of "
                                           f"other ledgers / earlier calc() calls are visible in it")
    calc = prog.func(S['calc'])
    exc = Expander(prog, calc, ctx.typer, inline=False)
    pname = prog.func(S['pass_']).name
    usage_idx = 2       # (task, bound, ledger, memo)
    for c in facts.calls_named(calc, pname):
        if len(c.args) <= usage_idx:
            o.undecided(calc, c, c, "pass call without a positional ledger argument")
            continue
        led = exc.expand(c.args[usage_idx], cfg_of(calc).node_containing(c))
        if match("_ResourceUsage()", led):
            o.site(calc, c, "ledger constructed by this calc call")
        elif isinstance(led, ast.Call) and isinstance(led.func, ast.Name) and led.func.id != '_ResourceUsage' and \
                any(match("_ResourceUsage()", a_) for a_ in list(led.args) + [k.value for k in led.keywords]):
            o.site(calc, c, f"ledger constructed by this calc call inside the per-call holder `{led.func.id}(..)`")
        elif isinstance(led, ast.Call) and isinstance(led.func, ast.Name) and led.func.id == '_ResourceUsage':
            o.undecided(calc, c, c.args[usage_idx], f"the ledger is constructed with arguments: `{src(led)[:60]}`")
        elif isinstance(led, ast.Attribute) and isinstance(led.value, ast.Name) and led.value.id == calc.params[0]:
            o.refute(calc, c, c.args[usage_idx], f"the ledger handed to the pass is scheduler state (`{src(led)}`): bookings of an earlier calc() stay booked")
        else:
            o.undecided(calc, c, c.args[usage_idx], f"the ledger handed to the pass is `{src(led)[:60]}`, not one constructed by this call")


# --------------------------------------------------------------------------------------------------------------------
def scheduled_once(ctx, o, ps: PassShape):
    """a task is scheduled (and its work booked) at most once per calc: either the pass itself returns early for a task in the
    memo, or EVERY call of the pass (recursive ones and the root loop of calc) is guarded by `x.id not in memo`; and the pass
    records the task in the memo"""
    S, prog = ps.S, ctx.prog
    memo = ps.memo
    holder = None
    if not ps.memo_on_self and not getattr(ps, 'memo_on_task', None) and memo not in ps.f.params and '.' in memo and \
            memo.split('.')[0] in ps.f.params[1:]:
        # the memo lives in a per-call parameter object (`run.scheduled_ids`): fine when calc builds that object for this call
        hp = memo.split('.')[0]
        hidx = ps.f.params.index(hp) - 1
        calc = prog.func(S['calc'])
        exc = Expander(prog, calc, ctx.typer, inline=False)
        ok_h = True
        cs_ = facts.calls_named(calc, ps.pname)
        for c in cs_:
            a = exc.expand(c.args[hidx], cfg_of(calc).node_containing(c)) if len(c.args) > hidx else None
            if not (isinstance(a, ast.Call) and isinstance(a.func, ast.Name) and
                    any(match("[]", x) or match("list()", x) or match("set()", x) for x in list(a.args) + [k.value for k in a.keywords])):
                ok_h = False
        if cs_ and ok_h:
            holder = hp
    if holder is not None:
        sc = ps.memo_shortcut() if hasattr(ps, 'memo_shortcut') else None
        grows_h = [n for n in walk_no_nested(ps.f.node) if isinstance(n, ast.Call) and isinstance(n.func, ast.Attribute) and
                   src(n.func.value) == memo and n.func.attr in ('append', 'add') and any(match(f"{ps.task}.id", x) for x in n.args)]
        if sc and sc[0] in ('return', 'wrap') and grows_h:
            o.site(ps.f, sc[1], f"the pass skips a task already in `{memo}` (per-call holder built by calc)")
            o.site(ps.f, grows_h[0], f"{memo} records task.id")
        else:
            o.undecided(ps.f, ps.f.node, memo, f"memo kept in the parameter object `{holder}`: entry test / recording not in a form the rule follows")
        return
    if ps.memo_on_self or getattr(ps, 'memo_on_task', None) or memo not in ps.f.params:
        # a memo that outlives the call (scheduler / task state): the second calc() skips every task it has seen - nothing is
        # reserved for them.  sched.memo_is_local names the construct
        sched.memo_is_local(ctx, o, S)
        if not o.refuted and not o.unknown:
            o.site(ps.f, ps.f.node, f"memo `{memo}`")
        return
    midx = ps.f.params.index(memo) - 1
    sc = ps.memo_shortcut() if hasattr(ps, 'memo_shortcut') else None
    entry_ok = False
    if sc and sc[0] in ('return', 'wrap'):
        entry_ok = True
        o.site(ps.f, sc[1], "the pass skips a task that is already in the memo")
    elif sc and sc[0] == 'late':
        # a memo test that is not the first statement: fine when it still precedes every booking, recursion and date store
        tn = ps.cfg.node_containing(sc[1])
        fill = prog.func(S['fill'])
        later = [c for c in facts.calls_named(ps.f, fill.name)] + ps.pass_calls()
        if tn is not None and later and all(ps.cfg.dominates(tn, ps.cfg.node_containing(c)) for c in later):
            entry_ok = True
            o.site(ps.f, sc[1], "memo test precedes every booking and recursion")
    if not entry_ok:
        calc = prog.func(S['calc'])
        n_un = 0
        for f2, c in sched.pass_call_sites(ctx, S):
            if len(c.args) <= midx or not c.args:
                o.undecided(f2, c, c, "pass call without positional task / memo arguments")
                continue
            targ, marg = c.args[0], c.args[midx]
            guarded = False
            ex2 = Expander(prog, f2, ctx.typer)
            cn2 = cfg_of(f2).node_containing(c)
            targ_x, marg_x = ex2.expand(targ, cn2), ex2.expand(marg, cn2)
            for expand in (False, True):
                for t, pol in facts.node_conditions(prog, f2, c, ctx.typer, expand=expand):
                    mm = facts.cond_is(t, pol, "$x.id in $m", want=False)
                    if mm and (same(mm['x'], targ) or same(mm['x'], targ_x)) and (same(mm['m'], marg) or same(mm['m'], marg_x)):
                        guarded = True
            if guarded:
                o.site(f2, c, "call guarded by `task.id not in memo`")
            else:
                n_un += 1
                o.refute(f2, c, c, f"the pass has no `if task.id in {memo}: return` at its entry and this call is not guarded by "
                                   f"`{src(targ)}.id not in {src(marg)}`: a task reached before (through a dependency link or as a child) is scheduled "
                                   f"again and its remaining work is reserved a second time")
    # the memo is filled
    grows = [n for n in walk_no_nested(ps.f.node) if
             (isinstance(n, ast.Call) and isinstance(n.func, ast.Attribute) and isinstance(n.func.value, ast.Name) and n.func.value.id == memo
              and n.func.attr in ('append', 'add', 'extend', 'update', 'insert')) or
             (isinstance(n, ast.AugAssign) and isinstance(n.target, ast.Name) and n.target.id == memo)]
    if grows:
        if any(any(match(f"{ps.task}.id", x) for x in ast.walk(g)) for g in grows):
            o.site(ps.f, grows[0], f"{memo} records task.id")
        else:
            o.undecided(ps.f, grows[0], grows[0], f"the memo `{memo}` is grown by something else than task.id")
    else:
        handed = [c for c in walk_no_nested(ps.f.node) if isinstance(c, ast.Call) and any(isinstance(a, ast.Name) and a.id == memo for a in c.args)
                  and c not in ps.pass_calls()]
        if handed:
            o.undecided(ps.f, handed[0], handed[0], f"the memo `{memo}` is handed to `{src(handed[0].func)}`; cannot tell whether the task is recorded")
        else:
            o.refute(ps.f, ps.f.node, f"{memo} never filled", f"the pass never records the task in `{memo}`: a task reached twice (link and hierarchy) is scheduled "
                                                               f"and booked twice")
