"""C14 - calc always terminates with a schedule or a RuntimeError diagnosis.   (DESIGN.md section 5, C14)

Decided over the call-graph reach of both calc methods: exception classes of explicit raises, implicit-exception sites of
the scheduler core with explicit discharge rules, bounded loops whose counter lies on every cycle, recursion guarded by a
memo plus a pre-check that follows every edge kind the passes recurse over, None-safe diagnosis messages.
Round 4: Resource.get_available_units never hands out the calendar's None (directly or through a cache on self); an edge kind
of the wait-for graph that is followed only under an extra condition is reported as narrowed; proofs that fail because a
loop / sequence is written in a form the inference does not follow are UNDECIDED, not REFUTED.
Round 5: a bare next() on a finite / filtered iterator (StopIteration); None-safety by must-analysis (every path to the use
assigns the field or passes a branch where it is not None) for merged `x is None and leaf` tests; the loop-exit inference
follows a per-iteration working copy of the remaining work (spliced one-day helper).
Round 6: countdown counters (`left -= 1; while left > 0`); a bounded loop in a helper that is new in the tree may report
exhaustion to its caller instead of raising; worklist push/pop moved into nested procedures; `xs = []` + one accumulate loop is
read as its comprehension; the project bound kept on the scheduler is never None where it is read; reduce() without initial.
Round 7: the future-end validator may be written inside calc (sched_dep.resolve_validator) and must compare task.end with the
clock itself; the loop check may be written inside _check_loops; a memo kept on the scheduler outlives a failed calc; sort keys
over nullable fields; `remaining -= reserve(..) if free > 0 else 0` and a hoisted booked amount in the loop-exit inference.
Round 8: the wait-for graph may be split over sibling helpers (followed through `h(task)` calls, per-item start/end side); the
walk of the loop check must not be skippable; dependency dates enter max/min None-filtered or demanded by the isolation check;
user IResource objects are never hashed; division guards inside conditional expressions and `free > c` (c >= 0); calendar
divisions spelled operator.truediv and nested operator procedures; hoisted `x is None` flags in the definite-assignment analysis.
Round 9: `while remaining > eps` needs a shortcut that takes everything up to eps; library lambdas wrapped around a calendar
(apply / FuncCalendar) must not compute on a None answer; an unreadable booking guard is UNDECIDED, a recognised wrong one
(`free >= 0`) REFUTED; recursion_stays_in_wbs: REFUTED only for a truly unguarded call or a positively widened guard.
Round 10: the divisor may be an alias of the loop's capacity variable set after the loop; the future-end test may sit in the
filter of next()/any(); nothing in the reach deep-copies user values; memo-idiom subscripts (`if k not in D: D[k] = ..`).
Round 11: the wait-for nodes may be instances of a two-field record class (NamedTuple / dataclass) whose method is the successor
function; the future-end test on day-truncated values (`t.end.date() > now.date()`) is refuted; the isolation check must test the
dates of a variable that ranges over ALL predecessors (one picked by next() is refuted); `not x.end is None` filters; extrema /
next() over the dated children themselves (`[t for t in task.children if t.end is not None]`, key=) are non-empty like their
dates; one clone clause is decided here: the element test of the relation rebuild must send a task with wbs None to the
'itself' side (lookup by id = KeyError), read from the shared clone analysis.
Not decided: stack depth on legitimately deep acyclic inputs; exceptions raised inside user supplied IResource /
calendar callables; clone()'s other dictionary lookups (assumption table: keys are drawn from the collection that built the map).
"""
from __future__ import annotations

import ast

from sa import facts
from sa.cfg import cfg_of
from sa.effects import Effects
from sa.flow import Expander, flow_of, eval_conditions
from sa.model import src, walk_no_nested, unmangle
from sa.pat import match, same, attr_path
from . import sched, sched_dep
from .sched import BOTH, FWD, BWD, PassShape, parse_cap, parse_resv, parse_free
from .c02 import VALIDATORS_FWD
from .c09 import VALIDATORS_BWD

CORE_MODULES = ('schedule', 'resource')


def check(ctx):
    prog = ctx.prog
    eff = Effects(prog, ctx.typer, ctx.cg)
    calcs = [prog.func(S['calc']) for S in BOTH]
    reach = eff.reach(calcs)
    core = [f for f in reach if f.module.name in CORE_MODULES]
    ctx.notes['reach_functions'] = len(reach)
    ctx.notes['core_functions'] = sorted(f.qual for f in core)
    ctx.assume("user supplied IResource / IWorkCalendar / FuncCalendar callables do not raise and return numbers")
    ctx.assume("ledger sums are >= 0 because every booked amount is > 0 (obligation C03.amount_positive)")
    ctx.assume("WBS.clone(): map lookups use ids of the tasks the map was built from (assumption table, DESIGN C14)")

    # ------------------------------------------------------------------------------------------------ explicit raises
    o = ctx.ob('raises_are_runtime_errors', 'R6a',
               "every explicit raise reachable from ForwardScheduler.calc / BackwardScheduler.calc raises RuntimeError", floor=25)

    def raises(o):
        for f in reach:
            for r, name in eff.direct_raises(f):
                if name == 'RuntimeError':
                    o.site(f, r, 'raise RuntimeError')
                elif name == '<reraise>':
                    o.undecided(f, r, r, "bare re-raise")
                else:
                    o.refute(f, r, r, f"raises {name}, not RuntimeError")
    ctx.guarded(o, raises)

    # ------------------------------------------------------------------------------------------------ loops
    o = ctx.ob('loops_bounded', 'R6c',
               "every while loop of the scheduler core has a counter compared with a bound that ends in `raise RuntimeError`, "
               "incremented on every cycle of the loop (or is the finite worklist of the loop check); for-loops range over finite collections", floor=5)
    ctx.guarded(o, lambda o: loops(ctx, o, core))

    # ------------------------------------------------------------------------------------------------ recursion
    o = ctx.ob('memo_guards_recursion', 'R6d',
               "each recursive pass returns immediately for a task in the memo and appends the task to the memo on every normal exit", floor=2)
    ctx.guarded(o, lambda o: memo(ctx, o))

    o = ctx.ob('memo_is_per_call', 'R6d',
               "the memo of scheduled ids is allocated by each calc call: a memo kept on the scheduler (or on the tasks) outlives a calc "
               "that ended in a RuntimeError diagnosis, the next calc skips the tasks placed before the failure and the roll-up of their "
               "summaries meets None (TypeError) - shared rule with C07", floor=2)

    def memo_scope(o):
        for S in BOTH:
            sched.memo_is_local(ctx, o, S)
    ctx.guarded(o, memo_scope)

    o = ctx.ob('recursion_stays_in_wbs', 'R6d',
               "each pass recurses over dependency links only into tasks that report the WBS being scheduled: the memo is kept by task "
               "id, ids are unique inside one WBS only, and an outside task leads back to the caller's own tasks (same ids as the "
               "clones) - a pass that walks out schedules those, skips the clones and the summary roll-up meets None (TypeError)", floor=4)

    def stays(o):
        for S in BOTH:
            sched.recursion_stays_in_wbs(ctx, o, S)
    ctx.guarded(o, stays)

    o = ctx.ob('loop_check_covers_recursion_edges', 'R6d',
               "the pre-flight loop check walks the wait-for graph over start/end of every task: start -> predecessor ends and parent "
               "start, end -> own start and children ends (every edge kind the passes recurse over), from every task, with fresh "
               "state per call, raising RuntimeError on a node that is on the current path", floor=5)
    ctx.guarded(o, lambda o: loop_check(ctx, o))

    o = ctx.ob('preflight_dominates', 'R5', "the validators run unconditionally on the input before it is cloned and scheduled", floor=5)

    def pre(o):
        for S, vs in ((FWD, VALIDATORS_FWD), (BWD, VALIDATORS_BWD)):
            calc = prog.func(S['calc'])
            cfg = cfg_of(calc)
            inp = calc.params[1]
            clones = [c for c in facts.calls_named(calc, 'clone') if isinstance(c.func, ast.Attribute) and
                      isinstance(c.func.value, ast.Name) and c.func.value.id == inp]
            if len(clones) != 1:
                o.refute(calc, calc.node, 'clone', "calc does not clone its input exactly once")
                continue
            cn = cfg.node_containing(clones[0])
            for v in vs:
                vf = sched_dep.resolve_validator(ctx, S, v)
                if isinstance(vf, sched_dep.AsValidator):
                    if cfg.dominates(cfg.node_of(vf.loop), cn):
                        o.site(calc, vf.loop, "future-end check (written in calc) runs before clone()")
                    else:
                        o.refute(calc, vf.loop, vf.name, "the future-end check does not run before clone()")
                    continue
                good = [c for c in facts.calls_named(calc, vf.name) if c.args and isinstance(c.args[0], ast.Name)
                        and c.args[0].id == inp and cfg.dominates(cfg.node_containing(c), cn)]
                if good:
                    o.site(calc, good[0], f"{vf.name}({inp})")
                elif not facts.calls_named(calc, vf.name) and _mentions(calc, vf.name):
                    o.undecided(calc, calc.node, vf.name, f"{vf.name} is referenced in calc but not called directly: cannot tell whether it runs before clone()")
                else:
                    o.refute(calc, calc.node, vf.name, f"{vf.name}({inp}) does not run unconditionally before clone()")
    ctx.guarded(o, pre)

    # ------------------------------------------------------------------------------------------------ implicit exceptions
    o = ctx.ob('divisions_discharged', 'R6b',
               "every division in the scheduler core has a divisor proved positive: CAP under a dominating `CAP - RESV > 0`, or (after a "
               "fill loop) by the loop-exit inference with a caller that passes max(.., 0) and a `== 0` shortcut", floor=4)
    ctx.guarded(o, lambda o: divisions(ctx, o, core))

    o = ctx.ob('calendar_divisions_guarded', 'R6b',
               "every division made by a library calendar while it answers get_available_units has a divisor proved non-zero at "
               "that point: a non-zero constant, or a dominating test of the divisor against zero whose zero side leaves with "
               "RuntimeError / a return (an operand calendar answers 0 on its days off: `a / b` on a weekend of b is 0 / 0)", floor=1)
    ctx.guarded(o, lambda o: calendar_divisions(ctx, o, reach))

    o = ctx.ob('extrema_of_nonempty', 'R6b',
               "every max()/min() over a sequence in the scheduler core is over a sequence with a literal element, or over children "
               "values that the pass has definitely assigned (every pass exit leaves start and end non-None)", floor=6)
    ctx.guarded(o, lambda o: extrema(ctx, o, core))

    o = ctx.ob('all_dated_on_exit', 'R7',
               "on every normal exit of either pass (other than the memo shortcut) task.start, task.end, task.estimate and task.spent have "
               "been assigned or tested non-None", floor=8)
    ctx.guarded(o, lambda o: all_dated(ctx, o))

    o = ctx.ob('none_safe_arithmetic', 'R6b',
               "comparisons and arithmetic on nullable task fields (start, end, estimate, spent, min_start) in the scheduler core are "
               "guarded by a None test or preceded by the None-fill", floor=4)
    ctx.guarded(o, lambda o: none_safe(ctx, o, core))

    o = ctx.ob('diagnosis_messages_safe', 'R6b',
               "expressions building a raise message never concatenate (`+`) a string with a nullable task field", floor=3)
    ctx.guarded(o, lambda o: messages(ctx, o, core))

    o = ctx.ob('capacity_is_never_none', 'R6b',
               "Resource.get_available_units hands the schedulers a number on every return path: the calendar's None (day not "
               "covered) is mapped to a number before it is returned or cached", floor=1)
    ctx.guarded(o, lambda o: capacity_number(ctx, o))

    o = ctx.ob('project_bound_is_a_date', 'R6b',
               "the project start / end kept on the scheduler is never None where the passes read it: the constructor resolves a "
               "missing argument (to the clock) before storing it, or every read is guarded", floor=2)
    ctx.guarded(o, lambda o: bound_not_none(ctx, o))

    o = ctx.ob('future_end_is_diagnosed', 'R6a',
               "the forward pre-flight check raises RuntimeError for every task whose fixed end is later than the clock: the end is "
               "compared with the clock read itself, not with a later moment", floor=1)
    ctx.guarded(o, lambda o: future_end_check(ctx, o))

    o = ctx.ob('outside_predecessors_without_dates_are_diagnosed', 'R6a',
               "the isolation check raises RuntimeError for EVERY predecessor outside the WBS that lacks a start or an end date: the "
               "dates tested in front of the raise are those of a variable that ranges over all predecessors of the task (a loop / "
               "comprehension over <task>.predecessors), not of one element picked from them", floor=1)
    ctx.guarded(o, lambda o: isolation_check(ctx, o))

    o = ctx.ob('dependency_dates_none_safe', 'R6b',
               "the dates of the dependencies that bound a task enter max()/min() only when they are not None: the comprehension "
               "filters `is not None`, or the pre-flight validation demands that date for every task of that relation (a linked task "
               "outside the WBS is not scheduled by the pass and keeps whatever dates it has)", floor=2)
    ctx.guarded(o, lambda o: dependency_dates(ctx, o))

    o = ctx.ob('user_resources_are_not_hashed', 'R6b',
               "user supplied IResource objects are only compared (==) and called, never used as dictionary keys / set members: a "
               "resource class with value equality and no __hash__ (a plain @dataclass) would end calc in TypeError: unhashable type",
               floor=2)
    ctx.guarded(o, lambda o: resource_keys(ctx, o, core))

    o = ctx.ob('user_values_are_not_deep_copied', 'R6b',
               "nothing in the reach of calc (clone included) deep-copies attribute values supplied by the user: copy.deepcopy of a "
               "value that cannot be copied (lock, generator, file) is a TypeError that leaves calc", floor=1)

    def no_deepcopy(o):
        n_ = 0
        for f in reach:
            if isinstance(f.node, ast.Lambda):
                continue
            for n in walk_no_nested(f.node):
                if isinstance(n, ast.Call) and ((isinstance(n.func, ast.Name) and n.func.id == 'deepcopy') or
                                                (isinstance(n.func, ast.Attribute) and n.func.attr == 'deepcopy')):
                    n_ += 1
                    o.refute(f, n, n, f"`{src(n)[:70]}` in the reach of calc: a user supplied value that cannot be deep-copied ends calc in TypeError")
        if not n_:
            o.site(calcs[0], calcs[0].node, f"no deepcopy in the {len(reach)} functions calc reaches")
    ctx.guarded(o, no_deepcopy)

    o = ctx.ob('clone_never_looks_up_a_detached_task', 'R6b',
               "calc clones the WBS: in the relation rebuild of WBS.__clone_tasks the choice between 'the linked task itself' and "
               "'its copy, looked up by id in the clone map' sends a linked task that belongs to no WBS (wbs is None) to the 'itself' "
               "side - looked up it ends calc in KeyError (shared clone analysis with C10; every other clause stays C10's)", floor=2)

    def clone_lookup(o):
        from .clone_common import clone_provenance
        clone_provenance(ctx, _DetachedLookup(o), ('receivers', 'relations'))
    ctx.guarded(o, clone_lookup)

    o = ctx.ob('next_has_a_default', 'R6b',
               "every next() on an iterator that can run dry (a filtered / finite generator) passes a default and every "
               "functools.reduce() over a possibly empty sequence an initial value: a bare next() ends in StopIteration, a bare "
               "reduce() in TypeError, not in a schedule or a RuntimeError diagnosis", floor=1)
    ctx.guarded(o, lambda o: next_calls(ctx, o, core))

    o = ctx.ob('subscripts_discharged', 'R6b',
               "every non-constant subscript in the scheduler core indexes a list by a range over its own length", floor=1)
    ctx.guarded(o, lambda o: subscripts(ctx, o, core))


# ======================================================================================================================
class _DetachedLookup:
    """view of an obligation for the shared clone analysis that keeps one finding only: the element test of a rebuilt relation
    (`x if <test> else map[x.id]`) evaluated for a task with wbs None takes the lookup branch.  Everything else the clone rule
    says (refuted or undecided) is C10's / C06's matter and is recorded as an evaluated site here."""

    def __init__(self, o):
        self._o = o

    def __getattr__(self, name):
        return getattr(self._o, name)

    @staticmethod
    def _for_detached(e):
        """truth value of a test on the linked task when its wbs is None (True / False / None = not determined)"""
        if isinstance(e, ast.UnaryOp) and isinstance(e.op, ast.Not):
            v = _DetachedLookup._for_detached(e.operand)
            return None if v is None else not v
        if isinstance(e, ast.BoolOp):
            vs = [_DetachedLookup._for_detached(v) for v in e.values]
            if isinstance(e.op, ast.And):
                return False if any(v is False for v in vs) else (None if any(v is None for v in vs) else True)
            return True if any(v is True for v in vs) else (None if any(v is None for v in vs) else False)
        if isinstance(e, ast.Compare) and len(e.ops) == 1 and isinstance(e.left, ast.Attribute) and e.left.attr == 'wbs':
            op, r = e.ops[0], e.comparators[0]
            if isinstance(r, ast.Constant) and r.value is None:
                return isinstance(op, (ast.Is, ast.Eq)) if isinstance(op, (ast.Is, ast.Eq, ast.IsNot, ast.NotEq)) else None
            if isinstance(r, ast.Name) and r.id == 'self':
                return isinstance(op, (ast.IsNot, ast.NotEq)) if isinstance(op, (ast.Is, ast.Eq, ast.IsNot, ast.NotEq)) else None
        return None

    def refute(self, func, node, construct, msg):
        if "decides between 'the task itself' and 'its copy'" in msg and isinstance(construct, ast.AST):
            # `construct` is the element test in expanded form (a helper such as foreign(x) resolved); the branch order is read from
            # the element `x if <test> else map[x.id]` / `map[x.id] if <test> else x` of the statement
            elts = [x for x in (ast.walk(node) if isinstance(node, ast.AST) else []) if isinstance(x, ast.IfExp) and
                    isinstance(x.body, ast.Name) != isinstance(x.orelse, ast.Name)]
            if elts and len({isinstance(x.body, ast.Name) for x in elts}) == 1:
                    x = elts[0]
                    v = self._for_detached(construct)
                    own_first = isinstance(x.body, ast.Name)
                    if v is not None and v != own_first:
                        self._o.refute(func, node, construct,
                                       f"`{src(x)[:90]}`: for a linked task that belongs to no WBS (wbs is None) the test `{src(construct)[:60]}` "
                                       f"chooses the lookup by id in the clone map, where it was never filed: WBS.clone(), and with it calc, "
                                       f"ends in KeyError instead of a schedule or a RuntimeError diagnosis")
                        return
        self._o.site(func, node, "clone clause judged by C10 / C06")

    def undecided(self, func, node, construct, msg):
        self._o.site(func, node, "clone clause judged by C10 / C06")


def _mentions(f, name):
    return any((isinstance(n, ast.Name) and n.id == name) or (isinstance(n, ast.Attribute) and unmangle(n.attr) == name)
               for n in walk_no_nested(f.node))


def _loop_body_nodes(cfg, hdr):
    """nodes inside the cycle(s) through hdr"""
    return {n.id for n in cfg.nodes if cfg.can_reach(hdr, n) and cfg.can_reach(n, hdr)}


def _cycle_avoiding(cfg, hdr, avoid_ids):
    """can hdr reach itself without passing through any node of avoid_ids?"""
    seen = set()
    todo = [s for s in hdr.succ if s.id not in avoid_ids]
    while todo:
        n = todo.pop()
        if n.id == hdr.id:
            return True
        if n.id in seen or n.id in avoid_ids:
            continue
        seen.add(n.id)
        if not cfg.dominates(hdr, n):
            continue        # left the loop (e.g. back to the header of an enclosing loop): not a cycle of THIS loop
        todo.extend(n.succ)
    return False


def loops(ctx, o, core):
    prog = ctx.prog
    for f in core:
        if isinstance(f.node, ast.Lambda):
            continue
        cfg = cfg_of(f)
        fl = flow_of(f)
        for lp in [n for n in walk_no_nested(f.node) if isinstance(n, (ast.While, ast.For))]:
            hdr = cfg.node_of(lp)
            if hdr is None or not cfg.is_reachable(hdr):
                continue
            if isinstance(lp, ast.For):
                it = lp.iter
                if isinstance(it, ast.Call) and isinstance(it.func, ast.Name) and it.func.id == 'range':
                    o.site(f, lp, f"for over {src(it)[:40]}")
                else:
                    t = ctx.typer.expr_type(it, f)
                    # a generator / iterator of unknown size would be unbounded; collections and list facades are finite
                    if isinstance(it, ast.Call) and isinstance(it.func, ast.Name) and it.func.id in ('iter', 'count', 'cycle', 'repeat'):
                        o.refute(f, lp, it, "for loop over a possibly infinite iterator")
                    else:
                        o.site(f, lp, f"for over finite collection {src(it)[:40]}")
                continue
            # ---- while
            body_ids = _loop_body_nodes(cfg, hdr)
            # candidate counters: names incremented by a positive constant inside the loop and compared with a bound
            counters = {}
            down = set()
            for d in fl.defs:
                if d.node is None or d.node.id not in body_ids:
                    continue
                if d.kind == 'aug' and isinstance(d.stmt.op, ast.Add) and isinstance(d.stmt.target, ast.Name) and \
                        (facts.const_num(d.stmt.value) or 0) > 0:
                    counters.setdefault(d.var, []).append(d)
                elif d.kind == 'assign' and d.value is not None and (
                        (match(f"{d.var} + $k", d.value) and (facts.const_num(match(f"{d.var} + $k", d.value)['k']) or 0) > 0) or
                        (match(f"$k + {d.var}", d.value) and (facts.const_num(match(f"$k + {d.var}", d.value)['k']) or 0) > 0)):
                    counters.setdefault(d.var, []).append(d)
                # countdown: `left -= 1` / `left = left - 1` with `while left > 0`
                elif d.kind == 'aug' and isinstance(d.stmt.op, ast.Sub) and isinstance(d.stmt.target, ast.Name) and \
                        (facts.const_num(d.stmt.value) or 0) > 0:
                    counters.setdefault(d.var, []).append(d)
                    down.add(d.var)
                elif d.kind == 'assign' and d.value is not None and match(f"{d.var} - $k", d.value) and \
                        (facts.const_num(match(f"{d.var} - $k", d.value)['k']) or 0) > 0:
                    counters.setdefault(d.var, []).append(d)
                    down.add(d.var)
            decided = False
            half = None
            for var, incs in counters.items():
                # bound check: loop test `var < bound` with a raise RuntimeError after the loop, or `if var > bound: raise` in the loop
                # (countdown counters: `var > bound` in the test, `if var < bound: raise` in the loop)
                bound_nodes = []
                _lo, _hi = (_above, _below) if var in down else (_below, _above)
                if any(d_.kind == 'aug' and isinstance(d_.stmt.op, ast.Add) for d_ in incs) and var in down:
                    continue        # stepped in both directions: not a counter
                if _lo(lp.test, var):
                    after_raise = _raise_after_loop(f, lp)
                    if after_raise:
                        bound_nodes.append(hdr)
                    elif f.qual not in _baseline_functions() and not _any_raise_after(f, lp):
                        # a helper that is new in this tree: it terminates by its counter and reports exhaustion to its caller
                        bound_nodes.append(hdr)
                    else:
                        half = (var, "the loop is bounded by its counter but no `raise RuntimeError` follows it")
                for n in walk_no_nested(lp):
                    if isinstance(n, ast.If) and _hi(n.test, var) and \
                            any(isinstance(x, ast.Raise) and facts.exc_name(x) == 'RuntimeError' for x in n.body):
                        tn = cfg.node_of(n)
                        if tn is not None:
                            bound_nodes.append(tn)
                if not bound_nodes:
                    continue
                inc_ids = {d.node.id for d in incs}
                bad = False
                if _cycle_avoiding(cfg, hdr, inc_ids):
                    o.refute(f, lp, lp.test, f"the loop can cycle without incrementing its counter `{var}` (e.g. through a `continue`): "
                                             f"the bound `{src(bound_nodes[0].ast)[:40]}` does not limit it")
                    bad = True
                bn_ids = {b.id for b in bound_nodes}
                if hdr.id not in bn_ids and _cycle_avoiding(cfg, hdr, bn_ids):
                    o.refute(f, lp, lp.test, f"the loop can cycle without passing the bound check on `{var}`")
                    bad = True
                if not bad:
                    o.site(f, lp, f"while bounded by counter {var}")
                decided = True
                break
            if decided:
                continue
            if _is_worklist(ctx, f, lp):
                o.site(f, lp, "finite worklist (each node pushed at most once)")
                continue
            if half is not None and _any_raise_after(f, lp):
                # a counter bounds the loop, but what happens when it is exhausted is written in a form the rule does not follow
                o.undecided(f, lp, lp.test, f"while loop `{src(lp.test)}`: {half[1]} in a recognised form")
                continue
            em = sched.is_emptiness(lp.test, True)
            if em is not None and not em[1] and isinstance(em[0], ast.Name) and \
                    any(isinstance(c_.func, ast.Attribute) and isinstance(c_.func.value, ast.Name) and c_.func.value.id == em[0].id
                        for c_ in facts.calls_named(f, 'pop')):
                # a worklist loop (runs while the stack is non-empty and pops it) whose progress argument the rule could not complete
                o.undecided(f, lp, lp.test, f"worklist loop `{src(lp.test)}`: could not show that every cycle pops, pushes a fresh node or "
                                            f"consumes an iterator element")
                continue
            o.refute(f, lp, lp.test, f"while loop `{src(lp.test)}` has no counter with a RuntimeError bound")


_BASELINE = None


def _baseline_functions():
    global _BASELINE
    if _BASELINE is None:
        try:
            from sa.normalize import baseline
            _BASELINE = set(baseline().get('functions', []))
        except Exception:
            _BASELINE = set()
    return _BASELINE


def _below(test, var):
    """test says `var < bound` / `var <= bound` (either operand order)"""
    return bool(match(f"{var} < $b", test) or match(f"{var} <= $b", test) or match(f"$b > {var}", test) or match(f"$b >= {var}", test))


def _above(test, var):
    return bool(match(f"{var} > $b", test) or match(f"{var} >= $b", test) or match(f"$b < {var}", test) or match(f"$b <= {var}", test))


def _raises_runtime_error(f, st):
    if not isinstance(st, ast.Raise):
        return False
    if facts.exc_name(st) == 'RuntimeError':
        return True
    # raise err   with   err = RuntimeError(...)
    if isinstance(st.exc, ast.Name):
        ds = [d for d in flow_of(f).defs_of(st.exc.id)]
        return bool(ds) and all(d.kind == 'assign' and isinstance(d.value, ast.Call) and isinstance(d.value.func, ast.Name) and
                                d.value.func.id == 'RuntimeError' for d in ds)
    return False


def _any_raise_after(f, lp):
    """some raise statement (in whatever form) lies in the statements that follow the loop"""
    for n in ast.walk(f.node):
        for fld in ('body', 'orelse', 'finalbody'):
            body = getattr(n, fld, None)
            if isinstance(body, list) and lp in body:
                return any(isinstance(x, ast.Raise) for st in body[body.index(lp) + 1:] for x in ast.walk(st)) or \
                    any(isinstance(x, ast.Raise) for st in lp.orelse for x in ast.walk(st))
    return False


def _raise_after_loop(f, lp):
    """a `raise RuntimeError` follows the loop in its statement list (only straight-line statements without control flow -
    logging, building the message - in between), or is the loop's `else` clause"""
    if lp.orelse and _raises_runtime_error(f, lp.orelse[-1]) and \
            all(isinstance(s_, (ast.Expr, ast.Assign, ast.AnnAssign)) for s_ in lp.orelse[:-1]):
        return True
    for n in ast.walk(f.node):
        for fld in ('body', 'orelse', 'finalbody'):
            body = getattr(n, fld, None)
            if isinstance(body, list) and lp in body:
                i = body.index(lp)
                for st in body[i + 1:]:
                    if _raises_runtime_error(f, st):
                        return True
                    if isinstance(st, (ast.Expr, ast.Assign, ast.AnnAssign)):
                        continue
                    return False
    return False


def _stop_iteration_handled(f, call):
    """call sits in the body of a try whose handlers catch StopIteration (or everything)"""
    for t in ast.walk(f.node):
        if isinstance(t, ast.Try) and any(x is call for st in t.body for x in ast.walk(st)):
            for h in t.handlers:
                names = [] if h.type is None else (h.type.elts if isinstance(h.type, ast.Tuple) else [h.type])
                if h.type is None or any(isinstance(x, ast.Name) and x.id in ('StopIteration', 'Exception', 'BaseException') for x in names):
                    return True
    return False


def _is_worklist(ctx, f, lp):
    """while len(stack) > 0 / while stack:  where every cycle pops the stack or pushes a node that is marked, and every push
    is dominated by `key not in <mark set>` tests for every mark set"""
    m = match("len($s) > 0", lp.test) or match("$s", lp.test) or match("len($s) != 0", lp.test)
    if not m or not isinstance(m['s'], ast.Name):
        return False
    stack = m['s'].id
    cfg = cfg_of(f)
    hdr = cfg.node_of(lp)
    pops = [c for c in facts.calls_named(f, 'pop') if isinstance(c.func, ast.Attribute) and isinstance(c.func.value, ast.Name)
            and c.func.value.id == stack]
    pushes = [c for c in facts.calls_named(f, 'append') if isinstance(c.func, ast.Attribute) and isinstance(c.func.value, ast.Name)
              and c.func.value.id == stack and any(x is c for st in lp.body for x in ast.walk(st))]
    # push / pop bookkeeping moved into nested procedures of f (closures over the stack and the mark sets)
    via_marks = {}
    for g in [n for n in ast.walk(f.node) if isinstance(n, ast.FunctionDef) and n is not f.node]:
        gcalls = [x for x in ast.walk(g) if isinstance(x, ast.Call) and isinstance(x.func, ast.Attribute) and isinstance(x.func.value, ast.Name)]
        g_pops = [x for x in gcalls if x.func.value.id == stack and x.func.attr == 'pop']
        g_push = [x for x in gcalls if x.func.value.id == stack and x.func.attr == 'append']
        sites = [c for c in walk_no_nested(f.node) if isinstance(c, ast.Call) and isinstance(c.func, ast.Name) and c.func.id == g.name]
        if g_pops and not g_push and all(isinstance(st, (ast.Expr, ast.Assign)) for st in g.body):
            pops += sites        # straight-line body: every call pops
        elif g_push and not g_pops and all(isinstance(st, (ast.Expr, ast.Assign)) for st in g.body):
            marks = {x.func.value.id for x in gcalls if x.func.attr == 'add' and x.lineno <= g_push[0].lineno}
            for c in sites:
                if any(x is c for st in lp.body for x in ast.walk(st)):
                    pushes.append(c)
                    via_marks[id(c)] = marks
    if not pops:
        return False
    # consuming one element of a finite iterator (`next(it, default)`, two-argument form: no StopIteration) is progress too
    nexts = [c for c in facts.calls_named(f, 'next') if isinstance(c.func, ast.Name) and
             (len(c.args) == 2 or _stop_iteration_handled(f, c)) and any(x is c for st in lp.body for x in ast.walk(st))]
    prog_ids = {cfg.node_containing(c).id for c in pops + pushes + nexts if cfg.node_containing(c) is not None}
    raise_ids = {n.id for n in cfg.nodes if isinstance(n.ast, ast.Raise)}
    if _cycle_avoiding(cfg, hdr, prog_ids | raise_ids):
        return False
    for c in pushes:
        cn = cfg.node_containing(c)
        conds = cfg.conditions(cn)
        # must be dominated by at least one `k in S` False / `k not in S` True test and by an S.add(k) before the push
        neg_member = [t for t, p in conds if (isinstance(t, ast.Compare) and isinstance(t.ops[0], ast.In) and not p)
                      or (isinstance(t, ast.Compare) and isinstance(t.ops[0], ast.NotIn) and p)]
        if not neg_member:
            return False
        marked = any(isinstance(t.comparators[0], ast.Name) and t.comparators[0].id in via_marks.get(id(c), ()) for t in neg_member)
        for a in facts.calls_named(f, 'add'):
            an = cfg.node_containing(a)
            if an is not None and cfg.dominates(an, cn) and any(isinstance(t.comparators[0], ast.Name) and isinstance(a.func.value, ast.Name)
                                                                   and t.comparators[0].id == a.func.value.id for t in neg_member):
                marked = True
        if not marked:
            return False
    return True


# ======================================================================================================================
def memo(ctx, o):
    for S in BOTH:
        ps = PassShape(ctx, S)
        f, cfg = ps.f, ps.cfg
        first = [s_ for s_ in f.body if not (isinstance(s_, ast.Expr) and isinstance(s_.value, ast.Constant))][0]
        sc = ps.memo_shortcut()
        if sc is None:
            o.refute(f, first, first, "the pass does not start with `if task.id in memo: return`")
            continue
        if sc[0] == 'late':
            o.refute(f, first, first, "the pass does not start with `if task.id in memo: return`: statements with effects run before the "
                                      "memo is tested")
            continue
        skip = ps.memo_skip_nodes()
        if not skip:
            o.undecided(f, sc[1], sc[1], "memo shortcut found but its exit could not be located in the control flow graph")
            continue
        apps = [c for c in facts.calls_named(f, 'append') + facts.calls_named(f, 'add')
                if match(f"{ps.memo}.append({ps.task}.id)", c) or match(f"{ps.memo}.add({ps.task}.id)", c)]
        if not apps:
            o.refute(f, f.node, 'memo.append', "the pass never records the task in the memo")
            continue
        app_ids = {cfg.node_containing(c).id for c in apps}
        # every path from entry to the normal exit passes an append (except the memo shortcut)
        avoid = app_ids | set(skip)
        seen, todo, leak = set(), [cfg.entry], False
        while todo:
            n = todo.pop()
            if n.id in seen or n.id in avoid:
                continue
            seen.add(n.id)
            if n is cfg.exit:
                leak = True
                break
            todo.extend(n.succ)
        if leak:
            o.refute(f, apps[0], apps[0], "a normal exit of the pass does not record the task in the memo: it can be scheduled twice")
        else:
            o.site(f, apps[0], "memo test first, memo append on every normal exit")


def _walk_skipped_when(prog, ctx, f, loop_stmt):
    """text of the path condition under which _check_loops does not reach its walk (an early return / an enclosing if), or None.
    Tests that only say `the WBS has tasks` are not a restriction."""
    out = []
    for t, p in facts.node_conditions(prog, f, loop_stmt, ctx.typer, expand=True):
        em = sched.is_emptiness(t, p)
        if em is None:
            core, pol = t, p
            while isinstance(core, ast.UnaryOp) and isinstance(core.op, ast.Not):
                core, pol = core.operand, not pol
            em = (core, not pol) if isinstance(core, ast.Attribute) else None
        if em is not None and not em[1] and (match(f"{f.params[0]}.tasks", sched.strip_seq_copy(em[0])) or
                                             match(f"{f.params[0]}.roots", sched.strip_seq_copy(em[0]))):
            continue
        out.append(('' if p else 'not ') + src(t))
    return ' and '.join(out) if out else None


def loop_check(ctx, o):
    prog = ctx.prog
    f = prog.func('schedule._check_loops')
    g = prog.funcs.get('schedule._check_loops_from_task')
    inline = False
    if g is None:
        # the search from one task written inside _check_loops itself: `for task in project.tasks: <iterative DFS>`
        whiles = [w for w in walk_no_nested(f.node) if isinstance(w, ast.While)]
        if not whiles:
            g = prog.func('schedule._check_loops_from_task')       # AnchorMissing
        g, inline = f, True
    # fresh state per call: the shared set is allocated inside _check_loops
    a = f.node.args
    if a.defaults or a.kw_defaults and any(d is not None for d in a.kw_defaults):
        o.refute(f, f.node, 'default argument', "_check_loops keeps state in a default argument: tasks validated in one call are skipped "
                                                 "in later calls, so a loop closed afterwards is not diagnosed")
        return
    if len(f.params) != 1:
        o.refute(f, f.node, 'parameters', "_check_loops takes state from its caller")
        return
    ex = Expander(prog, f, ctx.typer)
    calls = facts.calls_named(f, g.name) if not inline else []
    if inline:
        for w in [w for w in walk_no_nested(f.node) if isinstance(w, ast.While)]:
            fors = cfg_of(f).enclosing_fors(cfg_of(f).node_of(w))
            fit = sched.strip_seq_copy(ex.expand(fors[0].iter, cfg_of(f).node_of(fors[0]))) if fors else None
            if not fors or not match(f"{f.params[0]}.tasks", fit):
                o.refute(f, w, w.test, f"the loop check does not start from every task of the WBS ({f.params[0]}.tasks)")
                continue
            skip = _walk_skipped_when(prog, ctx, f, fors[0])
            if skip:
                o.refute(f, fors[0], 'walk skipped', f"the loop check walks the graph only when `{skip[:90]}` and returns otherwise")
                continue
            # every container the search tests membership in is allocated by this call
            marks = {x.comparators[0].id for x in walk_no_nested(f.node) if isinstance(x, ast.Compare) and len(x.ops) == 1 and
                     isinstance(x.ops[0], (ast.In, ast.NotIn)) and isinstance(x.comparators[0], ast.Name)}
            fl_ = flow_of(f)
            stale = [m_ for m_ in marks if not fl_.defs_of(m_) or any(d.kind != 'assign' or d.value is None or not (
                match("set()", d.value) or match("[]", d.value) or match("{}", d.value) or isinstance(d.value, (ast.Set, ast.List, ast.Dict)))
                for d in fl_.defs_of(m_))]
            if stale:
                o.refute(f, w, stale[0], f"the loop check keeps `{stale[0]}` outside this call")
            else:
                o.site(f, w, "from every task, state allocated by this call")
    elif not calls:
        o.refute(f, f.node, g.name, "_check_loops never walks the graph")
        return
    for c in calls:
        fo = sched.for_loop_of(f, c)
        fit = sched.strip_seq_copy(ex.expand(fo.iter, cfg_of(f).node_of(fo))) if fo is not None else None
        if fo is None or not match(f"{f.params[0]}.tasks", fit):
            o.refute(f, c, c, f"the loop check does not start from every task of the WBS ({f.params[0]}.tasks)")
            continue
        skip = _walk_skipped_when(prog, ctx, f, fo)
        if skip:
            o.refute(f, fo, 'walk skipped', f"the loop check walks the graph only when `{skip[:90]}` and returns otherwise: a cycle in a WBS for which "
                                            f"that test fails is not diagnosed and the passes recurse until RecursionError")
            continue
        shared = [ex.expand(x) for x in c.args[1:]]
        if not shared or not all(match("set()", x) or match("{}", x) or match("[]", x) or match("dict()", x) for x in shared):
            o.refute(f, c, c, "the loop check does not run on state allocated by this call")
            continue
        o.site(f, c, "from every task, fresh validated set")
    # edge kinds: recognise either the wait-for graph (nested `waits_for`) ...
    wf = prog.funcs.get(g.qual + '.waits_for')
    if wf is None:
        # the successor function is whatever g iterates: iter(<h>(node)) with h a nested or module-level function
        exg = Expander(prog, g, ctx.typer, inline=False)
        cands = set()
        for c in facts.calls_named(g, 'iter'):
            if len(c.args) == 1 and isinstance(c.args[0], ast.Call):
                h = exg._single_target(c.args[0])
                if h is None and isinstance(c.args[0].func, ast.Name):
                    h = prog.funcs.get(g.qual + '.' + c.args[0].func.id) or prog.funcs.get(g.module + '.' + c.args[0].func.id)
                if h is not None and len(h.params) == 1:
                    cands.add(h)
        if len(cands) == 1:
            wf = cands.pop()
    if wf is None:
        # ... or the historical predecessor-only DFS
        rec = [c for c in facts.calls_named(g, g.name)]
        kinds = set()
        for c in rec:
            fo = sched.for_loop_of(g, c)
            if fo is not None and isinstance(fo.iter, ast.Attribute):
                kinds.add(fo.iter.attr)
        if kinds and 'children' not in kinds:
            o.refute(g, g.node, 'edge kinds', f"the loop check only follows {sorted(kinds)} while the passes also recurse into children and "
                                              f"inherit dependencies of ancestors: a cycle closed through the hierarchy ends in RecursionError")
        else:
            o.undecided(g, g.node, 'edge kinds', "loop check written in an unrecognised form")
        return
    tp = wf.params[0]
    # unpack `_task, is_end = node`
    names = None
    for n in walk_no_nested(wf.node):
        if isinstance(n, ast.Assign) and isinstance(n.targets[0], ast.Tuple) and len(n.targets[0].elts) == 2 and \
                isinstance(n.value, ast.Name) and n.value.id == tp:
            names = [e.id for e in n.targets[0].elts]
    node_cls = None
    if names is None and wf.kind == 'method' and wf.cls and wf.cls in prog.classes:
        # the nodes are instances of a two-field record class (NamedTuple / dataclass) and the successor function is one of its
        # methods: `self.task` / `self.is_end` are the two components, `_Node(x, True)` builds a node
        ci = prog.classes[wf.cls]
        flds = [s_.target.id for s_ in ci.node.body if isinstance(s_, ast.AnnAssign) and isinstance(s_.target, ast.Name)]
        if len(flds) == 2 and ('NamedTuple' in ci.bases or ci.dataclass_frozen is not None) and '__init__' not in ci.methods and \
                '__new__' not in ci.methods:
            names = [f"{tp}.{flds[0]}", f"{tp}.{flds[1]}"]
            node_cls = (ci.name, flds)
    if names is None:
        o.undecided(wf, wf.node, 'waits_for', "node is not unpacked as (task, is_end)")
        return

    def _is(e, name):
        return isinstance(e, (ast.Name, ast.Attribute)) and src(e) == name

    def node_elts(n):
        """[task expression, flag expression] of an expression that builds a node: a 2-tuple, or a call of the record class"""
        if isinstance(n, ast.Tuple) and len(n.elts) == 2:
            return list(n.elts)
        if node_cls is not None and isinstance(n, ast.Call) and isinstance(n.func, ast.Name) and n.func.id == node_cls[0] and \
                not any(isinstance(a_, ast.Starred) for a_ in n.args) and all(k_.arg in node_cls[1] for k_ in n.keywords):
            vals = dict(zip(node_cls[1], n.args))
            vals.update({k_.arg: k_.value for k_ in n.keywords})
            if len(vals) == 2 and len(n.args) + len(n.keywords) == 2:
                return [vals[node_cls[1][0]], vals[node_cls[1][1]]]
        return None
    found = {'end->start': False, 'end->children': False, 'start->pred': False, 'start->parent': False}
    narrowed, unknown, opaque = {}, [], []
    BUILTIN = ('iter', 'list', 'tuple', 'len', 'id', 'reversed', 'sorted', 'set', 'range', 'enumerate', 'zip', 'str', 'isinstance')

    def analyse(fn, tv, ev, forced_side, outer_extra, depth):
        """classify every node tuple built by fn (task variable tv; ev = the is_end flag, or None when the whole function
        belongs to forced_side); follows calls `h(tv)` of sibling helpers"""
        exw = Expander(prog, fn, ctx.typer)
        wcfg = cfg_of(fn)
        stmts = [st for st in walk_no_nested(fn.node) if isinstance(st, (ast.Return, ast.Assign, ast.AugAssign, ast.Expr))
                 and not isinstance(getattr(st, 'value', None), ast.Constant)]

        def conds_of(st, node):
            cs = list(facts.node_conditions(prog, fn, st, ctx.typer, expand=True))
            cs += eval_conditions(st, node) or []
            return [(a_, q_) for t_, p_ in cs for a_, q_ in facts.split_conj(t_, p_)]

        def side_of(st, node):
            if ev is None:
                return forced_side
            flag = None
            for a_, q_ in conds_of(st, node):
                a2, q2 = facts.norm_cond(a_, q_)
                while isinstance(a2, ast.UnaryOp) and isinstance(a2.op, ast.Not):
                    a2, q2 = a2.operand, not q2
                if _is(a2, ev):
                    flag = q2
            return 'end' if flag is True else 'start'

        def seq_x(e, stmt):
            at = wcfg.node_of(stmt) or wcfg.node_containing(stmt)
            return sched.strip_seq_copy(exw.expand(e, at) if at is not None else e)

        def source_of(tup):
            for root in stmts:
                for n in ast.walk(root):
                    if isinstance(n, (ast.ListComp, ast.GeneratorExp)) and n.elt is tup and len(n.generators) == 1:
                        g_ = n.generators[0]
                        return ast.comprehension(target=g_.target, iter=seq_x(g_.iter, root), ifs=g_.ifs, is_async=0)
            best = None
            for fo in walk_no_nested(fn.node):
                if isinstance(fo, ast.For) and any(x is tup for st_ in fo.body for x in ast.walk(st_)):
                    best = fo
            if best is not None:
                return ast.comprehension(target=best.target, iter=seq_x(best.iter, best), ifs=[], is_async=0)
            return None

        def elem_x(tup):
            e = node_elts(tup)[0]
            if isinstance(e, ast.Name) and e.id != tv:
                at = wcfg.node_containing(tup)
                d = flow_of(fn).unique_def(e.id, at) if at is not None else None
                if d is not None and d.kind == 'assign' and d.value is not None:
                    return exw.expand(e, at)
            return e

        def extra_conditions(st, node, allowed, allowed_seqs):
            out = []
            for a_, q_ in conds_of(st, node):
                a2, q2 = facts.norm_cond(a_, q_)
                core = a2
                while isinstance(core, ast.UnaryOp) and isinstance(core.op, ast.Not):
                    core, q2 = core.operand, not q2
                if ev is not None and _is(core, ev):
                    continue
                if any(facts.cond_is(a_, q_, pat, want=w) for pat, w in allowed):
                    continue
                em = sched.is_emptiness(a_, q_)
                if em is not None and not em[1] and any(same(em[0], x) for x in allowed_seqs):
                    continue
                out.append(('' if q_ else 'not ') + src(a_))
            return out

        for st in stmts:
            for n in ast.walk(st):
                ne = node_elts(n)
                if ne is not None and isinstance(n, ast.Call) and not (isinstance(ne[1], ast.Constant) and isinstance(ne[1].value, bool)):
                    unknown.append(n)          # a node of the record class whose side is not a literal
                elif ne is not None and isinstance(ne[1], ast.Constant) and isinstance(ne[1].value, bool):
                    tup, side = n, side_of(st, n)
                    gen = source_of(tup)
                    tgt, flag = elem_x(tup), ne[1].value
                    kind, allowed, allowed_seqs = None, [], []
                    if gen is None:
                        if side == 'end' and _is(tgt, tv) and flag is False:
                            kind = 'end->start'
                        elif side == 'start' and match(f"{tv}.parent", tgt) and flag is False:
                            kind, allowed = 'start->parent', [(f"{tv}.parent is None", False), (f"{tv}.parent", True)]
                    elif isinstance(gen.target, ast.Name) and isinstance(tgt, ast.Name) and tgt.id == gen.target.id and flag is True:
                        if side == 'end' and match(f"{tv}.children", gen.iter):
                            kind = 'end->children'
                        elif side == 'start' and match(f"{tv}.predecessors", gen.iter):
                            kind = 'start->pred'
                        allowed_seqs = [gen.iter]
                    if kind is None:
                        unknown.append(tup)
                        continue
                    extra = list(outer_extra) + extra_conditions(st, tup, allowed, allowed_seqs)
                    if gen is not None and gen.ifs:
                        extra = [' and '.join(src(c_) for c_ in gen.ifs)] + extra
                    extra = list(dict.fromkeys(extra))
                    if extra:
                        narrowed.setdefault(kind, extra)
                    else:
                        found[kind] = True
                elif isinstance(n, ast.Call) and isinstance(n.func, ast.Name) and n.func.id not in BUILTIN and n.func.id != fn.name:
                    h = prog.funcs.get(g.qual + '.' + n.func.id) or prog.funcs.get(fn.qual + '.' + n.func.id) or \
                        prog.funcs.get(f"{fn.module.name}.{n.func.id}")
                    if h is None or isinstance(h.node, ast.Lambda):
                        continue
                    if depth < 3 and len(n.args) == 1 and not n.keywords and isinstance(n.args[0], ast.Name) and n.args[0].id == tv and \
                            len(h.params) == 1:
                        analyse(h, h.params[0], None, side_of(st, n), list(outer_extra) + extra_conditions(st, n, [], []), depth + 1)
                    else:
                        opaque.append(n)
        opaque.extend(n for n in walk_no_nested(fn.node) if isinstance(n, (ast.Yield, ast.YieldFrom)))

    analyse(wf, names[0], names[1], None, [], 0)
    for k, v in found.items():
        if v:
            o.site(wf, wf.node, f"edge {k}")
        elif k in narrowed:
            o.refute(wf, wf.node, f"edge {k}", f"the wait-for graph of the loop check follows the edge kind {k} only when `{' and '.join(narrowed[k])[:90]}`: "
                                               f"the passes recurse over it unconditionally, so a cycle through an edge that fails this test ends "
                                               f"in RecursionError instead of RuntimeError")
        elif unknown or opaque:
            o.undecided(wf, wf.node, f"edge {k}", f"edge kind {k} not found, but the function builds nodes the rule does not understand "
                                                  f"(`{src((unknown or opaque)[0])[:50]}`)")
        else:
            o.refute(wf, wf.node, f"edge {k}", f"the wait-for graph of the loop check lacks the edge kind {k}: the passes recurse over it, so a "
                                               f"cycle through it ends in RecursionError instead of RuntimeError")
    # on-path detection raises RuntimeError
    gs = facts.guards_of(prog, g, ctx.typer, inline=False)
    hit = [x for x in gs if x.exc == 'RuntimeError' and any(isinstance(t, ast.Compare) and isinstance(t.ops[0], ast.In) and p
                                                           for t, p in x.conds)]
    if hit:
        o.site(g, hit[0].node, "RuntimeError when the next node is on the current path")
    else:
        o.refute(g, g.node, 'cycle raise', "the loop check never raises RuntimeError for a node that is already on the current path")


# ======================================================================================================================
def _nonzero_by(t, pol, D):
    """does the path condition (t, pol) prove the expression D non-zero?"""
    while isinstance(t, ast.UnaryOp) and isinstance(t.op, ast.Not):
        t, pol = t.operand, not pol
    if same(t, D):
        return pol                       # truthiness of a number: `if d:`
    if isinstance(t, ast.Compare) and len(t.ops) == 1:
        l, op, r = t.left, t.ops[0], t.comparators[0]
        if same(r, D) and facts.const_num(l) == 0:
            l, r = r, l
            op = {ast.Lt: ast.Gt, ast.Gt: ast.Lt, ast.LtE: ast.GtE, ast.GtE: ast.LtE}.get(type(op), type(op))()
        if same(l, D) and facts.const_num(r) == 0:
            if isinstance(op, ast.NotEq):
                return pol
            if isinstance(op, ast.Eq):
                return not pol
            if isinstance(op, (ast.Gt, ast.Lt)):
                return pol
            if isinstance(op, (ast.LtE, ast.GtE)):
                return not pol           # not (d <= 0)  ->  d > 0
    return False


def calendar_divisions(ctx, o, reach):
    """divisions inside the library's calendar classes that calc reaches through Resource.get_available_units"""
    prog = ctx.prog
    # functions the library itself wraps around a calendar (`self.apply(lambda units: ..)` / `FuncCalendar(cal, lambda ..)`): FuncCalendar
    # hands them the raw answer of the wrapped calendar, None for a date it does not cover - arithmetic on it is a TypeError
    for f in [g for g in prog.all_funcs() if g.module.name == 'calendar' and not isinstance(g.node, ast.Lambda)]:
        for n in walk_no_nested(f.node):
            lam = None
            if isinstance(n, ast.Call) and isinstance(n.func, ast.Attribute) and n.func.attr == 'apply' and len(n.args) == 1 and \
                    isinstance(n.args[0], ast.Lambda):
                lam = n.args[0]
            elif isinstance(n, ast.Call) and isinstance(n.func, ast.Name) and n.func.id == 'FuncCalendar' and len(n.args) == 2 and \
                    isinstance(n.args[1], ast.Lambda):
                lam = n.args[1]
            if lam is None or len(lam.args.args) != 1:
                continue
            p_ = lam.args.args[0].arg
            for x in ast.walk(lam.body):
                if isinstance(x, (ast.BinOp, ast.Compare)) and any(isinstance(y, ast.Name) and y.id == p_ for y in
                                                                  ([x.left, x.right] if isinstance(x, ast.BinOp) else [x.left] + x.comparators)):
                    if isinstance(x, ast.Compare) and all(isinstance(op_, (ast.Is, ast.IsNot)) for op_ in x.ops):
                        continue
                    ec = eval_conditions(lam.body, x) or []
                    if any(facts.cond_is(t_, q_, f"{p_} is None", want=False) or facts.cond_is(t_, q_, p_, want=True) for t_, q_ in ec):
                        continue
                    o.refute(f, n, x, f"`{src(n)[:70]}`: the library wraps the calendar in a function that computes `{src(x)[:40]}` on the wrapped "
                                      f"calendar's answer; FuncCalendar passes None for a date the calendar does not cover: TypeError leaves "
                                      f"get_available_units and calc")
                    break
    fs = [f for f in reach if f.module.name == 'calendar' and not isinstance(f.node, ast.Lambda)]
    if not any(f.name == 'get_available_units' for f in fs):
        o.undecided(prog.func(BOTH[0]['calc']), None, 'calendar', "no calendar get_available_units in the reach of calc: interface dispatch not resolved")
        return
    # procedures nested in those functions (an operator handed to a folding helper) run on the same path
    quals = {f.qual for f in fs}
    fs = fs + [g for g in prog.all_funcs() if g.module.name == 'calendar' and not isinstance(g.node, ast.Lambda) and g.qual not in quals
               and any(g.qual.startswith(q + '.') for q in quals)]
    for f in fs:
        for n in walk_no_nested(f.node):
            if isinstance(n, ast.BinOp) and isinstance(n.op, (ast.Div, ast.FloorDiv, ast.Mod)):
                D = n.right
            elif isinstance(n, ast.AugAssign) and isinstance(n.op, (ast.Div, ast.FloorDiv, ast.Mod)):
                D = n.value
            elif isinstance(n, ast.Call) and len(n.args) == 2 and (
                    (isinstance(n.func, ast.Attribute) and isinstance(n.func.value, ast.Name) and n.func.value.id == 'operator' and
                     n.func.attr in ('truediv', 'itruediv', 'floordiv', 'ifloordiv', 'mod', 'imod')) or
                    (isinstance(n.func, ast.Name) and n.func.id in ('truediv', 'itruediv', 'floordiv', 'ifloordiv'))):
                D = n.args[1]            # the division spelled as a function of the operator module
            else:
                continue
            if isinstance(n, ast.BinOp) and isinstance(n.left, (ast.Constant, ast.JoinedStr)) and isinstance(getattr(n.left, 'value', None), str):
                continue                 # '%' string formatting
            if facts.const_num(D) not in (None, 0):
                o.site(f, n, f"constant divisor {src(D)}")
                continue
            conds = facts.node_conditions(prog, f, n, ctx.typer, expand=False)
            if any(_nonzero_by(t, p, D) for t, p in conds):
                o.site(f, n, f"divisor `{src(D)}` tested against zero on every path to the division")
            else:
                o.refute(f, n, f"division by {src(D)}",
                         f"`{src(n)[:60]}`: nothing on the way to this division excludes `{src(D)}` == 0 (an operand calendar answers 0 on its "
                         f"days off): ZeroDivisionError leaves get_available_units and calc")


def divisions(ctx, o, core):
    prog = ctx.prog
    for f in core:
        if isinstance(f.node, ast.Lambda):
            continue
        S = next((s for s in BOTH if f.qual.startswith('schedule.' + s['cls'] + '.')), None)
        fl = flow_of(f)
        cfg = fl.cfg
        ex = Expander(prog, f, ctx.typer)
        for n in walk_no_nested(f.node):
            if not (isinstance(n, ast.BinOp) and isinstance(n.op, (ast.Div, ast.FloorDiv, ast.Mod))):
                continue
            if facts.const_num(n.right) not in (None, 0):
                o.site(f, n, f"constant divisor {src(n.right)}")
                continue
            cn = cfg.node_containing(n)
            if S is None:
                o.refute(f, n, n, f"division by `{src(n.right)}` with no proof that the divisor is non-zero")
                continue
            D = n.right
            Dx = ex.expand(D, cn)
            # (i) dominated by  (D - RESV) > 0
            conds = list(facts.node_conditions(prog, f, n, ctx.typer))
            if cn is not None and cn.ast is not None:
                # `(1 - free / CAP) if free > 0 else None`: the guard is the test of the enclosing conditional expression
                root = cn.ast.test if isinstance(cn.ast, (ast.If, ast.While)) else cn.ast
                for t_, p_ in (eval_conditions(root, n) or []):
                    conds += facts.split_conj(ex.expand(t_, cn), p_)
            ok = False
            for t, p in conds:
                st = sched.sign_test(t, p)
                if st and st[1] == '>':
                    fr = parse_free(st[0], S['balance'])
                    if fr and same(fr['cap']['node'], Dx):
                        ok = True
            if ok:
                o.site(f, n, f"{src(D)} > RESV >= 0 by dominating `free > 0`")
                continue
            # (ii) loop-exit inference
            msg = _loop_exit_divisor(ctx, f, n, D, S)
            if msg is True:
                o.site(f, n, f"{src(D)} > 0 by loop-exit inference (last iteration booked under free > 0)")
            elif isinstance(msg, tuple):
                # the loop around the division is written in a form the inference does not follow: no proof, but no wrong construct either
                o.undecided(f, n, n, f"division by `{src(D)}`: {msg[1]}")
            else:
                o.refute(f, n, n, f"division by `{src(D)}`: {msg}")


def _above_nonneg_const(t, p):
    """`x > c` / `c < x` with a constant c >= 0 (polarity true) implies x > 0: reported like sign_test as (x, '>')"""
    while isinstance(t, ast.UnaryOp) and isinstance(t.op, ast.Not):
        t, p = t.operand, not p
    if isinstance(t, ast.Compare) and len(t.ops) == 1:
        l, op, r = t.left, t.ops[0], t.comparators[0]
        rc, lc = facts.const_num(r), facts.const_num(l)
        if p and rc is not None and rc >= 0 and isinstance(op, (ast.Gt,)):
            return l, '>'
        if p and rc is not None and rc > 0 and isinstance(op, ast.GtE):
            return l, '>'
        if p and lc is not None and lc >= 0 and isinstance(op, ast.Lt):
            return r, '>'
        if not p and rc is not None and rc >= 0 and isinstance(op, ast.LtE):
            return l, '>'
    return None


def _loop_exit_divisor(ctx, f, node, D, S):
    prog = ctx.prog
    if f.qual != S['fill']:
        return "divisor not proved non-zero"
    fl = flow_of(f)
    cfg = fl.cfg
    rc = sched.reserve_calls(ctx, f)
    if len(rc) != 1:
        if rc:
            return ('undecided', "no single booking site to infer from")
        # the booking may sit in a helper the fill delegates to (not inlined by the normaliser): not followed, not refuted
        exf = Expander(prog, f, ctx.typer, inline=False)
        for call in [x for x in walk_no_nested(f.node) if isinstance(x, ast.Call)]:
            g = exf._single_target(call)
            if g is not None and g is not f and not isinstance(g.node, ast.Lambda) and sched.reserve_calls(ctx, g):
                return ('undecided', f"the booking is made inside {g.qual}, which the rule does not follow")
        return "divisor not proved non-zero"
    c = rc[0]
    loop = sched.while_loop_of(f, c)
    if loop is None:
        return ('undecided', "booking not in a while loop")
    cn = cfg.node_containing(node)
    if any(x is node for st in loop.body for x in ast.walk(st)):
        return "division inside the loop without a dominating free > 0"
    left_p = f.params[5]
    ex0 = Expander(prog, f, ctx.typer)
    st = sched.sign_test(loop.test)
    guard_eps = 0
    if st is None:
        # `while remaining > eps` with a constant tolerance eps > 0 (possibly a folded module constant)
        lt = ex0.expand(loop.test, cfg.node_of(loop)) if cfg.node_of(loop) is not None else loop.test
        st = _above_nonneg_const(lt, True)
        if st is not None:
            cmp_ = lt
            while isinstance(cmp_, ast.UnaryOp):
                cmp_ = cmp_.operand
            vals = [facts.const_num(cmp_.left), facts.const_num(cmp_.comparators[0])]
            guard_eps = next((v for v in vals if v is not None), 0)
    gvar = st[0].id if st and st[1] == '>' and isinstance(st[0], ast.Name) else None
    if gvar is not None and gvar != left_p:
        # a local copy of the parameter made before the loop (`remaining = left_hours`, e.g. left behind by helper inlining)
        copies = [d for d in fl.defs_of(gvar) if d.kind != 'aug']
        if not (len(copies) == 1 and copies[0].kind == 'assign' and isinstance(copies[0].value, ast.Name) and copies[0].value.id == left_p
                and cfg.dominates(copies[0].node, cfg.node_of(loop)) and not [d for d in fl.defs_of(left_p) if d.kind != 'param']):
            gvar = None
    if gvar is None:
        return ('undecided', "loop guard is not `remaining > 0`")
    # only update of remaining is the booking statement
    defs = [d for d in fl.defs_of(gvar) if d.kind not in ('param', 'assign') or gvar == left_p and d.kind != 'param']

    def via_working_copy(d):
        """`w = remaining; [if free > 0:] w -= reserve(..); remaining = w` inside one iteration (a spliced one-day helper): the
        update of remaining is still exactly the booking"""
        if d.kind != 'assign' or not isinstance(d.value, ast.Name) or not in_loop_node(d.node):
            return False
        wdefs = fl.defs_of(d.value.id)
        copies = [x for x in wdefs if x.kind == 'assign']
        augs = [x for x in wdefs if x.kind == 'aug']
        return len(copies) == 1 and isinstance(copies[0].value, ast.Name) and copies[0].value.id == gvar and in_loop_node(copies[0].node) and \
            cfg.dominates(copies[0].node, d.node) and len(augs) == 1 and books(augs[0].stmt.value) and isinstance(augs[0].stmt.op, ast.Sub) and \
            len(copies) + len(augs) == len(wdefs)

    lhdr = cfg.node_of(loop)

    def in_loop_node(n_):
        return n_ is not None and lhdr is not None and cfg.can_reach(lhdr, n_) and cfg.can_reach(n_, lhdr)
    def books(v):
        """the subtracted amount is the booking, or `booking if free > 0 else 0` (nothing is subtracted on a full day)"""
        if v is c:
            return True
        if isinstance(v, ast.IfExp):
            a, b = v.body, v.orelse
            return (a is c and facts.const_num(b) == 0) or (b is c and facts.const_num(a) == 0)
        if isinstance(v, ast.Name) and v.id not in f.params:
            # `booked = reserve(..)` under free > 0, `booked = 0` otherwise; `remaining -= booked`
            bd = fl.defs_of(v.id)
            return bool(bd) and all(x.kind == 'assign' and (x.value is c or facts.const_num(x.value) == 0) for x in bd) and \
                any(x.value is c for x in bd) and all(in_loop_node(x.node) for x in bd)
        return False
    if not defs or any(not ((d.kind == 'aug' and isinstance(d.stmt.op, ast.Sub) and books(d.stmt.value)) or via_working_copy(d)) for d in defs):
        return ('undecided', "the remaining work is updated elsewhere than at the booking")
    rnode = cfg.node_containing(c)
    # booking dominated by V - RESV > 0 where V is the divisor (same value)
    ex = Expander(prog, f, ctx.typer)
    # a cursor stepped by `d = d - DAY` must stay an atom: expanding it inside the loop would name the previous day
    selfref = {d.var for d in fl.defs if d.kind == 'assign' and d.value is not None and
               any(isinstance(x, ast.Name) and x.id == d.var for x in ast.walk(d.value))}
    if len(c.args) > 1 and isinstance(c.args[1], ast.Name):
        selfref = set(selfref) | {c.args[1].id}      # the day cursor of the booking stays an atom however it is computed
    conds = []
    for t, pol in cfg.conditions(rnode):
        conds += facts.split_conj(ex.expand(t, cfg.node_containing(t), stop=selfref), pol)
    if rnode is not None and rnode.ast is not None:
        for t, pol in (eval_conditions(rnode.ast, c) or []):       # `booking if free > 0 else 0`
            conds += facts.split_conj(ex.expand(t, rnode, stop=selfref), pol)
    cap_of_booking = None
    for t, p in conds:
        s2 = sched.sign_test(t, p) or _above_nonneg_const(t, p)
        if s2 and s2[1] == '>':
            fr = parse_free(s2[0], S['balance'])
            if fr:
                cap_of_booking = fr['cap']
    if cap_of_booking is None:
        loop_conds = cfg.conditions(cfg.node_of(loop)) if cfg.node_of(loop) is not None else []
        own = [c_ for c_ in cfg.conditions(rnode) if not any(c_[0] is l_[0] for l_ in loop_conds) and c_[0] is not loop.test]
        for t_, p_ in own:
            s3 = sched.sign_test(ex.expand(t_, cfg.node_containing(t_), stop=selfref), p_)
            if s3 and s3[1] != '>' and parse_free(s3[0], S['balance']):
                return f"the booking is guarded by `free {s3[1]} 0`, which does not exclude a day without capacity"
        if own or (rnode is not None and rnode.ast is not None and eval_conditions(rnode.ast, c)):
            # the booking is conditional, but not on a test the rule can read as `capacity - reserved > 0`
            return ('undecided', f"the booking is guarded by `{src(own[0][0])[:60] if own else '..'}`, which the rule cannot read as free > 0")
        return "the booking is not guarded by free > 0"
    Dx = ex.expand(D, cn, stop=selfref)
    capD = parse_cap(Dx)
    if capD is None and isinstance(Dx, ast.Name) and not isinstance(D, ast.Name):
        D = Dx
    if capD is None and isinstance(D, ast.Name):
        if isinstance(Dx, ast.Name) and Dx.id != D.id:
            D = Dx           # `date, cap = (date_i, cap_i)` after the loop: the divisor is an alias of the loop's capacity variable
        def cap_of_def(d):
            if d.kind != 'assign' or d.value is None:
                return None
            return parse_cap(d.value) or (parse_cap(ex.expand(d.value, d.node, stop=selfref)) if d.node is not None else None)
        ds = [d for d in fl.defs_of(D.id) if cap_of_def(d)]
        others = [d for d in fl.defs_of(D.id) if d not in ds]
        if len(ds) == 1 and all(d.kind == 'assign' and isinstance(d.value, ast.Constant) for d in others):
            capD = cap_of_def(ds[0])
    if capD is None or not (same(capD['r'], cap_of_booking['r']) and same(capD['d'], cap_of_booking['d'])):
        return "the divisor is not the capacity that was tested `free > 0` at the last booking"
    dpath = attr_path(capD['d'])
    entry = cfg.loop_entry_branch(loop)
    if dpath and not fl.no_def_between(dpath, rnode, cn, {entry.id} if entry else None):
        return "the day is stepped between the last booking and the division"
    # at least one iteration: `== 0` shortcut + every caller passes max(.., 0)
    zero = False
    for n in walk_no_nested(f.node):
        if isinstance(n, ast.If) and (match(f"{left_p} == 0", n.test) or match(f"{left_p} <= 0", n.test)) and \
                any(isinstance(x, ast.Return) for x in n.body) and cfg.dominates(cfg.node_of(n), cfg.node_of(loop)):
            zero = 'le' if match(f"{left_p} <= 0", n.test) else 'eq'
        elif isinstance(n, ast.If) and any(isinstance(x, ast.Return) for x in n.body) and cfg.node_of(n) is not None and \
                cfg.dominates(cfg.node_of(n), cfg.node_of(loop)):
            tx_ = ex0.expand(n.test, cfg.node_of(n))
            m_ = match(f"{left_p} <= $c", tx_) or match(f"{left_p} < $c", tx_)
            if m_ and facts.const_num(m_['c']) is not None and facts.const_num(m_['c']) >= 0 and not (match(f"{left_p} < $c", tx_) and facts.const_num(m_['c']) == 0):
                zero = 'le'          # `if remaining <= eps: return`
            else:
                g_ = _above_nonneg_const(tx_, False)
                if g_ is not None and isinstance(g_[0], ast.Name) and g_[0].id == left_p:
                    zero = 'le'      # `if not remaining > eps: return`
    if not zero:
        return "no `remaining == 0` shortcut before the loop: with zero work the loop is skipped and the divisor is arbitrary"
    if guard_eps > 0:
        # the loop only runs for remaining > eps: the shortcut must take everything up to eps, not just 0
        covered = False
        for n in walk_no_nested(f.node):
            if isinstance(n, ast.If) and any(isinstance(x, ast.Return) for x in n.body) and cfg.dominates(cfg.node_of(n), cfg.node_of(loop)):
                tx = ex0.expand(n.test, cfg.node_of(n))
                m_ = match(f"{left_p} <= $c", tx) or match(f"{left_p} < $c", tx)
                if m_ and facts.const_num(m_['c']) is not None and facts.const_num(m_['c']) >= guard_eps:
                    covered = True
                g_ = _above_nonneg_const(tx, False)
                if g_ is not None and isinstance(g_[0], ast.Name) and g_[0].id == left_p:
                    covered = covered or same(tx, ex0.expand(loop.test, cfg.node_of(loop)))
        if not covered:
            return (f"the loop runs only while `{src(loop.test)}` (tolerance {guard_eps:g}) but the shortcut in front of it returns only for "
                    f"remaining == 0: a remaining work in (0, {guard_eps:g}] skips the loop and the division uses an arbitrary (possibly zero) capacity")
    if zero == 'eq':
        pf = prog.func(S['pass_'])
        exp = Expander(prog, pf, ctx.typer)
        for call in facts.calls_named(pf, f.name):
            w = exp.expand(call.args[4]) if len(call.args) > 4 else None
            args = facts.flatten_lattice(w, 'max') if w is not None else None
            if not args or not any(facts.const_num(a) == 0 for a in args):
                return (f"the caller passes remaining = `{src(w) if w is not None else '?'}` which can be negative: it slips past the "
                        f"`== 0` shortcut, the loop is skipped and the division uses an arbitrary (possibly zero) capacity")
    return True


def extrema(ctx, o, core):
    prog = ctx.prog
    for f in core:
        if isinstance(f.node, ast.Lambda):
            continue
        S = next((s for s in BOTH if f.qual == s['pass_']), None)
        fl = flow_of(f)
        for n in walk_no_nested(f.node):
            if not (isinstance(n, ast.Call) and isinstance(n.func, ast.Name) and n.func.id in ('max', 'min')):
                continue
            if len(n.args) != 1:
                o.site(f, n, f"{n.func.id} of {len(n.args)} arguments")
                continue
            if any(k.arg == 'default' for k in n.keywords):
                o.site(f, n, f"{n.func.id}(.., default=..) has an answer for the empty sequence")
                continue
            seq = n.args[0]
            if _has_literal_element(seq):
                o.site(f, n, "sequence concatenated with a literal element")
                continue
            cn = fl.node_of_expr(n)
            # expression-level guard: max(x) if x else ...
            root = cn.ast if cn is not None else None
            ec = eval_conditions(root.test if isinstance(root, (ast.If, ast.While)) else root, n) if root is not None else None
            if ec and any((sched.is_emptiness(t, p) or (None, None))[1] is False and same((sched.is_emptiness(t, p))[0], seq) for t, p in ec):
                o.site(f, n, "sequence tested non-empty in the same expression")
                continue
            if isinstance(seq, ast.Name) and S is not None and cn is not None:
                # `xs = []` filled by one accumulate loop stands for the equivalent comprehension
                rd = fl.reaching(seq.id, cn)
                if len(rd) == 1 and rd[0].kind == 'assign' and isinstance(rd[0].value, ast.List) and not rd[0].value.elts:
                    from .c07 import _accumulated_comp
                    comp = _accumulated_comp(PassShape(ctx, S), seq.id)
                    if comp is not None:
                        seq = comp
                elif len(rd) == 1 and rd[0].kind == 'assign' and rd[0].value is not None and facts.comp_parts(rd[0].value) and \
                        not PassShape(ctx, S)._mutated_in_place(seq.id) and \
                        (len(fl.defs_of(seq.id)) == 1 or _children_dated_comp(PassShape(ctx, S), rd[0].value, cn)):
                    seq = rd[0].value          # a comprehension hoisted into a local that is never changed afterwards
            if isinstance(seq, ast.Name):
                # every reaching definition non-empty, or an emptiness fallback dominates
                defs = fl.reaching(seq.id, cn)
                conds = facts.node_conditions(prog, f, n, ctx.typer, expand=False)
                guarded = any((sched.is_emptiness(t, p) or (None, None))[1] is False and same(sched.is_emptiness(t, p)[0], seq) for t, p in conds)
                refill = [d for d in defs if d.kind == 'assign' and _has_literal_element(d.value)]
                only_grown = not any(isinstance(x, ast.Call) and isinstance(x.func, ast.Attribute) and isinstance(x.func.value, ast.Name)
                                     and x.func.value.id == seq.id and x.func.attr in ('remove', 'pop', 'clear') for x in walk_no_nested(f.node))
                cfgx = cfg_of(f)
                uncond_app = [x for x in walk_no_nested(f.node) if isinstance(x, ast.Expr) and isinstance(x.value, ast.Call) and
                              isinstance(x.value.func, ast.Attribute) and x.value.func.attr == 'append' and
                              isinstance(x.value.func.value, ast.Name) and x.value.func.value.id == seq.id and
                              cfgx.node_of(x) is not None and cn is not None and cfgx.dominates(cfgx.node_of(x), cn)]
                if only_grown and uncond_app and all(d.kind == 'assign' for d in defs) and \
                        all(cfgx.dominates(d.node, cfgx.node_of(uncond_app[0])) for d in defs if d.node is not None):
                    o.site(f, n, f"{seq.id} receives an element unconditionally before the {n.func.id}()")
                    continue
                if defs and all(d.kind == 'assign' and _has_literal_element(d.value) for d in defs) and only_grown:
                    o.site(f, n, f"{seq.id} starts with a literal element and is only grown")
                    continue
                if guarded or (refill and len(defs) >= 2 and _fallback_dominates(f, seq.id, cn)):
                    o.site(f, n, f"{seq.id} non-empty by emptiness test / fallback")
                    continue
                if S is None and all(d.kind == 'assign' and isinstance(d.value, ast.ListComp) for d in defs):
                    # report.__repr__ style: guarded by len(rows) == 0 early return over the same source
                    srcs = [facts.comp_parts(d.value)[2] for d in defs if facts.comp_parts(d.value)]
                    if srcs and any((match("len($x) == 0", t) and not p and same(match("len($x) == 0", t)['x'], srcs[0])) for t, p in conds):
                        o.site(f, n, "source list tested non-empty")
                        continue
                o.refute(f, n, n, f"{n.func.id}({seq.id}) may be applied to an empty sequence (ValueError)")
                continue
            parts = facts.comp_parts(seq)
            if parts and S is not None:
                elt, tgt, it, ifs = parts
                ps = PassShape(ctx, S)
                reg = ps.region(n)
                m = match(f"{tgt.id}.$a", elt) if isinstance(tgt, ast.Name) else None
                it_x = ps.ex.expand(it, cn) if cn is not None else it
                if reg['leaf'] is False and _children_dated_comp(ps, seq, cn):
                    # the dated children themselves (`[t for t in task.children if t.end is not None]`, compared through key=)
                    o.site(f, n, "dated children: summary has >= 1 child, every scheduled child is dated")
                    continue
                if match(f"{ps.task}.children", sched.strip_seq_copy(it_x)) and reg['leaf'] is False and m and m['a'] in ('start', 'end'):
                    # children non-empty (not a leaf) and all dated (all_dated_on_exit) after the children loop
                    o.site(f, n, f"children {m['a']}s: summary has >= 1 child, every scheduled child is dated")
                    continue
                core_it = sched.strip_seq_copy(it_x)
                if isinstance(core_it, (ast.BoolOp, ast.IfExp, ast.Subscript)) or \
                        (isinstance(core_it, ast.Call) and not (isinstance(core_it.func, ast.Name) and core_it.func.id in ('reversed', 'sorted'))):
                    # a source the rule cannot size (`xs or ys`, a slice, a helper's result): neither proved non-empty nor shown empty
                    o.undecided(f, n, n, f"{n.func.id}() over `{src(core_it)[:60]}`: cannot tell whether the sequence can be empty")
                    continue
            o.refute(f, n, n, f"{n.func.id}({src(seq)[:50]}) may be applied to an empty sequence (ValueError)")


def _children_dated_comp(ps, seq, cn):
    """seq is `[t for t in <task>.children if t.start is not None]` (the children themselves, filtered only by `is not None` tests of
    start / end): after the children loop every child is dated, so the list is as long as the children"""
    parts = facts.comp_parts(seq)
    if not parts:
        return False
    elt, tgt, it, ifs = parts
    if not (isinstance(tgt, ast.Name) and isinstance(elt, ast.Name) and elt.id == tgt.id and ifs):
        return False
    it_x = ps.ex.expand(it, cn) if cn is not None else it
    if not match(f"{ps.task}.children", sched.strip_seq_copy(it_x)):
        return False
    return all(match(f"{tgt.id}.start is not None", c) or match(f"{tgt.id}.end is not None", c) for c in ifs)


def _has_literal_element(seq):
    if isinstance(seq, (ast.List, ast.Tuple)) and seq.elts:
        return True
    if isinstance(seq, ast.BinOp) and isinstance(seq.op, ast.Add):
        return _has_literal_element(seq.left) or _has_literal_element(seq.right)
    return False


def _fallback_dominates(f, var, use_node):
    """`if len(var) == 0: var = [literal]` dominates the use"""
    cfg = cfg_of(f)
    for n in walk_no_nested(f.node):
        if isinstance(n, ast.If) and (match(f"len({var}) == 0", n.test) or match(f"not {var}", n.test)):
            if any(isinstance(s, ast.Assign) and isinstance(s.targets[0], ast.Name) and s.targets[0].id == var and
                   _has_literal_element(s.value) for s in n.body) and cfg.dominates(cfg.node_of(n), use_node):
                return True
    return False


def all_dated(ctx, o):
    """definite assignment of the four fields on every normal exit of the passes"""
    for S in BOTH:
        ps = PassShape(ctx, S)
        f, cfg = ps.f, ps.cfg
        skip = ps.memo_skip_nodes() or set()
        for attr in ('start', 'end', 'estimate', 'spent'):
            gen = set()
            for st, tgt, val, reg in ps.stores(attr):
                if not (isinstance(val, ast.Constant) and val.value is None):
                    gen.add(cfg.node_of(st).id)
            # branch nodes on which `task.attr is None` is False
            for n in cfg.nodes:
                if n.kind == 'branch' and not isinstance(n.test, (ast.For,)):
                    if (match(f"{ps.task}.{attr} is None", n.test) and n.polarity is False) or \
                            (match(f"{ps.task}.{attr} is not None", n.test) and n.polarity is True) or _branch_not_none(ps, n, attr):
                        gen.add(n.id)
            avoid = set(gen) | set(skip)
            seen, todo, leak = set(), [cfg.entry], False
            while todo:
                n = todo.pop()
                if n.id in seen or n.id in avoid:
                    continue
                seen.add(n.id)
                if n is cfg.exit:
                    leak = True
                    break
                todo.extend(n.succ)
            if leak:
                o.refute(f, f.node, f"task.{attr}", f"a normal exit of the pass leaves task.{attr} possibly None: parents then compute "
                                                    f"max()/sum() over None (TypeError / ValueError)")
            else:
                o.site(f, f.node, f"task.{attr} definitely non-None on exit")


NULLABLE = ('start', 'end', 'estimate', 'spent', 'min_start')


def none_safe(ctx, o, core):
    prog = ctx.prog
    # ordering by a key built from a nullable field (`sorted(rows, key=lambda r: (r.date, r.resource.name))`): None and str / datetime do
    # not compare; a task without resource gets the anonymous Resource(None)
    for f in core:
        if f.module.name != 'schedule' or isinstance(f.node, ast.Lambda):
            continue
        for n in walk_no_nested(f.node):
            if isinstance(n, ast.Call) and ((isinstance(n.func, ast.Name) and n.func.id in ('sorted', 'min', 'max')) or
                                            (isinstance(n.func, ast.Attribute) and n.func.attr == 'sort')):
                for k in n.keywords:
                    if k.arg == 'key' and isinstance(k.value, ast.Lambda):
                        for x in ast.walk(k.value.body):
                            if isinstance(x, ast.Attribute) and x.attr in ('name', 'resource') + NULLABLE:
                                par = _parent_in(k.value.body, x)
                                shielded = (isinstance(par, ast.BoolOp) and isinstance(par.op, ast.Or)) or \
                                    (isinstance(par, ast.Call) and isinstance(par.func, ast.Name) and par.func.id in ('str', 'repr', 'bool', 'id')) or \
                                    (isinstance(par, ast.Compare)) or isinstance(par, ast.IfExp) or \
                                    (isinstance(par, ast.Attribute))
                                if not shielded:
                                    o.refute(f, n, n, f"`{src(n)[:70]}` orders by `{src(x)}`, which may be None (a task without resource gets the "
                                                      f"anonymous Resource(None)): None does not compare with str / datetime (TypeError)")
    for f in core:
        if isinstance(f.node, ast.Lambda) or f.module.name != 'schedule':
            continue
        cfg = cfg_of(f)
        S = next((s for s in BOTH if f.qual == s['pass_']), None)
        for n in walk_no_nested(f.node):
            ops = []
            if isinstance(n, ast.Compare) and any(isinstance(op, (ast.Lt, ast.LtE, ast.Gt, ast.GtE)) for op in n.ops):
                ops = [n.left] + list(n.comparators)
            elif isinstance(n, ast.BinOp) and isinstance(n.op, (ast.Sub, ast.Add, ast.Mult, ast.Div)):
                ops = [n.left, n.right]
            for e in ops:
                if not (isinstance(e, ast.Attribute) and e.attr in NULLABLE and ctx.typer.expr_type(e.value, f) == 'Task'):
                    continue
                stmt_node = cfg.node_containing(n)
                root = stmt_node.ast if stmt_node is not None else None
                conds = []
                if stmt_node is not None:
                    conds += [(t, p) for t, p in cfg.conditions(stmt_node)]
                if root is not None:
                    ec = eval_conditions(root.test if isinstance(root, (ast.If, ast.While)) else root, e)
                    conds += ec or []
                flat = []
                for t, p in conds:
                    flat += facts.split_conj(t, p)
                guarded = any((match(f"{src(e)} is not None", t) and p) or (match(f"{src(e)} is None", t) and not p) or
                              (same(t, e) and p) for t, p in flat)
                if guarded:
                    o.site(f, n, f"{src(e)} guarded by a None test")
                    continue
                if S is not None and stmt_node is not None and e.attr in ('estimate', 'spent', 'start', 'end'):
                    # None-fill idiom: an `if x is None: x = ...` statement dominates
                    ps = PassShape(ctx, S)
                    filled = False
                    for st, tgt, val, reg in ps.stores(e.attr):
                        tests = [t for t, p in cfg.conditions(cfg.node_of(st)) if match(f"{ps.task}.{e.attr} is None", t)]
                        for t in tests:
                            tn = cfg.node_containing(t)
                            if tn is not None and cfg.dominates(tn, stmt_node) and _fills_all_branches(ps, e.attr, t):
                                filled = True
                    if filled:
                        o.site(f, n, f"{src(e)} filled by the dominating `is None` block")
                        continue
                    if _definitely_set(ps, e.attr, stmt_node):
                        o.site(f, n, f"{src(e)} assigned or tested non-None on every path to this statement")
                        continue
                o.refute(f, n, n, f"`{src(n)[:60]}` uses nullable `{src(e)}` without a None test (TypeError)")


def _branch_not_none(ps, b, attr):
    """branch b is taken only when task.<attr> was not None, the test being a flag hoisted into a local
    (`no_start = task.start is None` ... `elif no_start:` false branch).  The flag is a snapshot: sound as long as the pass never
    stores None into the field (checked by the callers' gen sets: stores of None are not generators)"""
    if b.kind != 'branch' or b.test is None or isinstance(b.test, (ast.For, ast.AsyncFor)):
        return False
    for a, q in facts.split_conj(b.test, b.polarity):
        core, q2 = a, q
        while isinstance(core, ast.UnaryOp) and isinstance(core.op, ast.Not):
            core, q2 = core.operand, not q2
        if isinstance(core, ast.Name) and core.id not in ps.f.params:
            ds = ps.fl.defs_of(core.id)
            if len(ds) == 1 and ds[0].kind == 'assign' and ds[0].value is not None and ds[0].node is not None:
                tn = ps.cfg.node_containing(b.test)
                if tn is None or not ps.cfg.dominates(ds[0].node, tn):
                    continue
                # no store to the field between the flag and a branch that claims "was not None": a later store only makes it more so
                for a2, q3 in facts.split_conj(ds[0].value, q2):
                    if facts.cond_is(a2, q3, f"{ps.task}.{attr} is None", want=False):
                        return True
    return False


def _definitely_set(ps, attr, at):
    """every path from the entry of the pass to node `at` stores a value into task.<attr> or passes a branch on which
    `task.<attr> is None` is false (`if x is None and leaf: x = .. elif x is None: x = ..` and similar merged forms)"""
    cfg = ps.cfg
    gen = set()
    for st, tgt, val, reg in ps.stores(attr):
        if isinstance(val, ast.Constant) and val.value is None:
            return False              # the field is also reset inside the pass: not decided here
        sn = cfg.node_of(st)
        if sn is not None:
            gen.add(sn.id)
    for b in cfg.nodes:
        if b.kind == 'branch' and b.test is not None and not isinstance(b.test, (ast.For, ast.AsyncFor)):
            for a, q in facts.split_conj(b.test, b.polarity):
                if facts.cond_is(a, q, f"{ps.task}.{attr} is None", want=False):
                    gen.add(b.id)
            if _branch_not_none(ps, b, attr):
                gen.add(b.id)
    if at.id in gen:
        return False
    seen, todo = set(), [cfg.entry]
    while todo:
        x = todo.pop()
        if x.id in seen or x.id in gen:
            continue
        seen.add(x.id)
        if x is at:
            return False
        todo.extend(x.succ)
    return True


def _parent_in(root, node):
    for n in ast.walk(root):
        for ch in ast.iter_child_nodes(n):
            if ch is node:
                return n
    return None


def _fills_all_branches(ps, attr, test):
    """under `task.attr is None` every path assigns the attribute"""
    cfg = ps.cfg
    tn = cfg.node_containing(test)
    tb = [s for s in tn.succ if s.kind == 'branch' and s.polarity]
    if not tb:
        return False
    gen = {cfg.node_of(st).id for st, tgt, val, reg in ps.stores(attr) if not (isinstance(val, ast.Constant) and val.value is None)}
    # from the true branch, can we leave the If (reach a node not dominated by tb) without passing a store?
    start = tb[0]
    seen, todo = set(), [start]
    while todo:
        n = todo.pop()
        if n.id in seen or n.id in gen:
            continue
        seen.add(n.id)
        if not cfg.dominates(start, n):
            return False
        todo.extend(n.succ)
    return True


def messages(ctx, o, core):
    for f in core:
        if isinstance(f.node, ast.Lambda):
            continue
        for r in [n for n in walk_no_nested(f.node) if isinstance(n, ast.Raise)]:
            bad = False
            for n in ast.walk(r):
                if isinstance(n, ast.BinOp) and isinstance(n.op, ast.Add):
                    for side in (n.left, n.right):
                        if isinstance(side, ast.Attribute) and side.attr in ('name', 'resource') + NULLABLE:
                            o.refute(f, r, n, f"raise message concatenates `{src(side)}` (may be None) with `+`: TypeError instead of the diagnosis")
                            bad = True
                if isinstance(n, ast.Call) and isinstance(n.func, ast.Attribute) and n.func.attr in ('strftime', 'upper', 'lower') and \
                        isinstance(n.func.value, ast.Attribute) and n.func.value.attr in ('name',) + NULLABLE:
                    o.refute(f, r, n, f"raise message calls a method on `{src(n.func.value)}` which may be None")
                    bad = True
            # a format specification applied to a nullable field: format(None, '%Y-%m-%d') is a TypeError
            specs = [n for n in ast.walk(r) if isinstance(n, ast.FormattedValue) and n.format_spec is not None and
                     any(not (isinstance(v, ast.Constant) and v.value == '') for v in n.format_spec.values)]
            if specs:
                ex = Expander(ctx.prog, f, ctx.typer)
                cfg = cfg_of(f)
                rn = cfg.node_of(r)
                path = facts.node_conditions(ctx.prog, f, r, ctx.typer, expand=True)
                for n in specs:
                    v = ex.expand(n.value, rn)
                    for conds, case in sched.expr_cases(v):
                        if not (isinstance(case, ast.Attribute) and case.attr in ('name', 'resource') + NULLABLE):
                            continue
                        known = False
                        for t, q in list(path) + list(conds):
                            t2, q2 = facts.norm_cond(t, q)
                            if (same(t2, case) and q2) or (facts.cond_is(t, q, "$x is None", want=False) and same(facts.norm_cond(t, q)[0].left, case)):
                                known = True
                        if not known:
                            o.refute(f, r, n, f"raise message formats `{src(case)}` (may be None) with a format specification "
                                              f"`{src(n)[:40]}`: TypeError instead of the diagnosis")
                            bad = True
            if not bad:
                o.site(f, r, "message built without `+` on nullable fields")


def _key_present(f, sub):
    """memo idiom `if k not in D: D[k] = v` ... `D[k]`: every path from the entry to the read stores D[k] or passes a branch on
    which `k in D` holds; and neither D nor the names in k are rebound in between (checked coarsely: no other store to them
    after the generating node on the way)"""
    cfg = cfg_of(f)
    at = cfg.node_containing(sub)
    if at is None:
        return False
    gen = set()
    for n in walk_no_nested(f.node):
        if isinstance(n, ast.Assign):
            for t in n.targets:
                if isinstance(t, ast.Subscript) and same(t.value, sub.value) and same(t.slice, sub.slice):
                    nn = cfg.node_of(n)
                    if nn is not None:
                        gen.add(nn.id)
        elif isinstance(n, ast.Call) and isinstance(n.func, ast.Attribute) and n.func.attr == 'setdefault' and n.args and \
                same(n.func.value, sub.value) and same(n.args[0], sub.slice):
            nn = cfg.node_containing(n)
            if nn is not None:
                gen.add(nn.id)
    for b in cfg.nodes:
        if b.kind == 'branch' and b.test is not None and not isinstance(b.test, (ast.For, ast.AsyncFor)):
            for a, q in facts.split_conj(b.test, b.polarity):
                a2, q2 = facts.norm_cond(a, q)
                if isinstance(a2, ast.Compare) and len(a2.ops) == 1 and isinstance(a2.ops[0], ast.In) and q2 and \
                        same(a2.left, sub.slice) and same(a2.comparators[0], sub.value):
                    gen.add(b.id)
    if not gen:
        return False
    if at.id in gen:
        return True
    seen, todo = set(), [cfg.entry]
    while todo:
        x = todo.pop()
        if x.id in seen or x.id in gen:
            continue
        seen.add(x.id)
        if x is at:
            return False
        todo.extend(x.succ)
    return True


def subscripts(ctx, o, core):
    for f in core:
        if isinstance(f.node, ast.Lambda) or f.module.name != 'schedule':
            continue
        in_annotation = set()
        for n in ast.walk(f.node):
            anns = []
            if isinstance(n, (ast.FunctionDef, ast.AsyncFunctionDef)):
                anns = [a.annotation for a in n.args.posonlyargs + n.args.args + n.args.kwonlyargs if a.annotation is not None] + \
                       ([n.returns] if n.returns is not None else []) + \
                       [a.annotation for a in (n.args.vararg, n.args.kwarg) if a is not None and a.annotation is not None]
            elif isinstance(n, ast.AnnAssign):
                anns = [n.annotation]
            for a in anns:
                in_annotation.update(id(x) for x in ast.walk(a))
        for n in walk_no_nested(f.node):
            if not (isinstance(n, ast.Subscript) and isinstance(n.ctx, ast.Load)):
                continue
            if id(n) in in_annotation:
                continue
            if isinstance(n.slice, ast.Constant) or isinstance(n.slice, ast.Slice):
                continue
            t = ctx.typer.expr_type(n.value, f)
            if t is None and isinstance(n.value, ast.Name) and n.value.id in ('List', 'Set', 'Callable', 'Dict', 'Optional'):
                continue
            fo = sched.for_loop_of(f, n)
            if fo is not None and isinstance(n.slice, ast.Name) and isinstance(fo.target, ast.Name) and fo.target.id == n.slice.id:
                m = match("range(len($x) - 1, -1, -1)", fo.iter) or match("range(len($x))", fo.iter) or match("range(0, len($x))", fo.iter)
                if m and same(m['x'], n.value):
                    o.site(f, n, f"{src(n)} with {src(fo.iter)}")
                    continue
            if isinstance(n.value, ast.Name) and n.value.id == 'node' or (isinstance(n.value, ast.Subscript)):
                # tuple unpacking of (task, flag) nodes built by this module
                o.site(f, n, "index into a 2-tuple built locally")
                continue
            if isinstance(n.slice, ast.UnaryOp) and isinstance(n.slice.operand, ast.Constant):
                o.site(f, n, "constant index")
                continue
            if _key_present(f, n):
                o.site(f, n, f"{src(n)[:50]}: every path stores this key first or tests `key in container`")
                continue
            o.refute(f, n, n, f"subscript `{src(n)}` with a computed key is not discharged (KeyError / IndexError)")


# ======================================================================================================================
def _calendar_answer(e):
    """<x>.get_available_units(..) asked of something else than the resource itself: Optional[float] by the calendar contract"""
    return isinstance(e, ast.Call) and isinstance(e.func, ast.Attribute) and e.func.attr == 'get_available_units' and \
        not (isinstance(e.func.value, ast.Name) and e.func.value.id in ('self', 'cls')) and \
        not (isinstance(e.func.value, ast.Call) and isinstance(e.func.value.func, ast.Name) and e.func.value.func.id == 'super')


def _none_tested(conds, e):
    """the path condition says e is not None (or truthy)"""
    for t, p in conds:
        for a, q in facts.split_conj(t, p):
            a2, q2 = facts.norm_cond(a, q)
            m = match("$x is None", a2)
            if m and not q2 and same(m['x'], e):
                return True
            m = match("$x is not None", a2)
            if m and q2 and same(m['x'], e):
                return True
            if q2 and same(a2, e):
                return True
    return False


def capacity_number(ctx, o):
    prog = ctx.prog
    f = prog.func('resource.Resource.get_available_units')
    cls_funcs = [g for g in prog.all_funcs() if g.qual.startswith('resource.Resource.') and not isinstance(g.node, ast.Lambda)]

    def nullable_value(g, e, at, conds):
        """[(case expression, reason)] for the cases of e (expanded in g) that may be None"""
        ex = Expander(prog, g, ctx.typer)
        v = ex.expand(e, at)
        out = []
        for cc, case in sched.expr_cases(v):
            allc = list(conds) + list(cc)
            if isinstance(case, ast.BoolOp) and isinstance(case.op, ast.Or) and facts.const_num(case.values[-1]) is not None:
                continue
            if _calendar_answer(case) and not _none_tested(allc, case):
                out.append((case, "the calendar's raw answer (None for a day the calendar does not cover)"))
        return out

    # containers on self that may hold a raw calendar answer
    raw = {}
    for g in cls_funcs:
        cfg = cfg_of(g)
        for n in walk_no_nested(g.node):
            tgts, val = [], None
            if isinstance(n, ast.Assign):
                tgts, val = [t for t in n.targets if isinstance(t, ast.Subscript)], n.value
            elif isinstance(n, ast.Call) and isinstance(n.func, ast.Attribute) and n.func.attr == 'setdefault' and len(n.args) == 2:
                tgts, val = [ast.Subscript(value=n.func.value, slice=n.args[0], ctx=ast.Store())], n.args[1]
            for t in tgts:
                path = attr_path(t.value)
                if not path or not path.startswith(g.self_name + '.' if g.self_name else '\0'):
                    continue
                cn = cfg.node_containing(n) if isinstance(n, ast.Call) else cfg.node_of(n)
                conds = facts.node_conditions(prog, g, n, ctx.typer, expand=True)
                if nullable_value(g, val, cn, conds):
                    raw[path.split('.', 1)[1]] = (g, n)

    def raw_container_read(case):
        """self.<c>[k] / self.<c>.get(k[, d]) of a container that may hold raw calendar answers"""
        if isinstance(case, ast.Subscript):
            p_ = attr_path(case.value)
        elif isinstance(case, ast.Call) and isinstance(case.func, ast.Attribute) and case.func.attr in ('get', 'setdefault', 'pop'):
            p_ = attr_path(case.func.value)
        else:
            return None
        if p_ and '.' in p_ and p_.split('.', 1)[1] in raw:
            return p_.split('.', 1)[1]
        return None

    cfg = cfg_of(f)
    ex = Expander(prog, f, ctx.typer)
    rets = [n for n in walk_no_nested(f.node) if isinstance(n, ast.Return)]
    for r in rets:
        if r.value is None or (isinstance(r.value, ast.Constant) and r.value.value is None):
            o.refute(f, r, r, "Resource.get_available_units returns None: the schedulers subtract and compare the capacity (TypeError)")
            continue
        conds = facts.node_conditions(prog, f, r, ctx.typer, expand=True)
        bad = nullable_value(f, r.value, cfg.node_of(r), conds)
        v = ex.expand(r.value, cfg.node_of(r))
        for cc, case in sched.expr_cases(v):
            c_ = raw_container_read(case)
            if c_ is not None and not _none_tested(list(conds) + list(cc), case):
                bad.append((case, f"an entry of self.{unmangle(c_)}, which caches the calendar's raw answer (None for a day the calendar "
                                  f"does not cover) - the None is mapped to a number only on the path that fills the cache"))
        if bad:
            for case, why in bad:
                o.refute(f, r, r, f"Resource.get_available_units returns `{src(case)[:60]}`: {why}; the schedulers subtract and compare "
                                  f"the capacity, so None ends in TypeError instead of a schedule or a RuntimeError")
        else:
            o.site(f, r, f"returns `{src(v)[:70]}`: None mapped to a number")


# ======================================================================================================================
def _local_definitely_set(f, name, at):
    """every path from the entry of f to node `at` rebinds local/parameter `name` to a value that is not the literal None, or
    passes a branch on which `name is None` is false (`if x is None: x = default` before the use)"""
    if at is None:
        return False
    cfg = cfg_of(f)
    gen = set()
    for d in flow_of(f).defs_of(name):
        if d.kind == 'assign' and d.node is not None and d.value is not None and not (isinstance(d.value, ast.Constant) and d.value.value is None) \
                and not isinstance(d.value, ast.Name):
            gen.add(d.node.id)
    for b in cfg.nodes:
        if b.kind == 'branch' and b.test is not None and not isinstance(b.test, (ast.For, ast.AsyncFor)):
            for a, q in facts.split_conj(b.test, b.polarity):
                if facts.cond_is(a, q, f"{name} is None", want=False) or facts.cond_is(a, q, name, want=True):
                    gen.add(b.id)
    if at.id in gen:
        return False
    seen, todo = set(), [cfg.entry]
    while todo:
        x = todo.pop()
        if x.id in seen or x.id in gen:
            continue
        seen.add(x.id)
        if x is at:
            return False
        todo.extend(x.succ)
    return True


def dependency_dates(ctx, o):
    prog = ctx.prog
    # which (relation, date) pairs the isolation check demands: `for pr in t.<rel>: if .. (not pr.start or not pr.end): raise`
    vf = prog.func('schedule._validate_graph_isolation')
    demanded = set()
    for r in [x for x in walk_no_nested(vf.node) if isinstance(x, ast.Raise)]:
        fors = cfg_of(vf).enclosing_fors(cfg_of(vf).node_of(r))
        for fo in fors:
            if isinstance(fo.target, ast.Name) and isinstance(fo.iter, ast.Attribute) and fo.iter.attr in ('predecessors', 'successors'):
                for t, p in facts.node_conditions(prog, vf, r, ctx.typer, expand=True):
                    for a, q in facts.split_conj(t, p):
                        for attr in ('start', 'end'):
                            if facts.cond_is(a, q, f"{fo.target.id}.{attr}", want=False) or facts.cond_is(a, q, f"{fo.target.id}.{attr} is None", want=True):
                                demanded.add((fo.iter.attr, attr))
                            # a disjunction `not pr.start or not pr.end` under polarity True stays one atom
                            if q and isinstance(a, ast.BoolOp) and isinstance(a.op, ast.Or):
                                for v in a.values:
                                    if facts.cond_is(v, True, f"{fo.target.id}.{attr}", want=False) or \
                                            facts.cond_is(v, True, f"{fo.target.id}.{attr} is None", want=True):
                                        demanded.add((fo.iter.attr, attr))
    for S in BOTH:
        ps = PassShape(ctx, S)
        pt = ps.prereq_term()
        if pt is None:
            o.undecided(ps.f, ps.f.node, 'prerequisite term', "no max/min over the dependency dates recognised in the pass")
            continue
        elt, tgt, it, ifs = pt['parts']
        attr = ps.end_attr
        # `not x.end is None` (a guard clause `if x.end is None: continue` turned into a filter) says the same as `x.end is not None`
        if any(match(f"{tgt.id}.{attr} is not None", c) or match(f"{tgt.id}.{attr}", c) or
               facts.cond_is(c, True, f"{tgt.id}.{attr} is None", want=False) or facts.cond_is(c, True, f"{tgt.id}.{attr}", want=True)
               for c in ifs):
            o.site(ps.f, pt['stmt'], f"{ps.rel}: {attr} filtered `is not None`")
        elif (ps.rel, attr) in demanded:
            # validated for outside tasks, assigned by the recursion for inside tasks
            o.site(ps.f, pt['stmt'], f"{ps.rel}: {attr} demanded by _validate_graph_isolation")
        else:
            o.refute(ps.f, pt['stmt'], pt['comp'], f"`{src(pt['comp'])[:70]}` feeds the {attr} of every task in `{src(it)[:30]}` into {ps.lat}() without a "
                                                   f"None filter, and _validate_graph_isolation does not demand a {attr} for {ps.rel}: a linked task "
                                                   f"outside the WBS (not scheduled by the pass) without a {attr} ends calc in TypeError")


def isolation_check(ctx, o):
    """which variable's dates guard the RuntimeError of _validate_graph_isolation: one that ranges over every predecessor (site), or
    one element picked by next(<generator over the predecessors>) (refuted: the other outside predecessors are never looked at)"""
    prog = ctx.prog
    vf = prog.func('schedule._validate_graph_isolation')
    fl = flow_of(vf)
    gs = [g for g in facts.guards_of(prog, vf, ctx.typer) if g.exc == 'RuntimeError']
    if not gs:
        o.undecided(vf, vf.node, 'raise', "no RuntimeError raise found in the isolation check itself")
        return

    def over_preds(it):
        return any(isinstance(x, ast.Attribute) and x.attr == 'predecessors' for x in ast.walk(it))

    def picked_by_next(e):
        """e = next(<generator / iter(list) over ..predecessors..>[, default]) -> the generator"""
        if isinstance(e, ast.Call) and isinstance(e.func, ast.Name) and e.func.id == 'next' and e.args:
            a = e.args[0]
            m = match("iter($x)", a)
            if m:
                a = m['x']
            if isinstance(a, (ast.GeneratorExp, ast.ListComp)) and len(a.generators) == 1 and over_preds(a.generators[0].iter):
                return a
        return None

    ok = bad = None
    for g in gs:
        for t, _pol in g.conds:
            par = {}
            for x in ast.walk(t):
                for c in ast.iter_child_nodes(x):
                    par[id(c)] = x
            for n in ast.walk(t):
                if not (isinstance(n, ast.Attribute) and n.attr in ('start', 'end') and isinstance(n.ctx, ast.Load)):
                    continue
                base = n.value
                if picked_by_next(base) is not None:
                    bad = bad or (g, base)
                elif isinstance(base, ast.Name):
                    ds = fl.defs_of(base.id)
                    pk = [d for d in ds if d.kind == 'assign' and d.value is not None and picked_by_next(d.value) is not None]
                    if pk and len(pk) == len(ds):
                        bad = bad or (g, pk[0].value)
                        continue
                    its = [i for tg, i in g.binders if isinstance(tg, ast.Name) and tg.id == base.id]
                    x = n
                    while id(x) in par:
                        x = par[id(x)]
                        if isinstance(x, (ast.GeneratorExp, ast.ListComp, ast.SetComp)):
                            its += [gen.iter for gen in x.generators if isinstance(gen.target, ast.Name) and gen.target.id == base.id]
                    if any(over_preds(i) for i in its):
                        ok = ok or (g, n)
    if bad:
        g, e = bad
        o.refute(vf, g.node, e, f"the dates tested in front of the raise are those of `{src(e)[:80]}`: one predecessor picked by next(), the "
                                f"first that passes the filter - a later predecessor outside the WBS without dates is never looked at, calc "
                                f"returns a schedule instead of the RuntimeError diagnosis")
    elif ok:
        o.site(vf, ok[0].node, f"RuntimeError under a test of `{src(ok[1])}` for every predecessor")
    else:
        o.undecided(vf, gs[0].node, 'dates', "no test of the start / end of a variable ranging over the predecessors recognised in front of the raise")


def resource_keys(ctx, o, core):
    prog = ctx.prog
    for f in core:
        if isinstance(f.node, ast.Lambda) or f.module.name != 'schedule':
            continue

        def typed_resource(e):
            if isinstance(e, ast.Tuple):
                return next((x for x in e.elts if typed_resource(x)), None)
            t = ctx.typer.expr_type(e, f)
            return e if t in ('IResource', 'Resource') else None
        for n in walk_no_nested(f.node):
            keys = []
            if isinstance(n, ast.Subscript) and not isinstance(n.slice, ast.Slice):
                keys.append(n.slice)
            elif isinstance(n, ast.Call) and isinstance(n.func, ast.Attribute) and n.func.attr in ('get', 'setdefault', 'pop', 'add', 'discard') and n.args:
                keys.append(n.args[0])
            elif isinstance(n, ast.Dict):
                keys += [k for k in n.keys if k is not None]
            elif isinstance(n, ast.DictComp):
                keys.append(n.key)
            elif isinstance(n, ast.Call) and isinstance(n.func, ast.Name) and n.func.id in ('set', 'frozenset', 'hash') and n.args:
                a0 = n.args[0]
                if isinstance(a0, (ast.ListComp, ast.GeneratorExp)):
                    keys.append(a0.elt)
                elif n.func.id == 'hash':
                    keys.append(a0)
            for k in keys:
                r = typed_resource(k)
                if r is not None:
                    o.refute(f, n, n, f"`{src(n)[:60]}` hashes the resource object `{src(r)}`: a user supplied IResource with value equality "
                                      f"and no __hash__ ends calc in TypeError (unhashable type)")
                elif isinstance(n, (ast.Subscript, ast.Call)) and (match("$t.resource", k) or match("$r.name", k)):
                    o.site(f, n, f"keyed by the resource name `{src(k)}`")


def _day_of(e):
    """x for `x.date()` / midnight(x): the expression truncated to its calendar day; else None"""
    m = match("$x.date()", e)
    if m:
        return m['x']
    return facts.is_midnight_of(e)


def future_end_check(ctx, o):
    prog = ctx.prog
    vf = sched_dep.resolve_validator(ctx, FWD, sched_dep.FUTURE_END)
    if isinstance(vf, sched_dep.AsValidator):
        o.site(vf.calc, vf.raise_, "task.end > clock raises RuntimeError (check written in calc)")
        return
    ex = Expander(prog, vf, ctx.typer)
    found = False
    for r in [x for x in walk_no_nested(vf.node) if isinstance(x, ast.Raise)]:
        if facts.exc_name(r) != 'RuntimeError':
            continue
        conds_r = list(facts.node_conditions(prog, vf, r, ctx.typer, expand=True))
        # `late = next((t for t in tasks if <test>), None); if late is not None: raise` / `if any(<test> for t in tasks): raise`:
        # the raise happens exactly when some task passes the filter - the filter is the test
        for t0, p0 in list(conds_r):
            if p0 or (facts.cond_is(t0, p0, "$x is None", want=False)):
                for g_ in ast.walk(t0):
                    if isinstance(g_, (ast.GeneratorExp, ast.ListComp)) and len(g_.generators) == 1:
                        for c_ in g_.generators[0].ifs:
                            conds_r += facts.split_conj(c_, True)
                        if not g_.generators[0].ifs and not isinstance(g_.elt, ast.Name):
                            conds_r += facts.split_conj(g_.elt, True)         # any(t.end > now for t in ..)
        for t, p in conds_r:
            if not (isinstance(t, ast.Compare) and len(t.ops) == 1):
                continue
            l, op, rr = t.left, t.ops[0], t.comparators[0]
            ld, rd = _day_of(l), _day_of(rr)
            if ld is not None and rd is not None and any(isinstance(x_, ast.Attribute) and x_.attr == 'end' for x_ in (ld, rd)):
                # both sides truncated to their calendar day: `t.end.date() > datetime.now().date()`
                end_left = isinstance(ld, ast.Attribute) and ld.attr == 'end'
                clock = rd if end_left else ld
                strict = (isinstance(op, ast.Gt) and p) or (isinstance(op, ast.LtE) and not p) if end_left else \
                    (isinstance(op, ast.Lt) and p) or (isinstance(op, ast.GtE) and not p)
                found = True
                if strict and sched_dep._is_now(clock):
                    o.refute(vf, r, t, f"`{src(t)[:70]}` compares calendar days, not moments: a fixed end later today (same day as the clock, "
                                       f"but in the future) is not diagnosed with RuntimeError and is scheduled with its start after its end")
                else:
                    o.undecided(vf, r, t, f"the future-end check compares day-truncated values `{src(t)[:70]}`, which the rule cannot relate to "
                                          f"`task.end > clock`")
                continue
            if isinstance(l, ast.Attribute) and l.attr == 'end' and ((isinstance(op, (ast.Gt, ast.GtE)) and p) or (isinstance(op, (ast.LtE, ast.Lt)) and not p)):
                other = rr
            elif isinstance(rr, ast.Attribute) and rr.attr == 'end' and ((isinstance(op, (ast.Lt, ast.LtE)) and p) or (isinstance(op, (ast.GtE, ast.Gt)) and not p)):
                other = l
            else:
                continue
            found = True
            if sched_dep._is_now(other):
                o.site(vf, r, "task.end > clock raises RuntimeError")
                continue
            args = facts.flatten_lattice(other, 'max')
            if args and any(sched_dep._is_now(a) for a in args) and len(args) > 1:
                o.refute(vf, r, other, f"a fixed end is only rejected when it is later than `{src(other)[:60]}`, which can be later than the clock: "
                                       f"an end in the future but before that moment is scheduled (start after end) instead of diagnosed")
            elif isinstance(other, ast.BinOp) and isinstance(other.op, ast.Add) and sched_dep._is_now(other.left):
                o.refute(vf, r, other, f"a fixed end is only rejected when it is later than `{src(other)[:60]}` (the clock plus a margin): an end in "
                                       f"the future inside the margin is not diagnosed")
            else:
                o.undecided(vf, r, other, f"the future-end check compares task.end with `{src(other)[:60]}`, which the rule cannot relate to the clock")
    if not found:
        o.undecided(vf, vf.node, 'future end test', "no `task.end > <moment>` test guarding a RuntimeError found in the future-end check")


def bound_not_none(ctx, o):
    prog = ctx.prog
    for S in BOTH:
        init = prog.func(S['init'])
        arg = 'start' if S['dir'] == 1 else 'end'
        a = init.node.args
        pos = a.posonlyargs + a.args
        defaults = dict(zip([x.arg for x in pos][len(pos) - len(a.defaults):], a.defaults))
        nullable_arg = arg in defaults and isinstance(defaults[arg], ast.Constant) and defaults[arg].value is None
        exi = Expander(prog, init, ctx.typer)
        nullable_store = None
        stores = facts.attr_stores(init, S['bound'])
        for st, tgt, val in stores:
            icn = cfg_of(init).node_of(st)
            v = exi.expand(val, icn) if icn is not None else val
            path = facts.node_conditions(prog, init, st, ctx.typer, expand=True)
            for cc, case in sched.expr_cases(v):
                allc = list(path) + list(cc)
                if isinstance(case, ast.Constant) and case.value is None:
                    nullable_store = st
                elif isinstance(case, ast.Name) and case.id == arg and nullable_arg and not _none_tested(allc, case) and \
                        not _local_definitely_set(init, arg, icn):
                    nullable_store = st
        if not stores:
            o.undecided(init, init.node, S['bound'], "the project bound is not stored by the constructor")
            continue
        if nullable_store is None:
            o.site(init, stores[0][0], f"self.{unmangle(S['bound'])} is resolved to a date by the constructor")
            continue
        # the attribute may hold None: every read in the scheduler class must be guarded
        bad = None
        for g in prog.all_funcs():
            if not g.qual.startswith('schedule.' + S['cls'] + '.') or g is init or isinstance(g.node, ast.Lambda):
                continue
            gcfg = cfg_of(g)
            for n in walk_no_nested(g.node):
                if isinstance(n, ast.Attribute) and n.attr == S['bound'] and isinstance(n.ctx, ast.Load) and isinstance(n.value, ast.Name) \
                        and n.value.id == g.self_name:
                    cn = gcfg.node_containing(n)
                    conds = list(gcfg.conditions(cn)) if cn is not None else []
                    if cn is not None and cn.ast is not None:
                        root = cn.ast.test if isinstance(cn.ast, (ast.If, ast.While)) else cn.ast
                        conds += eval_conditions(root, n) or []
                    par_is_test = any(isinstance(x, ast.Compare) and x.left is n and isinstance(x.ops[0], (ast.Is, ast.IsNot))
                                      for x in walk_no_nested(g.node))
                    if par_is_test or _none_tested(conds, n):
                        continue
                    bad = bad or (g, n)
        if bad:
            g, n = bad
            o.refute(g, n, n, f"the constructor stores `{arg}` as given (None when omitted) and {g.qual} reads self.{unmangle(S['bound'])} without a "
                              f"None test: max()/min() and comparisons with None end in TypeError instead of a schedule or a RuntimeError")
        else:
            o.site(init, nullable_store, f"self.{unmangle(S['bound'])} may be None but every read resolves it")


def next_calls(ctx, o, core):
    prog = ctx.prog
    # functools.reduce without an initial value over a sequence that can be empty: TypeError
    for f in [g for g in prog.all_funcs() if g.module.name in ('schedule', 'resource', 'calendar') and not isinstance(g.node, ast.Lambda)]:
        for n in walk_no_nested(f.node):
            if isinstance(n, ast.Call) and ((isinstance(n.func, ast.Name) and n.func.id == 'reduce') or
                                            (isinstance(n.func, ast.Attribute) and n.func.attr == 'reduce' and
                                             isinstance(n.func.value, ast.Name) and n.func.value.id == 'functools')):
                if len(n.args) >= 3 or any(k.arg == 'initial' for k in n.keywords):
                    o.site(f, n, "reduce(.., initial)")
                elif len(n.args) == 2 and _has_literal_element(n.args[1]):
                    o.site(f, n, "reduce over a sequence with a literal element")
                elif len(n.args) == 2:
                    seq_ = sched.strip_seq_copy(n.args[1])
                    parts_ = facts.comp_parts(seq_)
                    if parts_ is not None and not parts_[3]:
                        # one element per member of the source collection: empty only if the collection is (not decided here)
                        o.undecided(f, n, n, f"`{src(n)[:70]}` has no initial value; its sequence has one element per element of "
                                             f"`{src(parts_[2])[:40]}`, whose emptiness the rule does not decide")
                    else:
                        o.refute(f, n, n, f"`{src(n)[:70]}` has no initial value: for an empty sequence (no calendar covers the date) it "
                                          f"raises TypeError instead of answering `no capacity`")
    for f in core:
        if isinstance(f.node, ast.Lambda):
            continue
        fl = flow_of(f)
        for n in walk_no_nested(f.node):
            if not (isinstance(n, ast.Call) and isinstance(n.func, ast.Name) and n.func.id == 'next' and n.args):
                continue
            if len(n.args) >= 2 or any(k.arg == 'default' for k in n.keywords):
                o.site(f, n, "next(it, default)")
                continue
            if _stop_iteration_handled(f, n):
                o.site(f, n, "StopIteration handled by the enclosing try")
                continue
            it = n.args[0]
            for _ in range(3):
                if isinstance(it, ast.Name):
                    ds = fl.defs_of(it.id)
                    if len(ds) == 1 and ds[0].kind == 'assign' and ds[0].value is not None:
                        it = ds[0].value
                        continue
                if isinstance(it, ast.Call) and isinstance(it.func, ast.Name) and it.func.id == 'iter' and len(it.args) == 1:
                    it = it.args[0]
                    continue
                break
            if isinstance(it, ast.Name):
                # `a, it = stack[-1]` with every stack entry built as (.., iter(<collection>)): an iterator over a finite collection
                for d in fl.defs_of(it.id):
                    if d.kind == 'unpack' and isinstance(d.stmt, ast.Assign) and isinstance(d.stmt.targets[0], ast.Tuple) and \
                            isinstance(d.stmt.value, ast.Subscript) and isinstance(d.stmt.value.value, ast.Name):
                        idx = next((i for i, e_ in enumerate(d.stmt.targets[0].elts) if isinstance(e_, ast.Name) and e_.id == it.id), None)
                        stack = d.stmt.value.value.id
                        entries = [c_.args[0] for c_ in facts.calls_named(f, 'append') if isinstance(c_.func, ast.Attribute) and
                                   isinstance(c_.func.value, ast.Name) and c_.func.value.id == stack and c_.args]
                        for sd in fl.defs_of(stack):
                            if sd.kind == 'assign' and isinstance(sd.value, ast.List):
                                entries += sd.value.elts
                        if idx is not None and entries and all(isinstance(e_, ast.Tuple) and len(e_.elts) > idx and isinstance(e_.elts[idx], ast.Call) and
                                                               isinstance(e_.elts[idx].func, ast.Name) and e_.elts[idx].func.id == 'iter'
                                                               for e_ in entries):
                            it = entries[0].elts[idx]
            S_ = next((s_ for s_ in BOTH if f.qual == s_['pass_']), None)
            parts_ = facts.comp_parts(it) if isinstance(it, (ast.GeneratorExp, ast.ListComp)) else None
            if S_ is not None and parts_ and isinstance(parts_[1], ast.Name) and parts_[3]:
                # a generator over the children of a summary filtered only by `is not None` tests of their dates: after the children
                # loop every child is dated and a summary has at least one child (the proof extrema_of_nonempty uses)
                ps_ = PassShape(ctx, S_)
                cn_ = fl.node_of_expr(n)
                it_x = ps_.ex.expand(parts_[2], cn_) if cn_ is not None else parts_[2]
                tg_ = parts_[1].id
                if match(f"{ps_.task}.children", sched.strip_seq_copy(it_x)) and ps_.region(n)['leaf'] is False and \
                        all(match(f"{tg_}.start is not None", c_) or match(f"{tg_}.end is not None", c_) for c_ in parts_[3]):
                    o.site(f, n, "next() over the dated children of a summary: >= 1 child, every scheduled child is dated")
                    continue
            if isinstance(it, (ast.GeneratorExp, ast.ListComp)) or \
                    (isinstance(it, ast.Call) and isinstance(it.func, ast.Name) and it.func.id in ('filter', 'range', 'map', 'zip', 'reversed', 'iter')):
                o.refute(f, n, n, f"`{src(n)[:70]}` has no default: when the generator runs dry (nothing matches within the horizon) it raises "
                                  f"StopIteration instead of reaching a RuntimeError diagnosis")
            elif isinstance(it, ast.Call) and (match("itertools.count($*a)", it) or match("count($*a)", it) or match("itertools.cycle($*a)", it)):
                o.site(f, n, "next() on an infinite iterator")
            else:
                o.undecided(f, n, n, f"`{src(n)[:70]}` has no default and the rule cannot tell whether its iterator can run dry")

