"""C11 - Task.wbs always tells the truth about WBS membership.   (DESIGN.md section 5, C11)

Invariant `t.__wbs is X  <=>  t reachable from X's root task`, inductive over the writers of __parent/__children (C01.own)
and of __wbs.  Decided: writers of the owner pointer, recursion of attach/detach over ALL children, pairing of every
non-None parent store with attach and of every list removal with detach (the snapshot of the old children may be taken by a
private helper), the same-owner guards, re-rooting, unlinking through the raw parent field, a parent store outside the parent
setter (no unlink from the previous parent), in-place list operations that keep only a subset of the list, a memoised
all_children with incomplete invalidation (X.tasks keeps listing removed tasks), removal paths delegating to the children
assignment (also through private helpers).  Full reachability equivalence relies on the C01 invariant.
Round 4: _attach/_detach as one flat loop over `[self] + all descendants`; rejections of the parent setter precede unlink /
_attach; WBS.__root is bound only in the constructor; the detach loop of the children setter is reached on every path (an early
return is fine only when its condition means nobody can have been dropped); move / reorder put back every task they take out.
Round 5: the snapshot of the old children may be filled by a loop; members_listed_once and the owner-set rule (shared with
C05/C01) also run under C11.
Round 7: move must reject a batch that contains its own anchor before it touches the shared list (per-element guards are read as
`anchor in batch`).
Round 8: _attach/_detach as an explicit work list; the root attach through the local the root task was built in; a filtered
two-part rebuild of the shared list must be a partition; _ChildrenList.remove must not have a path that cuts the shared list itself;
id_precheck_complete (c05.intersection) and owners_compared_by_identity run under C11.
Round 9: children_assignment_atomic (shared with C05) and refusals_compare_objects (the dependency guard must not decide by
task id) run under C11; the owner field of the children facade may have any private name.
Round 10: the publish callback of the children facade may have any private name; _ChildrenList.remove may be the hook of a
template method in _TaskList.
Round 11: the owner handed to _attach may come from a local hoisted before the guards (`w = parent.__wbs if parent is not None else None`,
resolved with the path condition of the call); reorder's `A + B` may be hoisted into a local; under id_precheck_complete the findings about
WHICH ids the id test compares are left to C05 (_PrecheckProxy: up-front and per-child check are the same function and agree).
Not decided: a memoised all_children whose invalidation looks complete (UNDECIDED).
"""
from __future__ import annotations

import ast
from typing import List

from sa import facts
from sa.cfg import cfg_of
from sa.effects import Effects
from sa.flow import Expander, flow_of
from sa.model import src, walk_no_nested, unmangle
from sa.pat import match, same
from . import taskrules as T
from .taskrules import guard_facts, relation_write_nodes, Roles, SETTERS, OWNERS
from . import c01


def check(ctx):
    prog = ctx.prog
    eff = Effects(prog, ctx.typer, ctx.cg)
    ctx.assume("hierarchy is a forest with mirrored parent/children links (property C01)")

    o = ctx.ob('owner_writers', 'R1',
               "Task.__wbs is written only by _attach / _detach (and initialised None); WBS.__init__ attaches its root task to itself", floor=4)
    ctx.guarded(o, lambda o: writers(ctx, o, eff))

    o = ctx.ob('attach_detach_whole_subtree', 'R8',
               "_attach(wbs) sets the owner and recurses into ALL children (only early exit: wbs is None); _detach() clears the owner and "
               "recurses into ALL children", floor=2)
    ctx.guarded(o, lambda o: recursion(ctx, o))

    o = ctx.ob('attach_paired_with_parent_store', 'R4',
               "every store of a (possibly non-None) parent is followed on every path by _attach(parent.__wbs)", floor=1)
    ctx.guarded(o, lambda o: attach_paired(ctx, o))

    o = ctx.ob('detach_paired_with_removal', 'R4',
               "children assignment remembers the old children before clearing and, after re-parenting the new ones, detaches every old "
               "child that was not re-attached (this is the path used by remove, remove_all, WBS.remove and roots assignment)", floor=2)
    ctx.guarded(o, lambda o: detach_paired(ctx, o))

    o = ctx.ob('same_owner_guards', 'R2',
               "attached task + parent of another owner, detached receiver + attached child, attached receiver + child of another owner are "
               "rejected with RuntimeError before any relation write", floor=3)
    ctx.guarded(o, lambda o: owner_guards(ctx, o, eff))

    o = ctx.ob('unlink_and_reroot', 'R4',
               "a re-parented task is unlinked from its RAW old parent (the WBS root task included) and parent = None on a member re-roots it "
               "under the WBS root task", floor=4)
    ctx.guarded(o, lambda o: __import__('rules.c05', fromlist=['mirror_shared']).mirror_shared(ctx, o))

    o = ctx.ob('shared_child_list', 'R1',
               "one child list object per task, shared with every children facade: facades change it in place and publish that very object, "
               "nothing rebinds it (otherwise a list obtained earlier goes stale and a later remove()/append() through it re-attaches or "
               "drops tasks)", floor=4)
    ctx.guarded(o, lambda o: _shared_list(ctx, o))

    o = ctx.ob('reparent_unlinks_old_parent', 'R4',
               "a task that gets a (non-None) raw parent is first unlinked from the child list of its previous raw parent: this happens "
               "only in the parent setter; any other store of a parent has no unlink and leaves the task reachable from two trees", floor=1)
    ctx.guarded(o, lambda o: reparent_unlinks(ctx, o))

    o = ctx.ob('enumeration_is_live', 'R8',
               "X.tasks / all_children are computed from the current child lists on every call (a remembered flat list would keep listing "
               "removed tasks that report no owner)", floor=1)
    ctx.guarded(o, lambda o: live_enumeration(ctx, o))

    o = ctx.ob('list_ops_keep_members', 'R8',
               "the in-place operations of the children list (sort) replace the list by a permutation of itself: no task drops out of the "
               "list without being detached", floor=1)
    ctx.guarded(o, lambda o: list_ops(ctx, o))

    o = ctx.ob('rejected_move_keeps_membership', 'R3',
               "parent setter: every rejection of the new parent (itself, a descendant, dependency-linked) happens before the task is "
               "unlinked from its old parent or re-labelled: a refused move must not leave the task outside X.tasks while it reports X "
               "(shared rule with C05.parent_assignment_atomic)", floor=3)

    def _patomic(o):
        from .c05 import parent_atomic
        parent_atomic(ctx, o, eff)
    ctx.guarded(o, _patomic)

    o = ctx.ob('root_task_fixed', 'R1',
               "WBS.__root is bound once, in WBS.__init__: swapping in another root task drops every member from X.tasks without detaching "
               "it", floor=1)
    ctx.guarded(o, lambda o: root_fixed(ctx, o, eff))

    o = ctx.ob('members_listed_once', 'R3',
               "a task named twice in an argument is put into the child list once (shared rule with C05): a task listed twice survives "
               "a later remove / move with one entry and stays reachable while it reports no or another owner", floor=1)
    ctx.guarded(o, lambda o: __import__('rules.c05_util', fromlist=['listed_once']).listed_once(ctx, o))

    o = ctx.ob('relation_state_owner_set', 'R1',
               "parent/children state and the list shared with the children facade are written only inside the owner set (shared rule with "
               "C01/C05): a facade method that writes the shared list itself and adopts afterwards leaves a refused task listed", floor=20)

    def _own(o):
        from .c05 import own_shared
        own_shared(ctx, o, eff)
    ctx.guarded(o, _own)

    o = ctx.ob('move_rejects_anchor_in_batch', 'R2',
               "_ChildrenList.move: a batch of tasks that contains its own before/after anchor is rejected with RuntimeError before the "
               "shared list is touched (otherwise the anchor is taken out, index(anchor) fails and the task is left outside the children "
               "list while it still reports the WBS)", floor=1)
    ctx.guarded(o, lambda o: move_anchor(ctx, o, eff))

    o = ctx.ob('id_precheck_complete', 'R8',
               "the id test the children setter runs up front (shared rule C05.intersection_test) rejects everything the per-child parent "
               "assignment would reject later - also two different incoming tasks with one id: otherwise the assignment fails after the old "
               "children were released and the kept ones are left outside X.tasks while they report X", floor=5)
    ctx.guarded(o, lambda o: __import__('rules.c05', fromlist=['intersection']).intersection(ctx, _PrecheckProxy(o)))

    o = ctx.ob('owners_compared_by_identity', 'R2',
               "the same-WBS guards compare owners with `!=` / `==`: WBS must not define __eq__ / __ne__, or a member of another but "
               "equal-looking WBS passes them (shared rule with C05)", floor=1)
    ctx.guarded(o, lambda o: __import__('rules.c05', fromlist=['owner_identity']).owner_identity(ctx, o))

    o = ctx.ob('children_assignment_atomic', 'R3',
               "children setter: everything the per-child parent assignment can reject is rejected for every element before the old "
               "children are released (shared rule with C05): an assignment refused midway leaves the kept children outside X.tasks while "
               "they report X", floor=3)
    ctx.guarded(o, lambda o: __import__('rules.c05', fromlist=['children_atomic']).children_atomic(ctx, o, eff))

    o = ctx.ob('refusals_compare_objects', 'R2',
               "the dependency guard that can refuse an adoption compares task OBJECTS: ids are unique per WBS only, a task removed from "
               "one WBS must stay attachable to another whose numbering overlaps", floor=1)
    ctx.guarded(o, lambda o: refusals_by_object(ctx, o))

    o = ctx.ob('removal_paths_delegate', 'R8',
               "list removal, remove_all, WBS.remove / remove_all and roots assignment all end in a children assignment on the owning task", floor=4)
    ctx.guarded(o, lambda o: removal_paths(ctx, o))


class _PrecheckProxy:
    """C05.intersection_test run as C11.id_precheck_complete.  For membership the id test matters as the check the children setter runs up
    front: whatever the per-child parent assignment rejects later must be rejected there.  Both ask the SAME function, so WHICH ids it
    compares (scope of the receiving tree, filters applied alike to both sides, how members are recognised) cannot make the two disagree:
    those findings are C05's, here they are recorded as looked-at.  What stays a finding here: duplicates inside the argument missed or
    counted per mention, a result that does not follow from the comparison."""
    SCOPE = ('receiving tree', 'receiving tree without its root', 'identity filter by id', 'inexact ids', 'final intersection')

    def __init__(self, o):
        self._o = o

    def __getattr__(self, name):
        return getattr(self._o, name)

    def refute(self, func, node, construct, msg):
        if isinstance(construct, str) and construct in self.SCOPE:
            return self._o.site(func, node, f"which ids the test compares ({construct}) is decided under C05: up-front and per-child check agree")
        return self._o.refute(func, node, construct, msg)


def writers(ctx, o, eff):
    prog = ctx.prog
    for f in prog.all_funcs():
        for w in eff.direct_writes(f):
            if w.field == '_Task__wbs':
                workers = set()
                for nm in ('_attach', '_detach'):
                    e = prog.funcs.get('task.Task.' + nm)
                    if e is not None:
                        wk = _owner_worker(prog, e, eff)[0]
                        if wk is not None:
                            workers.add(wk.qual)
                if f.qual in OWNERS['_Task__wbs'] or f.qual in workers:
                    o.site(f, w.node, f"{f.name}: {src(w.node)[:40]}")
                else:
                    o.refute(f, w.node, w.node, f"the owner pointer is written in {f.qual}, outside _attach/_detach")
    for nm in ('_attach', '_detach'):
        e = prog.funcs.get('task.Task.' + nm)
        wk = _owner_worker(prog, e, eff)[0] if e is not None else None
        if wk is not None:
            o.site(e, e.node, f"{nm} stores the owner" + ("" if wk is e else f" through {wk.name}"))
    init = prog.func('wbs.WBS.__init__')
    iex = Expander(prog, init, ctx.typer, inline=False)
    root_vals = [v for _, _, v in facts.attr_stores(init, '_WBS__root') if v is not None]

    def attaches_root(n):
        m = match("$r._attach(self)", n)
        if m is None:
            return False
        r = m['r']
        # the root task itself, or the local it was built in before being published (`root = Task(..); self.__root = root`)
        return bool(match("self._WBS__root", r)) or any(same(r, v) or (isinstance(r, ast.Name) and same(iex.expand(r), iex.expand(v)))
                                                        for v in root_vals)
    if any(isinstance(n, ast.Call) and attaches_root(n) for n in ast.walk(init.node)):
        o.site(init, init.node, "root task attached to the new WBS")
    else:
        o.refute(init, init.node, 'root attach', "WBS.__init__ does not attach its root task to itself: members would report no owner")
    tinit = prog.func('task.Task.__init__')
    st = [x for x in facts.attr_stores(tinit, '_Task__wbs')]
    if st and all(isinstance(v, ast.Constant) and v.value is None for _, _, v in st):
        pass
    elif st:
        o.refute(tinit, st[0][0], st[0][0], "a new task is not created detached")


def _owner_worker(prog, f, eff):
    """(worker function, value kind) - the function that actually stores the owner for _attach/_detach: f itself, or a private
    helper all of whose calls from f pass on f's argument (attach) / None (detach)"""
    s = f.self_name
    stores = [x for x in facts.attr_stores(f, '_Task__wbs') if isinstance(x[1].value, ast.Name) and x[1].value.id == s]
    if stores:
        return f, None, None
    calls = []
    for n in walk_no_nested(f.node):
        if isinstance(n, ast.Call) and isinstance(n.func, ast.Attribute) and isinstance(n.func.value, ast.Name) and n.func.value.id == s:
            m = prog.find_method('Task', unmangle(n.func.attr))
            if m is not None and any(w.field == '_Task__wbs' for w in eff.direct_writes(m)):
                calls.append((n, m))
    if len(calls) == 1:
        return calls[0][1], calls[0][0], f
    return None, None, None


def recursion(ctx, o):
    prog = ctx.prog
    eff = Effects(prog, ctx.typer, ctx.cg)
    for name, val_ok in (('_attach', 'param'), ('_detach', 'none')):
        entry = prog.funcs.get('task.Task.' + name)
        if entry is None:
            o.refute(None, None, name, f"Task.{name} does not exist: the owner can never {'be set' if name == '_attach' else 'be cleared'}")
            continue
        f, via_call, via_f = _owner_worker(prog, entry, eff)
        if f is None:
            r = _flat_owner_loop(ctx, o, entry, name, val_ok)
            if r is None:
                r = _worklist_owner_loop(ctx, o, entry, name, val_ok)
            if r is None:
                if any(True for _ in facts.attr_stores(entry, '_Task__wbs')) or _unresolved_calls(ctx, _closure(ctx, entry)):
                    o.undecided(entry, entry.node, name, f"{name} stores the owner in a form the rule does not follow")
                else:
                    o.refute(entry, entry.node, name, f"{name} stores the owner 0 times")
            continue
        s = f.self_name
        cfg = cfg_of(f)
        rec_name = f.name
        stores = [x for x in facts.attr_stores(f, '_Task__wbs') if isinstance(x[1].value, ast.Name) and x[1].value.id == s]
        if len(stores) != 1:
            o.refute(f, f.node, name, f"{name} stores the owner {len(stores)} times")
            continue
        st, tgt, val = stores[0]
        wp = [x for x in f.params if x != s]
        if via_call is not None:
            # the entry point delegates: check what it passes and under which condition
            ecfg = cfg_of(entry)
            a = via_call.args[0] if via_call.args else None
            ep = [x for x in entry.params if x != entry.self_name]
            conds = [facts.norm_cond(t, q) for t, q in facts.node_conditions(prog, entry, via_call, ctx.typer, expand=False)]
            if val_ok == 'param':
                if not (isinstance(a, ast.Name) and ep and a.id == ep[0]):
                    o.refute(entry, via_call, via_call, f"_attach hands `{src(a) if a is not None else '?'}` on instead of its argument")
                    continue
                bad = [(t, q) for t, q in conds if not (match(f"{ep[0]} is None", t) and not q)]
                if bad:
                    o.refute(entry, via_call, via_call, "_attach skips the owner update when " + ', '.join(facts.cond_texts(bad)))
                    continue
            else:
                if not (isinstance(a, ast.Constant) and a.value is None) or conds:
                    o.refute(entry, via_call, via_call, "_detach does not clear the owner unconditionally")
                    continue
            if not (isinstance(val, ast.Name) and wp and val.id == wp[0]) or cfg.conditions(cfg.node_of(st)):
                o.refute(f, st, st, f"{f.name} does not store the owner it is given unconditionally")
                continue
        elif val_ok == 'param':
            p = wp[0]
            if not (isinstance(val, ast.Name) and val.id == p):
                o.refute(f, st, st, f"_attach stores `{src(val)}` instead of its argument")
                continue
            conds = [facts.norm_cond(t, q) for t, q in facts.node_conditions(prog, f, st, ctx.typer, expand=False)]
            bad = [(t, q) for t, q in conds if not (match(f"{p} is None", t) and not q)]
            if bad:
                o.refute(f, st, st, "_attach skips the owner update when " + ', '.join(facts.cond_texts(bad)))
                continue
        else:
            if not (isinstance(val, ast.Constant) and val.value is None):
                o.refute(f, st, st, "_detach does not clear the owner")
                continue
            if cfg.conditions(cfg.node_of(st)):
                o.refute(f, st, st, "_detach clears the owner only conditionally")
                continue
        # recursion over all children
        rec = [c for c in facts.calls_named(f, rec_name) if isinstance(c.func, ast.Attribute) and not (isinstance(c.func.value, ast.Name) and c.func.value.id == s)]
        ok = False
        for c in rec:
            fo = None
            for n in walk_no_nested(f.node):
                if isinstance(n, ast.For) and any(x is c for b in n.body for x in ast.walk(b)):
                    fo = n
            if fo is None:
                continue
            itx = Expander(prog, f, ctx.typer, inline=False).expand(fo.iter, cfg.node_of(fo))
            m_copy = match("list($x)", itx) or match("$x.copy()", itx) or match("$x[:]", itx) or match("tuple($x)", itx)
            if m_copy is not None:
                itx = m_copy['x']
            it_ok = match(f"{s}.children", itx) or match(f"{s}._Task__children", itx)
            tgt_ok = isinstance(fo.target, ast.Name) and isinstance(c.func.value, ast.Name) and c.func.value.id == fo.target.id
            inner = [t for t in cfg.conditions(cfg.node_containing(c)) if cfg.dominates(cfg.node_of(fo), cfg.node_containing(t[0]) or cfg.entry)]
            if it_ok and tgt_ok and not inner:
                if wp and not (c.args and isinstance(c.args[0], ast.Name) and c.args[0].id == wp[0]):
                    o.refute(f, c, c, "children get another owner than the task itself")
                    continue
                ok = True
                o.site(f, c, f"{name}: for ch in self.children: ch.{rec_name}(..)")
            elif it_ok and tgt_ok:
                o.refute(f, c, c, f"{name} recurses only into some children")
            else:
                o.refute(f, fo, fo.iter, f"{name} iterates `{src(fo.iter)[:50]}`, not all children of the task")
        if not ok and not rec:
            o.refute(f, f.node, f"{name} recursion", f"{name} does not recurse: grandchildren and below keep the old owner")


def _whole_subtree_expr(e, s) -> bool:
    """e denotes the task `s` itself followed by all its descendants"""
    desc = (f"{s}._Task__get_all_children()", f"{s}.all_children", f"list({s}.all_children)", f"list({s}._Task__get_all_children())",
            f"[$x for $x in {s}.all_children]", f"_collect_subtree({s})")
    if match(f"_collect_subtree({s})", e):
        return True
    if isinstance(e, ast.BinOp) and isinstance(e.op, ast.Add) and match(f"[{s}]", e.left):
        return any(match(d, e.right) for d in desc[:5])
    if isinstance(e, ast.List) and len(e.elts) == 2 and match(s, e.elts[0]) and isinstance(e.elts[1], ast.Starred):
        return any(match(d, e.elts[1].value) for d in desc[:5])
    m = match("list($x)", e)
    return m is not None and _whole_subtree_expr(m['x'], s)


def _flat_owner_loop(ctx, o, f, name, val_ok):
    """`for m in [self] + <all descendants>: m.__wbs = <owner>`: the non-recursive spelling of _attach / _detach.
    True when recognised (verdict recorded), None when f is not of that form"""
    prog = ctx.prog
    s = f.self_name
    cfg = cfg_of(f)
    ex = Expander(prog, f, ctx.typer, inline=False)
    stores = [x for x in facts.attr_stores(f, '_Task__wbs')]
    if len(stores) != 1 or not isinstance(stores[0][1].value, ast.Name):
        return None
    st, tgt, val = stores[0]
    fo = None
    for n in walk_no_nested(f.node):
        if isinstance(n, ast.For) and any(x is st for b in n.body for x in ast.walk(b)):
            fo = n
    if fo is None or not isinstance(fo.target, ast.Name) or fo.target.id != tgt.value.id:
        return None
    it = ex.expand(fo.iter, cfg.node_of(fo))
    if not _whole_subtree_expr(it, s):
        direct = (f"{s}.children", f"{s}._Task__children", f"list({s}.children)", f"list({s}._Task__children)", f"{s}._Task__children[:]",
                  f"{s}._Task__children.copy()")
        if any(match(d, it) or match(f"[{s}] + {d}", it) or match(f"[{s}, *{d}]", it) for d in direct):
            o.refute(f, fo, fo.iter, f"{name} walks `{src(it)[:50]}`: only the task and its direct children, grandchildren and below keep the old owner")
            return True
        return None
    wp = [x for x in f.params if x != s]
    conds = [facts.norm_cond(t, q) for t, q in facts.node_conditions(prog, f, st, ctx.typer, expand=False)]
    if val_ok == 'param':
        if not (isinstance(val, ast.Name) and wp and val.id == wp[0]):
            o.refute(f, st, st, f"_attach stores `{src(val)}` instead of its argument")
            return True
        bad = [(t, q) for t, q in conds if not (match(f"{wp[0]} is None", t) and not q)]
        if bad:
            o.refute(f, st, st, "_attach skips the owner update when " + ', '.join(facts.cond_texts(bad)))
            return True
    else:
        if not (isinstance(val, ast.Constant) and val.value is None):
            o.refute(f, st, st, "_detach does not clear the owner")
            return True
        if conds:
            o.refute(f, st, st, "_detach clears the owner only when " + ', '.join(facts.cond_texts(conds)))
            return True
    o.site(f, st, f"{name}: the owner is stored on the task and on every descendant (flat loop over the subtree)")
    return True


def _worklist_owner_loop(ctx, o, f, name, val_ok):
    """`pending = [self]; while pending: t = pending.pop(); t.__wbs = <owner>; pending.extend(<children of t>)`: the explicit-stack
    spelling of _attach / _detach.  True when recognised (verdict recorded), None otherwise"""
    from .c05_util import worklist_shape
    prog = ctx.prog
    s = f.self_name
    whiles = [n for n in walk_no_nested(f.node) if isinstance(n, ast.While)]
    stores = [x for x in facts.attr_stores(f, '_Task__wbs')]
    if len(whiles) != 1 or len(stores) != 1 or not isinstance(stores[0][1].value, ast.Name):
        return None
    wl = whiles[0]
    sh = worklist_shape(f, s, wl)
    st, tgt, val = stores[0]
    if sh is None or tgt.value.id != sh['cur'] or not any(x is st for b in wl.body for x in ast.walk(b)):
        return None
    cfg = cfg_of(f)
    if sh['starts'] != 'self':
        if sh['starts'] == 'children':
            o.refute(f, wl, wl, f"{name} walks the descendants but not the task itself: its own owner is never updated")
            return True
        return None
    if sh['push'] == 'none':
        o.refute(f, wl, wl, f"{name} never pushes the children of the tasks it visits: grandchildren and below keep the old owner")
        return True
    if sh['push'] == 'conditional':
        o.refute(f, sh['push_stmt'], sh['push_stmt'], f"{name} descends into the children only under a condition: part of the subtree keeps the old owner")
        return True
    if sh['push'] != 'all':
        return None
    if cfg.conditions(cfg.node_of(st)) != sh['base']:
        extra = [c for c in cfg.conditions(cfg.node_of(st)) if c not in sh['base']]
        o.refute(f, st, st, f"{name} updates the owner of a visited task only when " + ', '.join(facts.cond_texts(extra))[:100])
        return True
    wp = [x for x in f.params if x != s]
    conds = [facts.norm_cond(t, q) for t, q in facts.node_conditions(prog, f, wl, ctx.typer, expand=False)]
    if val_ok == 'param':
        if not (isinstance(val, ast.Name) and wp and val.id == wp[0]):
            o.refute(f, st, st, f"_attach stores `{src(val)}` instead of its argument")
            return True
        bad = [(t, q) for t, q in conds if not (match(f"{wp[0]} is None", t) and not q)]
        if bad:
            o.refute(f, st, st, "_attach skips the owner update when " + ', '.join(facts.cond_texts(bad)))
            return True
    else:
        if not (isinstance(val, ast.Constant) and val.value is None):
            o.refute(f, st, st, "_detach does not clear the owner")
            return True
        if conds:
            o.refute(f, st, st, "_detach clears the owner only when " + ', '.join(facts.cond_texts(conds)))
            return True
    o.site(f, st, f"{name}: the owner is stored on the task and on every descendant (explicit work list)")
    return True


def attach_paired(ctx, o):
    prog = ctx.prog
    for f in prog.all_funcs():
        if f.module.name != 'task':
            continue
        cfg = cfg_of(f) if not isinstance(f.node, ast.Lambda) else None
        for st, tgt, val in facts.attr_stores(f, '_Task__parent'):
            if isinstance(val, ast.Constant) and val.value is None:
                continue
            recv = tgt.value
            aex = Expander(prog, f, ctx.typer, inline=False)

            def owner_of_val(c):
                """the argument of the _attach call is the owner of the stored parent - read directly, or through a local hoisted
                before the guards (`new_wbs = parent.__wbs if parent is not None else None`): the conditional expression is
                resolved with the path condition of the call"""
                a = c.args[0]
                if match(f"{src(val)}._Task__wbs", a) or match(f"{src(val)}.wbs", a):
                    return True
                if not isinstance(a, ast.Name):
                    return False
                v = aex.expand(a, cfg.node_containing(c))
                conds = facts.node_conditions(prog, f, c, ctx.typer, expand=True)
                hops = 0
                while isinstance(v, ast.IfExp) and hops < 4:
                    hops += 1
                    pick = None
                    tt, tq = facts.norm_cond(v.test, True)
                    for t, q in conds:
                        t2, q2 = facts.norm_cond(t, q)
                        if same(t2, tt):
                            pick = v.body if q2 == tq else v.orelse
                            break
                    if pick is None:
                        return False
                    v = pick
                return bool(match(f"{src(val)}._Task__wbs", v) or match(f"{src(val)}.wbs", v))
            calls = [c for c in facts.calls_named(f, '_attach') if same(c.func.value, recv) and c.args and owner_of_val(c)]
            stn = cfg.node_of(st)
            ids = {cfg.node_containing(c).id for c in calls}
            seen, todo, leak = set(), list(stn.succ), False
            while todo:
                n = todo.pop()
                if n.id in seen or n.id in ids:
                    continue
                seen.add(n.id)
                if n is cfg.exit:
                    leak = True
                    break
                todo.extend(n.succ)
            if not calls or leak:
                o.refute(f, st, st, f"`{src(st)}` is not followed on every path by {src(recv)}._attach({src(val)}.__wbs): the moved subtree keeps its old owner")
            else:
                o.site(f, st, f"{src(st)} ; {src(calls[0])}")


def detach_paired(ctx, o):
    prog = ctx.prog
    f = prog.func(SETTERS['children'])
    s = f.self_name
    cfg = cfg_of(f)
    fl = flow_of(f)
    clears = [c for c in facts.calls_named(f, 'clear') if match(f"{s}._Task__children.clear()", c)]
    det = [c for c in facts.calls_named(f, '_detach')]
    if not det:
        o.refute(f, f.node, 'detach', "children left out of a children assignment are never detached: they keep reporting the WBS as owner and cannot "
                                      "be attached to another WBS")
        return
    for c in det:
        fo = None
        for n in walk_no_nested(f.node):
            if isinstance(n, ast.For) and any(x is c for b in n.body for x in ast.walk(b)):
                fo = n
        if fo is None or not isinstance(fo.iter, ast.Name):
            o.undecided(f, c, c, "detach outside a loop over a saved copy of the old children")
            continue
        ds = [d for d in fl.defs_of(fo.iter.id) if d.kind == 'assign']
        hops = 0
        pre_conds, filter_nodes = [], []
        while len(ds) == 1 and hops < 5:
            # `old = released` (a spliced helper result / a renamed local): follow the alias to its own single definition;
            # `dropped = [v for v in old if <cond>]`: a filtered view of the snapshot, the filter is part of the detach condition
            val = ds[0].value
            if isinstance(val, ast.ListComp) and len(val.generators) == 1 and isinstance(val.generators[0].target, ast.Name) and \
                    isinstance(val.elt, ast.Name) and val.elt.id == val.generators[0].target.id and isinstance(val.generators[0].iter, ast.Name) \
                    and val.generators[0].ifs:
                pre_conds += [(cnd, val.elt.id) for cnd in val.generators[0].ifs]
                filter_nodes.append(ds[0].node)
                val = val.generators[0].iter
            if not isinstance(val, ast.Name):
                break
            nxt = fl.defs_of(val.id)
            if len(nxt) != 1 or nxt[0].kind != 'assign' or not cfg.dominates(nxt[0].node, ds[0].node):
                break
            ds, hops = nxt, hops + 1
        copy_ok = len(ds) == 1 and _is_children_copy(ds[0].value, s)
        if not copy_ok and len(ds) == 1 and isinstance(ds[0].value, ast.List) and not ds[0].value.elts:
            # `old = []` filled by `for c in self.__children: ..; old.append(c)`: the same snapshot, spelled as a loop
            acc = facts.accumulated_list(f, ds[0].var)
            if acc is not None and _is_children_copy(acc, s):
                fill = [c for c in facts.collects(f) if c.kind == 'loop' and c.acc == ds[0].var]
                if fill and (not clears or cfg.dominates(cfg.node_of(fill[0].node), cfg.node_containing(clears[0]))) and not fill[0].conds:
                    copy_ok = True
        if not copy_ok and len(ds) == 1:
            # the snapshot may be taken by a private helper (`old = self.__release_children()`): follow it
            r = _snapshot_helper(prog, f, ds[0].value, s)
            if r == 'late':
                o.refute(f, ds[0].stmt, ds[0].stmt, "the old children are saved after the list was already cleared")
                continue
            copy_ok = r == 'ok'
        if not copy_ok and len(ds) == 1 and match(f"{s}._Task__children", ds[0].value):
            # the old list OBJECT is kept: a valid snapshot only when the task's list is re-bound afterwards instead of cleared in
            # place (the re-binding itself is refuted by shared_child_list)
            if clears:
                o.refute(f, fo, fo.iter, f"`{fo.iter.id}` is the child list itself, not a copy: the clear() empties it too, nothing is detached")
                continue
            copy_ok = True
        if not copy_ok:
            if len(ds) == 1 and _mentions_children(ds[0].value, s) and not any(isinstance(n, ast.Call) and n is not ds[0].value
                                                                                 for n in ast.walk(ds[0].value)) \
                    and not isinstance(ds[0].value, ast.Call):
                o.refute(f, fo, fo.iter, f"`{fo.iter.id}` is not a copy of the old child list taken before it is cleared")
            elif len(ds) == 1 and match(f"{s}._Task__children", ds[0].value):
                o.refute(f, fo, fo.iter, f"`{fo.iter.id}` is the child list itself, not a copy taken before it is cleared")
            else:
                o.undecided(f, fo, fo.iter, f"`{fo.iter.id}`: cannot tell whether it is a copy of the old child list taken before it is cleared")
            continue
        if clears and not cfg.dominates(ds[0].node, cfg.node_containing(clears[0])):
            o.refute(f, ds[0].stmt, ds[0].stmt, "the old children are saved after the list was already cleared")
            continue
        o.site(f, ds[0].stmt, f"{fo.iter.id} = copy of the old children")
        # after the re-parent loop
        rp = [st for st, tgt, val in facts.attr_stores(f, 'parent') if isinstance(val, ast.Name) and val.id == s]
        if rp and not all(cfg.dominates(cfg.node_of(_for_of(f, st)), cfg.node_of(fo)) and not cfg.can_reach(cfg.node_of(fo), cfg.node_of(st)) for st in rp):
            o.refute(f, fo, fo, "old children are detached before the new list is attached: a task that is kept would lose its owner")
            continue
        if rp and filter_nodes and not all(cfg.dominates(cfg.node_of(_for_of(f, st)), fn) and not cfg.can_reach(fn, cfg.node_of(st))
                                           for st in rp for fn in filter_nodes):
            o.refute(f, fo, fo.iter, "the old children to detach are selected before the new list is attached: a task that is kept would lose its owner")
            continue
        v = fo.target.id if isinstance(fo.target, ast.Name) else None
        conds = [(t, q) for t, q in facts.node_conditions(prog, f, c, ctx.typer, expand=False)
                 if cfg.node_containing(t) is not None and cfg.dominates(cfg.node_of(fo), cfg.node_containing(t))]
        if v is not None:
            from sa.flow import subst as _subst
            for cnd, var in pre_conds:
                conds += facts.split_conj(_subst(cnd, {var: ast.Name(id=v, ctx=ast.Load())}), True)
        kept = [(t, q) for t, q in conds if facts.cond_is(t, q, f"{v}._Task__parent is None", True) is not None or
                facts.cond_is(t, q, f"{v} in $val", False) is not None or facts.cond_is(t, q, f"{v}._Task__parent is {s}", False) is not None]
        if isinstance(c.func.value, ast.Name) and c.func.value.id == v and len(kept) == len(conds) and kept:
            if not _released_first(ctx, o, f, s, fo, rp, kept, v):
                continue
            skip = _skips_loop(cfg, f, ds[0].node, cfg.node_of(fo))
            if skip is not None:
                kinds = []
                for xp in (False, True):
                    sc = facts.node_conditions(prog, f, skip, ctx.typer, expand=xp) if isinstance(skip, ast.AST) and skip is not f.node else []
                    # only the tests taken after the old children were released belong to the early return
                    raw = cfg.conditions(cfg.node_of(skip)) if isinstance(skip, ast.AST) and cfg.node_of(skip) is not None else []
                    late = sum(1 for t, q in raw if cfg.node_containing(t) is not None and cfg.can_reach(ds[0].node, cfg.node_containing(t)))
                    if raw and late < len(raw) and not xp:
                        keep = {id(t) for t, q in raw if cfg.node_containing(t) is not None and cfg.can_reach(ds[0].node, cfg.node_containing(t))}
                        sc = [(t, q) for t0, q0 in raw if id(t0) in keep for t, q in facts.split_conj(t0, q0)]
                    kinds.append((_skip_kind(sc, s, fo.iter.id, []), sc))
                kind = 'benign' if any(k == 'benign' for k, _ in kinds) else (kinds[0][0] if kinds[0][0] != 'unknown' else kinds[1][0])
                sc = kinds[0][1] if kinds[0][0] != 'unknown' else kinds[1][1]
                if kind == 'benign':
                    pass
                elif kind == 'wrong':
                    o.refute(f, skip, skip, f"the children setter returns at `{src(skip).splitlines()[0][:50]}` (when "
                                            f"{', '.join(facts.cond_texts(sc))[:120]}) after the old children were released but before the detach "
                                            f"loop; that condition does not mean that nobody was left out: a dropped task keeps reporting the WBS")
                    continue
                else:
                    o.undecided(f, skip, skip, f"the children setter can return before the detach loop when {', '.join(facts.cond_texts(sc))[:120]}")
                    continue
            o.site(f, c, f"for {v} in old: if not re-attached: {v}._detach()")
        elif not conds:
            o.refute(f, c, c, "every old child is detached, also those that were re-attached by the assignment")
        else:
            o.refute(f, c, c, "old children are detached under " + ', '.join(facts.cond_texts(conds)) + "; expected exactly `not re-attached`")


def _skips_loop(cfg, f, start, loop_hdr):
    """a `return` (or the end of the function) reachable from `start` without passing the header of the detach loop: the
    offending statement, else None.  Paths that raise do not count."""
    seen, todo = set(), list(start.succ)
    while todo:
        n = todo.pop()
        if n.id in seen or n is loop_hdr:
            continue
        seen.add(n.id)
        if n is cfg.exit:
            continue
        if cfg.exit in n.succ:
            return n.ast if n.ast is not None else f.node
        todo.extend(n.succ)
    return None


def _skip_kind(conds, s, old, locals_) -> str:
    """an early return that skips the detach loop: 'benign' when its condition means nothing can have been dropped (receiver
    detached, no old children, every old child among the new ones), 'wrong' when it is made only of such tests and size
    comparisons and is not benign (sizes say nothing about who was left out), else 'unknown'"""
    unknown = [False]

    def benign(t, pol) -> bool:
        if isinstance(t, ast.UnaryOp) and isinstance(t.op, ast.Not):
            return benign(t.operand, not pol)
        if isinstance(t, ast.BoolOp):
            conj = isinstance(t.op, ast.And) == pol
            rs = [benign(v, pol) for v in t.values]
            return any(rs) if conj else all(rs)
        if facts.cond_is(t, pol, f"{s}._Task__wbs is None", True) is not None or facts.cond_is(t, pol, f"{s}.wbs is None", True) is not None:
            return True
        if pol is False and (match(old, t) or match(f"len({old})", t)) or facts.cond_is(t, pol, f"len({old}) == 0", True) is not None or \
                facts.cond_is(t, pol, f"len({old}) > 0", False) is not None:
            return True
        m = match(f"all($v in $new for $v in {old})", t) or match(f"all([$v in $new for $v in {old}])", t)
        if m is not None and pol:
            return True
        if isinstance(t, ast.Compare) and all(isinstance(x, ast.Constant) or match("len($x)", x) for x in [t.left] + t.comparators):
            return False          # a pure size test
        if facts.cond_is(t, pol, "$a._Task__wbs is None", True) is not None or facts.cond_is(t, pol, "$a._Task__wbs is None", False) is not None:
            return False
        unknown[0] = True
        return False
    if not conds:
        return 'wrong'
    ok = any(benign(t, q) for t, q in conds)
    if ok:
        return 'benign'
    return 'unknown' if unknown[0] else 'wrong'


def _released_first(ctx, o, f, s, fo, rp, kept, v) -> bool:
    """`v.__parent is None` means 'not re-attached' only if the old children were un-parented first, and a dropped task leaves
    X.tasks only if the list was emptied before the new children are linked.  Looks into f and its private helpers."""
    prog = ctx.prog
    funcs = _closure(ctx, f)
    by_parent = any(facts.cond_is(t, q, f"{v}._Task__parent is None", True) is not None for t, q in kept)
    if by_parent:
        unparent = []
        for g in funcs:
            for st, tgt, val in facts.attr_stores(g, '_Task__parent'):
                if isinstance(val, ast.Constant) and val.value is None and isinstance(tgt.value, ast.Name) and \
                        not (g.self_name and tgt.value.id == g.self_name):
                    unparent.append((g, st))
        if not unparent:
            o.refute(f, fo, 'old children keep their parent', "the old children are never un-parented before the new ones are linked, so "
                     f"`{v}.__parent is None` never holds: tasks left out of the assignment are not detached and keep reporting the WBS")
            return False
    emptied = []
    for g in funcs:
        gs = g.self_name or s
        for n in walk_no_nested(g.node):
            if isinstance(n, ast.Call) and match(f"{gs}._Task__children.clear()", n):
                emptied.append(n)
            elif isinstance(n, ast.Call) and (match(f"{gs}._Task__children.remove($x)", n) or match(f"{gs}._Task__children.pop($*x)", n)):
                emptied.append(n)      # the dropped tasks are taken out one by one
            elif isinstance(n, ast.Delete) and any(isinstance(t, ast.Subscript) and match(f"{gs}._Task__children", t.value) for t in n.targets):
                emptied.append(n)
            elif isinstance(n, ast.Assign) and any(isinstance(t, ast.Subscript) and match(f"{gs}._Task__children", t.value) and
                                                   isinstance(t.slice, ast.Slice) for t in n.targets):
                emptied.append(n)
            elif isinstance(n, ast.Assign) and any(match(f"{gs}._Task__children", t) for tt in n.targets
                                                   for t in (tt.elts if isinstance(tt, (ast.Tuple, ast.List)) else [tt])) \
                    and g.qual != 'task.Task.__set_children':
                emptied.append(n)      # a rebind (refuted by shared_child_list) still empties it
    if not emptied:
        o.refute(f, f.node, 'child list not emptied', "the children setter never takes anything out of the old child list (no clear / remove / "
                                                      "slice assignment): tasks left out of the assignment stay in the list (and in X.tasks) "
                                                      "although they are detached and report no owner")
        return False
    return True


def _for_of(f, node):
    best = None
    for n in walk_no_nested(f.node):
        if isinstance(n, ast.For) and any(x is node for s in n.body for x in ast.walk(s)):
            best = n
    return best or f.body[0]


def _is_children_copy(v, s) -> bool:
    return bool(match(f"[$x for $x in {s}._Task__children]", v) or match(f"list({s}._Task__children)", v)
                or match(f"{s}._Task__children.copy()", v) or match(f"{s}._Task__children[:]", v)
                or match(f"tuple({s}._Task__children)", v) or match(f"[*{s}._Task__children]", v)
                or match(f"[$x for $x in {s}.children]", v) or match(f"list({s}.children)", v))


def _mentions_children(v, s) -> bool:
    return any(isinstance(n, ast.Attribute) and n.attr in ('_Task__children', 'children') and isinstance(n.value, ast.Name) and n.value.id == s
               for n in ast.walk(v))


def _snapshot_helper(prog, f, v, s) -> str:
    """`self.__helper()` whose result is a copy of the helper's own child list taken before the helper clears it:
    'ok' | 'late' (copied after the clear) | '' (not recognised)"""
    if not (isinstance(v, ast.Call) and isinstance(v.func, ast.Attribute) and isinstance(v.func.value, ast.Name) and v.func.value.id == s
            and not v.args and not v.keywords):
        return ''
    g = prog.find_method('Task', unmangle(v.func.attr))
    if g is None or g is f or not g.self_name:
        return ''
    gs = g.self_name
    gfl = flow_of(g)
    gcfg = gfl.cfg
    rets = [n for n in walk_no_nested(g.node) if isinstance(n, ast.Return)]
    if len(rets) != 1 or rets[0].value is None:
        return ''
    rv = rets[0].value
    copy_node = None
    if _is_children_copy(rv, gs):
        copy_node = gcfg.node_of(rets[0])
    elif isinstance(rv, ast.Name):
        ds = [d for d in gfl.defs_of(rv.id)]
        if len(ds) == 1 and ds[0].kind == 'assign' and _is_children_copy(ds[0].value, gs):
            # the returned list must not be changed afterwards
            if any(isinstance(n, ast.Call) and isinstance(n.func, ast.Attribute) and isinstance(n.func.value, ast.Name) and n.func.value.id == rv.id
                   and n.func.attr in ('append', 'remove', 'clear', 'pop', 'extend', 'insert') for n in walk_no_nested(g.node)):
                return ''
            copy_node = ds[0].node
    if copy_node is None:
        return ''
    for c in facts.calls_named(g, 'clear'):
        if match(f"{gs}._Task__children.clear()", c):
            cn = gcfg.node_containing(c)
            if cn is not None and not gcfg.dominates(copy_node, cn):
                return 'late'
    return 'ok'


def _req(*a, **k):
    from .c05 import require
    return require(*a, **k)


def owner_guards(ctx, o, eff):
    prog = ctx.prog
    from .c05 import _reaches_under
    A, N, AND = T.F_atom, T.F_not, T.F_and
    f = prog.func(SETTERS['parent'])
    writes = relation_write_nodes(ctx, f, eff)
    _req(ctx, o, f, "attached task + parent of another owner", AND(N(A('wbsnone(self)')), N(A('none(arg)')), A('wbsneq(arg,self)')),
              writes, eff, False, mode_filter=_reaches_under)
    f = prog.func(SETTERS['children'])
    writes = relation_write_nodes(ctx, f, eff)
    _req(ctx, o, f, "detached receiver + attached child", AND(A('wbsnone(self)'), N(A('wbsnone(elem)'))), writes, eff, True,
              mode_filter=_reaches_under)
    _req(ctx, o, f, "attached receiver + child of another owner",
              AND(N(A('wbsnone(self)')), N(A('wbsnone(elem)')), A('wbsneq(elem,self)')), writes, eff, True, mode_filter=_reaches_under)


def _shared_list(ctx, o):
    from .c05_util import shared_list
    shared_list(ctx, o)


def move_anchor(ctx, o, eff):
    import re
    prog = ctx.prog
    f = prog.func('task._ChildrenList.move')
    ps = [p for p in f.params if p != f.self_name]
    if len(ps) < 3:
        o.undecided(f, f.node, 'move', "move has an unexpected signature")
        return
    b, a = ps[1], ps[2]
    cfg = cfg_of(f)
    writes = relation_write_nodes(ctx, f, eff)
    gfs = T.guard_formulas(ctx, f)
    early = [g for g in gfs if not T.writes_not_preceded(cfg, f, T._as_gf(g), writes)]
    late = [g for g in gfs if g not in early]
    R = T.F_or(T.F_atom(f'in({b},arg)'), T.F_atom(f'in({a},arg)'))
    usable = [g for g in early if g.exc == 'RuntimeError']

    def exists_form(g):
        """a guard evaluated for every element e of the batch: `e is X` for some e  ==  `X in batch`"""
        if not g.per_element:
            return g.formula

        def ren(fm):
            k = fm[0]
            if k == 'atom':
                m = re.match(r"^same\((.*),elem\)$", fm[1]) or re.match(r"^same\(elem,(.*)\)$", fm[1])
                return ('atom', f"in({m.group(1)},arg)") if m else fm
            if k == 'not':
                return ('not', ren(fm[1]))
            if k in ('and', 'or'):
                return (k, [ren(x) for x in fm[1]])
            return fm
        return ren(g.formula)
    if T.implication(R, [exists_form(g) for g in usable]) is None:
        hit = next((g for g in usable if T.atoms_of(g.formula) & T.atoms_of(R)), None)
        o.site(f, hit.node if hit else f.node, "anchor inside the batch => RuntimeError before the list is changed")
        return
    late_rt = [g for g in late if g.exc == 'RuntimeError']
    if late_rt and T.implication(R, [exists_form(g) for g in usable + late_rt]) is None:
        g = next((x for x in late_rt if T.atoms_of(x.formula) & T.atoms_of(R)), late_rt[0])
        o.refute(f, g.node, g.node, "a batch that contains its own anchor is only rejected after the shared list was already changed")
        return
    atoms = set().union(*[T.atoms_of(g.formula) for g in gfs]) if gfs else set()
    odd = sorted(x for x in atoms if x.startswith('opaque:') or (re.match(r"^in\(.*,arg\)$", x) and x not in T.atoms_of(R)) or
                 (re.search(r"\belem\b", x) and (b in x or a in x)))
    helpers = T.unfolded_raising_helpers(ctx, f, eff)
    if odd or helpers:
        o.undecided(f, f.node, 'anchor in batch', "cannot tell that a batch containing its anchor is rejected (" + (odd[0][:60] if odd else helpers[0]) + ")")
        return
    ident = sorted(x for x in atoms if x.startswith('same(') and 'arg' in x)
    o.refute(f, f.node, 'anchor in batch', "move does not reject a batch of tasks that contains its own before/after anchor before it changes the "
             "shared list" + (f" (it only tests `{ident[0]}`: the whole argument against the anchor by identity)" if ident else "") +
             ": the loop takes the anchor out, index(anchor) fails and the task is left outside the children list while it reports the WBS")


def refusals_by_object(ctx, o):
    prog = ctx.prog
    f = prog.func('task._has_dependency_with_parents')
    ex = Expander(prog, f, ctx.typer, inline=False)
    tests = [n for n in ast.walk(f.node) if isinstance(n, ast.Compare) and len(n.ops) == 1 and isinstance(n.ops[0], (ast.In, ast.NotIn, ast.Eq, ast.NotEq))]
    by_id = [n for n in tests if isinstance(n.left, ast.Attribute) and n.left.attr == 'id' or
             (isinstance(n.comparators[0], ast.Attribute) and n.comparators[0].attr == 'id')]
    if by_id:
        n = by_id[0]
        o.refute(f, n, n, f"{f.name} decides `{src(n)[:50]}` by task id: a linked task outside the tree that merely shares an id with the new "
                          f"parent or one of its ancestors makes the adoption be refused (a task removed from one WBS can no longer be "
                          f"attached to another whose numbering overlaps)")
    elif tests:
        o.site(f, tests[0], "links are compared with the parent chain as objects")
    else:
        o.undecided(f, f.node, f.name, "no membership test found in the dependency guard")


def root_fixed(ctx, o, eff):
    prog = ctx.prog
    for f in prog.all_funcs():
        if isinstance(f.node, ast.Lambda):
            continue
        for w in eff.direct_writes(f):
            if w.field == '_WBS__root' and w.kind in ('store', 'setattr'):
                if f.qual == 'wbs.WBS.__init__':
                    o.site(f, w.node, "root task created in the constructor")
                else:
                    o.refute(f, w.node, w.node, f"{f.qual} replaces the root task of the WBS (`{src(w.node)[:50]}`): the members of the old root "
                                                f"disappear from X.tasks / X.roots but are never detached and keep reporting X as owner")


def reparent_unlinks(ctx, o):
    prog = ctx.prog
    # private helpers that only the parent setter uses are part of it (the unlink obligation looks at the setter)
    ps = prog.func(SETTERS['parent'])
    setter_helpers = [g for g in _closure(ctx, ps) if g is not ps and g.cls == 'Task' and _only_called_from(ctx, g, [ps] + _closure(ctx, ps))]
    for f in prog.all_funcs():
        if f.module.name != 'task' or isinstance(f.node, ast.Lambda) or f.qual == 'task.Task.__init__':
            continue
        for st, tgt, val in facts.attr_stores(f, '_Task__parent'):
            if isinstance(val, ast.Constant) and val.value is None:
                continue
            if f.qual == SETTERS['parent'] or f in setter_helpers:
                o.site(f, st, "parent store in the parent setter (its unlink is obligation unlink_and_reroot)")
                continue
            recv = tgt.value
            cfg = cfg_of(f)
            stn = cfg.node_of(st)
            ok = False
            for c in facts.calls_named(f, 'remove'):
                m = match("$r._Task__parent._Task__children.remove($r)", c)
                if m is None or not same(m['r'], recv):
                    continue
                cn = cfg.node_containing(c)
                if cn is None or cfg.can_reach(stn, cn) and not cfg.enclosing_fors(stn):
                    continue
                if cfg.dominates(cn, stn):
                    ok = True
                    continue
                conds = cfg.conditions(cn)
                tn = cfg.node_containing(conds[-1][0]) if conds else None
                if tn is not None and cfg.dominates(tn, stn):
                    ok = True
            conds = facts.node_conditions(prog, f, st, ctx.typer, expand=True)
            if any(facts.cond_is(t, q, "$x._Task__parent is None", True) is not None and same(facts.norm_cond(t, q)[0].left.value, recv)
                   for t, q in conds):
                ok = True
            if ok:
                o.site(f, st, f"{f.name}: `{src(st)[:40]}` after unlinking from the old parent")
            else:
                o.refute(f, st, st, f"`{src(st)[:50]}` in {f.name} gives the task a new parent without unlinking it from the child list of its "
                                    f"previous parent (only the parent setter does that): the task stays reachable from the old tree, "
                                    f"whose later _attach re-labels it while it is still a member here")


def live_enumeration(ctx, o):
    from . import c05_util
    prog = ctx.prog
    if c05_util.flat_list_cache(ctx, o) is not None:
        return
    h = prog.func('task.Task.__get_all_children')
    o.site(h, h.node, "all_children keeps nothing on the task: every call walks the current child lists")
    g = prog.func('wbs.WBS.tasks')
    eff = Effects(prog, ctx.typer, ctx.cg)
    for w in eff.direct_writes(g):
        if w.root == 'self':
            o.refute(g, w.node, w.node, f"WBS.tasks keeps state on the WBS ({unmangle(w.field)}): a remembered flat list goes stale")


def _partition(v):
    """`<part1> + <part2>` where each part is (a sorted / copied) `[t for t in self._list if c]`:
    ('perm', c1, c2) when c2 is the negation of c1, ('mismatch', ..) when one is the truth value of E and the other `E is (not) None`
    (they disagree on 0, '', False), ('unknown', ..) otherwise; None when v is not of that form"""
    if not (isinstance(v, ast.BinOp) and isinstance(v.op, ast.Add)):
        return None

    def part(e):
        while isinstance(e, ast.Call) and isinstance(e.func, ast.Name) and e.func.id in ('sorted', 'list', 'reversed') and e.args:
            e = e.args[0]
        if isinstance(e, (ast.ListComp, ast.GeneratorExp)) and len(e.generators) == 1 and isinstance(e.generators[0].target, ast.Name) and \
                isinstance(e.elt, ast.Name) and e.elt.id == e.generators[0].target.id and len(e.generators[0].ifs) == 1 and \
                _perm_of_list(e.generators[0].iter) == 'perm':
            return e.generators[0].target.id, e.generators[0].ifs[0]
        m = match("filter($f, $x)", e)
        return None
    a, b = part(v.left), part(v.right)
    if a is None or b is None:
        return None
    from sa.flow import subst
    c1 = a[1]
    c2 = subst(b[1], {b[0]: ast.Name(id=a[0], ctx=ast.Load())})
    n1, q1 = facts.norm_cond(c1, True)
    n2, q2 = facts.norm_cond(c2, True)
    if same(n1, n2):
        return ('perm' if q1 != q2 else 'mismatch', c1, c2)
    # truth value of E  vs  E is None
    for (x, qx), (y, qy) in (((n1, q1), (n2, q2)), ((n2, q2), (n1, q1))):
        my = match("$e is None", y)
        if my is not None and same(my['e'], x):
            return ('mismatch', c1, c2)
    return ('unknown', c1, c2)


def _perm_of_list(v):
    """'perm' when v is recognisably a permutation / copy of the facade's whole list, ('subset', node) when it keeps only some
    of its elements, None otherwise"""
    if match("self._list", v) or match("self", v):
        return 'perm'
    if isinstance(v, ast.Call) and isinstance(v.func, ast.Name) and v.func.id in ('sorted', 'list', 'reversed', 'tuple') and v.args:
        return _perm_of_list(v.args[0])
    m = match("$x.copy()", v) or match("$x[::-1]", v) or match("$x[:]", v)
    if m is not None:
        return _perm_of_list(m['x'])
    if isinstance(v, ast.Call) and isinstance(v.func, ast.Name) and v.func.id == 'filter' and len(v.args) == 2:
        return ('subset', v) if _perm_of_list(v.args[1]) == 'perm' else None
    if isinstance(v, (ast.ListComp, ast.GeneratorExp)) and len(v.generators) == 1 and isinstance(v.generators[0].target, ast.Name) and \
            isinstance(v.elt, ast.Name) and v.elt.id == v.generators[0].target.id:
        inner = _perm_of_list(v.generators[0].iter)
        if inner == 'perm' and v.generators[0].ifs:
            return ('subset', v)
        return inner
    if isinstance(v, ast.Subscript) and isinstance(v.slice, ast.Slice) and _perm_of_list(v.value) == 'perm':
        return ('subset', v)
    return None


def list_ops(ctx, o):
    prog = ctx.prog
    cl = prog.cls('_ChildrenList')
    for m in cl.methods.values():
        if m.name == '__init__':
            continue
        ex = Expander(prog, m, ctx.typer, inline=False)
        cfg = cfg_of(m)
        for c in [n for n in walk_no_nested(m.node) if isinstance(n, ast.Call) and isinstance(n.func, ast.Attribute) and
                  n.func.attr in ('sort', 'reverse') and match("self._list", ex.expand(n.func.value))]:
            o.site(m, c, f"{m.name}: the shared list is reordered in place (list.{c.func.attr})")
        fl = flow_of(m)
        from .c05_util import inplace_replacements
        if m.name != 'remove':
            _taken_out_not_put_back(ctx, o, m, ex)
        for st, value in inplace_replacements(prog, ctx.typer, m):
            vx = ex.expand(value)
            k = _perm_of_list(vx)
            if k is None and isinstance(vx, ast.Name):
                # `ordered = sorted(..)` in several branches, assigned once afterwards
                ds = [d for d in fl.reaching(vx.id, cfg.node_of(st))]
                ks = [_perm_of_list(ex.expand(d.value, d.node)) if d.kind == 'assign' and d.value is not None else None for d in ds]
                if ks and all(x == 'perm' for x in ks):
                    k = 'perm'
                elif any(x is not None and x != 'perm' for x in ks):
                    k = next(x for x in ks if x is not None and x != 'perm')
            if k is None:
                pt = _partition(vx)
                if pt is not None:
                    kind, c1, c2 = pt
                    if kind == 'perm':
                        k = 'perm'
                    elif kind == 'mismatch':
                        o.refute(m, st, st, f"{m.name} rebuilds the shared list from two filtered parts of it whose tests are not complements "
                                            f"(`{src(c1)[:40]}` / `{src(c2)[:40]}`): a task with a false but not-None value is in neither part and "
                                            f"drops out of the children list (and of X.tasks) without being detached")
                        continue
                    else:
                        o.undecided(m, st, st, f"{m.name} rebuilds the shared list from two filtered parts (`{src(c1)[:40]}` / `{src(c2)[:40]}`); "
                                               f"cannot tell that every task is in exactly one of them")
                        continue
            if k is None:
                tp = _transfer_perm(m, value, ex, fl)
                if tp == 'perm':
                    k = 'perm'
                elif tp is not None:
                    o.refute(m, tp[1], tp[1], f"{m.name}: `{src(tp[1])[:40]}` takes a task out of the copy of the list without putting it into the "
                                              f"new order: the task drops out of the children list without being detached")
                    continue
            if k == 'perm':
                o.site(m, st, f"{m.name}: the list is replaced by a permutation of itself")
            elif k is not None:
                # the left-out tasks may be put back afterwards - but only from something saved BEFORE the replacement
                stn = cfg.node_of(st)
                later = []
                for n in walk_no_nested(m.node):
                    src_e = None
                    if isinstance(n, ast.Call) and isinstance(n.func, ast.Attribute) and n.func.attr in ('extend', 'append', 'insert') and \
                            match("self._list", n.func.value) and n.args:
                        src_e = n.args[-1]
                    elif isinstance(n, ast.AugAssign) and match("self._list", n.target):
                        src_e = n.value
                    if src_e is not None and cfg.node_containing(n) is not None and cfg.can_reach(stn, cfg.node_containing(n)):
                        later.append((n, src_e))
                live = [(n, e) for n, e in later if any(match("self._list", x) or match("self._ChildrenList__parent.children", x) or
                                                         match("self._ChildrenList__parent._Task__children", x) or
                                                         (isinstance(x, ast.Name) and x.id == 'self' and not _is_attr_base(e, x))
                                                         for x in ast.walk(e))]
                if live:
                    o.refute(m, st, st, f"{m.name} overwrites the shared list with only some of its tasks (`{src(k[1])[:50]}`) and then re-adds "
                                        f"the others from `{src(live[0][1])[:50]}`, which reads the list that was just overwritten: those tasks "
                                        f"drop out of the children list (and of X.tasks) while still reporting the WBS as owner")
                elif not later:
                    o.refute(m, st, st, f"{m.name} replaces the shared list by only some of its tasks (`{src(k[1])[:50]}`): the others drop out of "
                                        f"the children list without being detached")
                else:
                    o.undecided(m, st, st, f"{m.name} replaces the list by a subset and extends it afterwards; cannot tell that all tasks are kept")


def _transfer_perm(m, value, ex, fl):
    """`A + B` (reorder): B a copy of the whole list, A filled in one loop by `A.append(v)` paired with `B.remove(v)`:
    'perm' | ('lost', stmt) a task taken out of B is not put into A | None"""
    hops = 0
    while isinstance(value, ast.Name) and hops < 3:
        # `reordered = A + B ; self._list[:] = reordered`: the sum hoisted into a local with one definition
        hops += 1
        ds = [d for d in fl.defs_of(value.id)]
        if len(ds) != 1 or ds[0].kind != 'assign' or ds[0].value is None:
            return None
        value = ds[0].value
    if not (isinstance(value, ast.BinOp) and isinstance(value.op, ast.Add) and isinstance(value.left, ast.Name) and isinstance(value.right, ast.Name)):
        return None
    names = [value.left.id, value.right.id]
    kinds = {}
    for nm in names:
        ds = [d for d in fl.defs_of(nm) if d.kind == 'assign']
        if len(ds) != 1:
            return None
        v = ds[0].value
        if isinstance(v, ast.List) and not v.elts:
            kinds[nm] = 'empty'
        elif _perm_of_list(ex.expand(v, ds[0].node)) == 'perm':
            kinds[nm] = 'copy'
        else:
            return None
    if sorted(kinds.values()) != ['copy', 'empty']:
        return None
    A = next(n for n in names if kinds[n] == 'empty')
    B = next(n for n in names if kinds[n] == 'copy')
    muts = []
    for n in walk_no_nested(m.node):
        if isinstance(n, ast.Call) and isinstance(n.func, ast.Attribute) and isinstance(n.func.value, ast.Name) and n.func.value.id in (A, B) and \
                n.func.attr in ('append', 'remove', 'insert', 'pop', 'extend', 'clear'):
            muts.append(n)
    apps = [n for n in muts if n.func.value.id == A and n.func.attr == 'append' and len(n.args) == 1]
    rems = [n for n in muts if n.func.value.id == B and n.func.attr == 'remove' and len(n.args) == 1]
    if len(apps) + len(rems) != len(muts):
        return None
    cfg = cfg_of(m)
    for r in rems:
        mate = [a for a in apps if same(a.args[0], r.args[0]) and cfg.conditions(cfg.node_containing(a)) == cfg.conditions(cfg.node_containing(r))]
        if not mate:
            return ('lost', r)
    for a in apps:
        if not any(same(a.args[0], r.args[0]) for r in rems):
            return None          # a task listed twice: not a membership question (C01)
    return 'perm'


def _taken_out_not_put_back(ctx, o, m, ex):
    """`self._list.remove(x)` ... `self._list.insert(i, x)` (move): every removal from the shared list is followed on every path
    of the same iteration by putting that task back"""
    cfg = cfg_of(m)
    calls = [n for n in walk_no_nested(m.node) if isinstance(n, ast.Call) and isinstance(n.func, ast.Attribute) and
             match("self._list", ex.expand(n.func.value))]
    rems = [n for n in calls if n.func.attr == 'remove' and len(n.args) == 1]
    puts = [n for n in calls if n.func.attr in ('insert', 'append') and n.args]
    for r in rems:
        rn = cfg.node_containing(r)
        if rn is None:
            continue
        stop = {cfg.node_containing(p).id for p in puts if same(p.args[-1], r.args[0]) and cfg.node_containing(p) is not None}
        # ... or parked in a local list that a later in-place replacement of the shared list contains (`self._list[:] = picked + self._list`)
        from .c05_util import inplace_replacements
        parked = {x.id for st, v in inplace_replacements(ctx.prog, ctx.typer, m) for x in ast.walk(v) if isinstance(x, ast.Name)}
        for n in walk_no_nested(m.node):
            if isinstance(n, ast.Call) and isinstance(n.func, ast.Attribute) and n.func.attr == 'append' and isinstance(n.func.value, ast.Name) and \
                    n.func.value.id in parked and len(n.args) == 1 and same(n.args[0], r.args[0]) and cfg.node_containing(n) is not None:
                stop.add(cfg.node_containing(n).id)
                if cfg.dominates(cfg.node_containing(n), rn) and cfg.enclosing_fors(cfg.node_containing(n)) == cfg.enclosing_fors(rn):
                    stop.update(q.id for q in rn.succ)       # parked just before it is taken out
        fors = cfg.enclosing_fors(rn)
        hdr = cfg.node_of(fors[-1]) if fors else None
        seen, todo, leak = set(), list(rn.succ), False
        while todo:
            q = todo.pop()
            if q.id in seen or q.id in stop:
                continue
            seen.add(q.id)
            if q is cfg.exit or (hdr is not None and q is hdr):
                leak = True
                break
            todo.extend(q.succ)
        if leak:
            o.refute(m, r, r, f"{m.name} takes `{src(r.args[0])}` out of the shared child list and a path does not put it back: the task leaves "
                              f"the children list (and X.tasks) without being detached")
        else:
            o.site(m, r, f"{m.name}: the task taken out of the list is put back at its new place")


def _is_attr_base(root, name_node) -> bool:
    """name_node occurs in root only as the base of an attribute access (self.x), not as a value of its own"""
    for n in ast.walk(root):
        if isinstance(n, ast.Attribute) and n.value is name_node:
            return True
    return False


def _only_called_from(ctx, g, allowed) -> bool:
    for f in ctx.prog.all_funcs():
        if f in allowed or isinstance(f.node, ast.Lambda):
            continue
        for ci in ctx.cg.calls_in(f):
            if g in [t for t in ci.targets if t is not None]:
                return False
    return True


def _closure(ctx, f, depth=4):
    """f and the private helpers it (transitively) calls, nearest first (public API such as property setters is not a helper)"""
    out, todo = [f], [(f, 0)]
    while todo:
        g, d = todo.pop(0)
        if d >= depth:
            continue
        for ci in ctx.cg.calls_in(g):
            for t in ci.targets:
                if t is not None and t not in out and not isinstance(t.node, ast.Lambda) and t.kind not in ('getter', 'setter') and \
                        t.name.startswith('_') and not (t.name.startswith('__') and t.name.endswith('__')):
                    out.append(t)
                    todo.append((t, d + 1))
    return out


def _unresolved_calls(ctx, funcs) -> List[str]:
    """calls on objects of the package whose target the call graph could not resolve (a delegate the rule cannot look into)"""
    out = []
    for g in funcs:
        for ci in ctx.cg.calls_in(g):
            if not ci.targets and not ci.resolved and isinstance(ci.node, ast.Call) and isinstance(ci.node.func, ast.Attribute) and \
                    isinstance(ci.node.func.value, ast.Attribute) and ci.node.func.value.attr.startswith('_') and \
                    ci.node.func.attr.startswith('_'):
                out.append(src(ci.node)[:40])
    return out


def _delegates(ctx, o, f, found_in, label, ok_note, miss_msg, in_place=None):
    """f must end in the delegation `found_in(g)` looks for, in f itself or in a private helper it calls; a miss is a refutation
    only with a closed-world argument (everything f calls was looked into) or when an in-place removal was positively seen"""
    funcs = _closure(ctx, f)
    for g in funcs:
        hit = found_in(g)
        if hit is not None:
            o.site(f, hit if g is f else f.node, ok_note + ('' if g is f else f" (in {g.name})"))
            return True
    bad = in_place(f) if in_place is not None else None
    if bad is not None:
        o.refute(f, bad, label, miss_msg + f" (`{src(bad)[:50]}` changes the list directly)")
        return False
    unk = _unresolved_calls(ctx, funcs)
    if unk:
        o.undecided(f, f.node, label, miss_msg + f"; it may happen behind `{unk[0]}`, which the rule cannot resolve")
    else:
        o.refute(f, f.node, label, miss_msg)
    return False


def removal_paths(ctx, o):
    prog = ctx.prog

    def children_store(recv_pat):
        def find(g):
            gx = Expander(prog, g, ctx.typer, inline=False)
            for st, tgt, val in facts.attr_stores(g, 'children'):
                if g.cls == f.cls and (match(recv_pat, tgt.value) or match(recv_pat, gx.expand(tgt.value))):
                    return st
                if g.cls != f.cls or g is not f and g.self_name and isinstance(tgt.value, ast.Name):
                    return st
            return None
        return find

    def list_cut(g):
        for n in walk_no_nested(g.node):
            if isinstance(n, ast.Call) and isinstance(n.func, ast.Attribute) and n.func.attr in ('remove', 'pop') and match("self._list", n.func.value):
                return n
            if isinstance(n, ast.Delete) and any(isinstance(t, ast.Subscript) and match("self._list", t.value) for t in n.targets):
                return n
        return None
    f = prog.funcs.get('task._ChildrenList.remove')
    if f is None:
        # template method in the base class with a hook in the children list (`remove` -> `self._remove_existing(task)`)
        base = prog.funcs.get('task._TaskList.remove')
        hooks = [m for m in prog.cls('_ChildrenList').methods.values() if base is not None and
                 any(isinstance(c.func, ast.Attribute) and unmangle(c.func.attr) == m.name for c in walk_no_nested(base.node) if isinstance(c, ast.Call))]
        f = hooks[0] if len(hooks) == 1 else prog.func('task._ChildrenList.remove')
    cut = next((c for g in _closure(ctx, f) for c in [list_cut(g)] if c is not None), None)
    if cut is not None:
        # a path that takes the task out of the shared list itself: only the children assignment detaches what it drops
        if any(facts.calls_named(g, '_detach') for g in _closure(ctx, f)):
            o.undecided(f, cut, 'remove', f"_ChildrenList.remove cuts the shared list itself (`{src(cut)[:40]}`) and detaches by hand: cannot tell that "
                                          f"every such path clears the owner of the whole removed subtree")
        else:
            o.refute(f, cut, 'remove', f"_ChildrenList.remove has a path that takes the task out of the shared list itself (`{src(cut)[:40]}`) instead "
                                       f"of re-assigning the owner's children: nothing detaches the removed subtree on that path, it keeps reporting "
                                       f"the WBS (a following `task.parent = None` re-roots a member instead of removing it)")
    _delegates(ctx, o, f, children_store("self.$owner"), 'remove', "list removal = children assignment on the owner",
               "_ChildrenList.remove does not go through the owner's children assignment (no detach)", in_place=list_cut)
    f = prog.func('wbs.WBS.roots.setter')
    _delegates(ctx, o, f, children_store("self._WBS__root"), 'roots', "roots assignment = children assignment on the root task",
               "WBS.roots assignment bypasses the root task's children assignment")
    f = prog.func('wbs.WBS.remove')

    def facade_remove(g):
        exr = Expander(prog, g, ctx.typer, inline=False)
        for n in facts.calls_named(g, 'remove'):
            if match("$c.children.remove($t)", exr.expand(n)) or match("$c.roots.remove($t)", exr.expand(n)):
                return n
        for st, tgt, val in facts.attr_stores(g, 'children'):
            return st          # `current.children = kept`: a children assignment detaches what it leaves out
        return None
    _delegates(ctx, o, f, facade_remove, '__remove', "WBS.remove -> children.remove / children assignment",
               "WBS.remove neither removes through the child list facade nor re-assigns the children of the owning task")
    f = prog.func('task._TaskList.remove_all')

    def self_remove(g):
        for n in ast.walk(g.node):       # also inside a lambda handed to a shared helper
            if isinstance(n, ast.Call) and match("self.remove($t)", n):
                return n
        return None
    _delegates(ctx, o, f, self_remove, 'remove_all', "remove_all -> remove", "remove_all does not remove through remove()")
